#!/bin/sh
# Offline setup: parse every TLA+ module, make output directories.
set -e
HERE="$(cd "$(dirname "$0")" && pwd)"
mkdir -p "$HERE/evidence/replays"
cd "$HERE/spec"
fail=0
for f in *.tla; do
  [ -f "$f" ] || continue
  if ! java -cp /opt/veriftools/tla/tla2tools.jar:/opt/veriftools/tla/CommunityModules-deps.jar tla2sany.SANY "$f" >/tmp/sany.$$ 2>&1; then
    cat /tmp/sany.$$; fail=1
  elif grep -q "Semantic errors\|Parse Error\|Fatal" /tmp/sany.$$; then
    cat /tmp/sany.$$; fail=1
  fi
done
rm -f /tmp/sany.$$
/venv/bin/python -c "import sys; sys.path.insert(0,'/repo/src'); import wikitextprocessor, lupa" 
exit $fail
