"""C06 binding V: extraction of the live object graph of the Lua sandbox.

Boots the REAL sandbox of the working tree, captures the environment and the frame a
module receives, and walks everything a module could reach from them:

  f:<k> / i:<n> / b:<v>  raw table field with string / number / boolean key
  k:<j> / v:<j>          j-th object-valued key of a table and the value stored under it
  m:<k>                  t[k] answered by an __index metamethod (function or table)
  mt                     getmetatable(x) as the sandbox's own getmetatable answers
  c:<json args>          result of really calling a held function with these arguments
                         (require / _cached_mod / loaders / frame getters ...)
  a:<name>               attribute of a Python object *as the real bridge returns it*
                         (every name of dir(obj), underscore names included, is tried
                         through Lua so the real attribute_filter decides)
  x:<i>                  item of a Python object that the bridge indexes by item

Expansion stops at Forbidden nodes.  Nothing here decides reachability: the edge list is
handed to TLC (spec/Gen_SandboxReach.tla), which computes the closure and the paths.
"""
from __future__ import annotations

import functools
import json
import types
from pathlib import Path

import common
import luafix

CANARY = "C06CANARY"
STD_NAMES = [
    "io", "os", "package", "debug", "python", "_G", "string", "table", "math", "coroutine",
    "utf8", "bit", "bit32", "jit", "ffi", "lfs", "socket", "lupa", "posix", "strict",
    "_sandbox_phase1", "_sandbox_phase2", "libraryUtil", "ustring:ustring",
]
# helpers of the module environment that hand out references when called; name -> arg vectors.
# "$names" = every name of the require dictionary, "$frame"/"$env"/"$tbl" = reference arguments.
GETTERS = {
    "require": "$names",
    "_cached_mod": "$names",
    "_new_loader": "$names",
    "_new_loadData": "$pages",
    "_python_top_env": [[]],
    "current_frame_python": [[]],
    "_mw_clone": [[{"$": "env"}]],
}
FRAME_GETTERS = {
    "getParent": [[{"$": "frame"}]],
    "getTitle": [[{"$": "frame"}]],
    "newChild": [[{"$": "frame"}, {"$": "tbl"}]],
}
LAST_GETTERS = {"_lua_reset_env": [[]]}
# functions of the environment whose effect is known and hands out no new reference
KNOWN_INERT = {
    "_lua_clear_timeout_hook", "_lua_io_flush", "_lua_set_python_loader", "_lua_set_timeout",
    "_new_loadJsonData", "_orig_format", "_orig_gsub", "_orig_insert", "_orig_next", "_orig_tostring",
    "_python_append_env", "_save_mod",
}
OS_ALLOWED = {"clock", "date", "difftime", "time"}
MAX_GEN = 2  # objects freshly created by calls are followed this many call levels deep
IMMUTABLE = (type(None), bool, int, float, str, bytes)


def is_value(o) -> bool:
    return isinstance(o, IMMUTABLE)


class Extractor:
    def __init__(self, ctx, env, frame, scratch: Path):
        import lupa.lua51 as lupa

        self.lupa = lupa
        self.ctx = ctx
        self.lua = ctx.lua
        self.env = env
        self.frame = frame
        self.scratch = scratch
        L = self.lua
        self.idof = L.eval(
            "(function() local ids, n = {}, 0; return function(o) local i = ids[o]; "
            "if not i then n = n + 1; i = n; ids[o] = i end; return i end end)()"
        )
        self.rawmt = L.eval("debug.getmetatable")
        self.pindex = L.eval("function(o, k) return pcall(function() return o[k] end) end")
        self.pcallv = L.eval("function(f, ...) return pcall(f, ...) end")
        self.upvalues = L.eval(
            "function(f) local r, i = {}, 1; while true do local n, v = debug.getupvalue(f, i); "
            "if n == nil then break end; r[i] = v; i = i + 1 end; return r end"
        )
        self.newtable = L.eval("function() return {} end")
        self.nodes: dict[str, dict] = {}
        self.objs: dict[str, object] = {}
        self.edges: list[dict] = []
        self.edge_keys: set = set()
        self.queue: list[str] = []
        self.pyids: dict[int, str] = {}
        self.notes: list[str] = []
        self.host_cls: dict[str, str] = {}
        self.tool: dict[str, str] = {}
        self.cur_gen = 0
        self.thorough = False
        self._register_host()

    # ---------------------------------------------------------------- identity
    def ltype(self, o):
        return self.lupa.lua_type(o)

    def nid(self, o) -> str:
        lt = self.ltype(o)
        if lt is not None:
            return f"L{int(self.idof(o))}"
        k = id(o)
        if k not in self.pyids:
            # bound methods are new objects on every access: identify by (self, func)
            if isinstance(o, (types.MethodType, types.BuiltinMethodType)) and getattr(o, "__self__", None) is not None \
                    and not isinstance(o.__self__, types.ModuleType):
                key = ("m", id(o.__self__), getattr(o, "__name__", "?"))
                k2 = hash(key)
                if k2 in self.pyids:
                    return self.pyids[k2]
                self.pyids[k2] = f"P{len(self.pyids) + 1}"
                self.pyids[k] = self.pyids[k2]
            else:
                self.pyids[k] = f"P{len(self.pyids) + 1}"
        return self.pyids[k]

    # ------------------------------------------------------- forbidden classes
    def _register_host(self):
        G = self.lua.globals()
        self.host_G = G

        def reg(o, cls):
            if o is not None and self.ltype(o) is not None:
                self.host_cls.setdefault(self.nid(o), cls)

        reg(G, "host:_G")
        for lib, cls in (("io", "host:io"), ("package", "host:package"), ("debug", "host:debug"), ("python", "bridge:python")):
            t = G[lib]
            if t is None:
                continue
            reg(t, cls)
            for k, v in t.items():
                if lib == "debug" and k == "traceback":
                    continue
                if self.ltype(v) in ("function", "table", "userdata"):
                    reg(v, cls)
                elif v is not None and not is_value(v) and lib == "python":
                    self.host_cls.setdefault(self.nid(v), cls)
            if lib == "package":
                for sub in ("loaders", "searchers"):
                    if t[sub] is not None:
                        for _, v in t[sub].items():
                            reg(v, cls)
        osl = G["os"]
        if osl is not None:
            reg(osl, "host:os")
            for k, v in osl.items():
                if k not in OS_ALLOWED:
                    reg(v, "host:os")
        for name in ("load", "loadstring", "dofile", "loadfile"):
            reg(G[name], "host:load")
        for name in ("setfenv", "getfenv", "module", "require"):
            reg(G[name], "host:fenv")
        # files of the host: a canary planted outside the library directory
        self.canary_path = self.scratch / "canary_dir" / "secret.lua"
        self.canary_path.parent.mkdir(exist_ok=True)
        self.canary_path.write_text(f'return {{ canary = "{CANARY}" }}\n')

    def py_class(self, o) -> str:
        """'' = allowed (intended callable helper / immutable argument value), else class."""
        if isinstance(o, tuple):
            return ""  # immutable container: its items are classified on their own
        if isinstance(o, functools.partial):
            return ""
        if isinstance(o, (types.FunctionType, types.BuiltinFunctionType)) and (
            getattr(o, "__self__", None) is None or isinstance(getattr(o, "__self__", None), types.ModuleType)
        ):
            return ""
        if isinstance(o, (types.MethodType, types.BuiltinMethodType, types.MethodWrapperType)):
            return "py:method-of-" + type(getattr(o, "__self__", None)).__name__
        return "py:" + type(o).__name__

    def classify(self, o, nid: str) -> str:
        if nid in self.host_cls:
            return self.host_cls[nid]
        lt = self.ltype(o)
        if lt is None:
            return self.py_class(o)
        if lt == "table":
            try:
                if o["canary"] == CANARY:
                    return "host:file-read"
            except Exception:
                pass
        return ""

    # ------------------------------------------------------------------ graph
    def desc(self, o) -> str:
        lt = self.ltype(o)
        if lt == "table":
            keys = []
            try:
                for k in o.keys():
                    if isinstance(k, str):
                        keys.append(k)
                    if len(keys) > 200:
                        break
            except Exception:
                pass
            return "table{" + ",".join(sorted(keys)[:8]) + "}"
        if lt is not None:
            return lt
        r = type(o).__module__ + "." + type(o).__qualname__
        if isinstance(o, functools.partial):
            r += ":" + getattr(o.func, "__name__", "?")
        elif callable(o):
            r += ":" + getattr(o, "__name__", "?")
        return r

    def add_node(self, o) -> str | None:
        if o is None or is_value(o):
            return None
        n = self.nid(o)
        if n not in self.nodes:
            cls = self.classify(o, n)
            lt = self.ltype(o)
            sig = None
            if lt == "table":
                try:
                    sig = sorted(k for k in o.keys() if isinstance(k, str))[:40]
                except Exception:
                    sig = None
            self.nodes[n] = {"kind": lt or "py", "desc": self.desc(o), "cls": cls, "sig": sig, "gen": self.cur_gen}
            self.objs[n] = o
            self.queue.append(n)
        return n

    def add_edge(self, src: str, label: str, target, req=()) -> str | None:
        # generation = number of call results on the discovery chain (bounds fresh-object chains)
        self.cur_gen = self.nodes[src].get("gen", 0) + (1 if label.startswith("c:") else 0)
        dst = self.add_node(target)
        self.cur_gen = 0
        if dst is None:
            return None
        key = (src, label, dst)
        if key not in self.edge_keys:
            self.edge_keys.add(key)
            self.edges.append({"src": src, "dst": dst, "label": label, "req": [r for r in req if r]})
        return dst

    # -------------------------------------------------------------- expansion
    def names(self) -> list[str]:
        G = self.host_G
        names = list(STD_NAMES)
        for t in (G.package.loaded, G.package.preload):
            if t is not None:
                names += [k for k in t.keys() if isinstance(k, str)]
        lua_dir = Path(common.REPO) / "src" / "wikitextprocessor" / "lua"
        names += sorted(p.stem for p in lua_dir.glob("*.lua"))
        names += self.page_modules()
        c = str(self.canary_path)[:-4]
        rel = "../" * 12 + c.lstrip("/")
        names += [c, "/" + c, "//" + c, rel, rel.replace("/", ":"), c.replace("/", ":"), "....//" * 12 + c.lstrip("/")]
        if self.thorough:
            # every global of the host, every global of the module environment, and more spellings of the canary path
            names += [k for k in G.keys() if isinstance(k, str)]
            names += [k for k in self.env.keys() if isinstance(k, str)]
            names += ["Module:" + n for n in STD_NAMES] + [n.upper() for n in STD_NAMES] + [" " + n + " " for n in STD_NAMES[:6]]
            names += [c + ".lua", "./" + c, ".:" + c.replace("/", ":"), "\n" + c, " " + c, c.replace("/", "//"),
                      "/" * 5 + c.lstrip("/"), "..././" * 12 + c.lstrip("/"), "\\" + c, "file://" + c]
        out, seen = [], set()
        for n in names:
            if n not in seen:
                seen.add(n)
                out.append(n)
        return out

    def page_modules(self) -> list[str]:
        rows = self.ctx.db_conn.execute("SELECT title FROM pages WHERE namespace_id = 828").fetchall()
        return sorted(r[0] for r in rows)

    def conc_args(self, args):
        out = []
        for a in args:
            if isinstance(a, dict):
                k = a["$"]
                out.append(self.newtable() if k == "tbl" else self.objs[a["n"]] if k == "self" else {"frame": self.frame, "env": self.env}[k])
            else:
                out.append(a)
        return out

    def call_edges(self, fn_node: str, fn, argvecs, req=()):
        if self.nodes[fn_node].get("gen", 0) >= MAX_GEN:
            return
        for args in argvecs:
            try:
                res = self.pcallv(fn, *self.conc_args(args))
            except Exception as e:  # Python-side failure of the bridge
                continue
            if not isinstance(res, tuple):
                res = (res,)
            if not res or res[0] is not True:
                continue
            for j, r in enumerate(res[1:]):
                lab = "c:" + json.dumps(args, sort_keys=True) + ("" if j == 0 else f"#{j + 1}")
                dst = self.add_edge(fn_node, lab, r, req)
                # a loader (chunk) returned by _new_loader: calling it yields the module value
                if dst and self.nodes[dst]["kind"] == "function" and self.nodes[fn_node].get("role") == "_new_loader":
                    self.nodes[dst]["role"] = "chunk"

    def expand_table(self, n: str, t):
        getmt = self.tool.get("getmetatable")
        oi = 0
        for k, v in list(t.items()):
            if isinstance(k, bool):
                lab = "b:" + ("true" if k else "false")
            elif isinstance(k, str):
                lab = "f:" + k
            elif isinstance(k, (int, float)):
                lab = "i:" + repr(k)
            else:
                oi += 1
                self.add_edge(n, f"k:{oi}", k, [self.tool.get("next")])
                lab = f"v:{oi}"
                self.add_edge(n, lab, v, [self.tool.get("next")])
                continue
            self.add_edge(n, lab, v)
        # what the sandbox's getmetatable hands out
        gm = self.env_fn("getmetatable")
        if gm is not None:
            try:
                m = gm(t)
            except Exception:
                m = None
            self.add_edge(n, "mt", m, [getmt])
        raw = self.rawmt(t)
        if raw is not None:
            ix = raw["__index"]
            if self.ltype(ix) == "table":
                for k, v in list(ix.items()):
                    if isinstance(k, str) and t[k] is not None:
                        self.add_edge(n, "m:" + k, t[k])
            elif self.ltype(ix) == "function":
                cands = set(STD_NAMES)
                try:
                    for _, uv in self.upvalues(ix).items():
                        if self.ltype(uv) == "table":
                            cands |= {k for k in uv.keys() if isinstance(k, str)}
                except Exception:
                    pass
                for k in sorted(cands):
                    try:
                        r = self.pindex(t, k)
                    except Exception:
                        continue
                    if isinstance(r, tuple) and r[0] is True and len(r) > 1:
                        self.add_edge(n, "m:" + k, r[1])

    def env_fn(self, name):
        try:
            return self.env[name]
        except Exception:
            return None

    def expand_py(self, n: str, o):
        gm = self.env_fn("getmetatable")
        if gm is not None:
            try:
                self.add_edge(n, "mt", gm(o), [self.tool.get("getmetatable")])
            except Exception:
                pass
        if hasattr(o, "__getitem__") and not isinstance(o, functools.partial):
            try:
                items = list(enumerate(o)) if isinstance(o, (tuple, list)) else [(k, o[k]) for k in list(o)[:200]]
            except Exception:
                items = []
            for k, _ in items:
                try:
                    r = self.pindex(o, k)
                except Exception:
                    continue
                if isinstance(r, tuple) and r[0] is True and len(r) > 1:
                    self.add_edge(n, "x:" + json.dumps(k), r[1])
            return
        names = set(dir(o)) | {"func", "args", "keywords", "__self__", "__func__", "__globals__", "__closure__",
                               "__dict__", "__class__", "__wrapped__", "__code__", "__defaults__", "__builtins__"}
        for name in sorted(names):
            try:
                r = self.pindex(o, name)
            except Exception:
                continue
            if isinstance(r, tuple) and r[0] is True and len(r) > 1:
                self.add_edge(n, "a:" + name, r[1])

    def run(self) -> dict:
        env, frame = self.env, self.frame
        e = self.add_node(env)
        f = self.add_node(frame)
        self.nodes[e]["role"] = "env"
        self.nodes[f]["role"] = "frame"
        # tools: functions a probe uses by global name
        for tname in ("getmetatable", "next", "pairs", "rawget"):
            fn = self.env_fn(tname)
            if fn is not None and self.ltype(fn) == "function":
                self.tool[tname] = self.add_node(fn)
        if "next" not in self.tool and "pairs" in self.tool:
            self.tool["next"] = self.tool["pairs"]
        # the pseudo node for string values: any program can write a string literal
        S = "S"
        self.nodes[S] = {"kind": "string", "desc": "any string value", "cls": "", "sig": None, "gen": 0}
        gm = self.env_fn("getmetatable")
        smeta = self.rawmt("")
        if gm is not None:
            try:
                self.add_edge(S, "mt", gm(""), [self.tool.get("getmetatable")])
            except Exception:
                pass
        if smeta is not None and self.ltype(smeta["__index"]) == "table":
            for k, v in smeta["__index"].items():
                if isinstance(k, str):
                    self.add_edge(S, "m:" + k, v)
        names = self.names()
        pages = [n for n in self.page_modules() if "probe" not in n]
        role_args = {"$names": [[n] for n in names], "$pages": [[n] for n in pages]}
        env_getters = {}
        unknown = []
        for k, v in env.items():
            if not isinstance(k, str) or self.ltype(v) != "function" and not callable(v):
                continue
            if k in GETTERS or k in LAST_GETTERS:
                env_getters[k] = v
            elif (k.startswith("_") and k not in KNOWN_INERT and k not in ("_G", "_VERSION")):
                unknown.append(k)
        if unknown:
            self.notes.append("environment helpers without a call summary (not called by the extractor): " + ", ".join(sorted(unknown)))
        done_calls = set()
        last_done = False
        while True:
            while self.queue:
                n = self.queue.pop(0)
                node = self.nodes[n]
                if node["cls"]:
                    continue  # forbidden: never expanded
                o = self.objs[n]
                if node["kind"] == "table":
                    self.expand_table(n, o)
                    # frame-like tables: reference-returning methods, called with self
                    if "getParent" in (node["sig"] or []):
                        for m, argv in FRAME_GETTERS.items():
                            try:
                                fn = o[m]
                            except Exception:
                                fn = None
                            if fn is None or (n, m) in done_calls or (m == "newChild" and node.get("gen", 0) > 0):
                                continue
                            done_calls.add((n, m))
                            fnn = self.add_edge(n, "f:" + m, fn)
                            if fnn:
                                me = {"$": "self", "n": n}
                                self.call_edges(fnn, fn, [[me if isinstance(a, dict) and a["$"] == "frame" else a for a in av] for av in argv])
                    gcf = None
                    if "getCurrentFrame" in (node["sig"] or []):
                        gcf = o["getCurrentFrame"]
                        fnn = self.add_edge(n, "f:getCurrentFrame", gcf)
                        if fnn and (fnn, "gcf") not in done_calls:
                            done_calls.add((fnn, "gcf"))
                            self.call_edges(fnn, gcf, [[]])
                elif node["kind"] == "py":
                    self.expand_py(n, o)
                elif node["kind"] == "function" and node.get("role") == "chunk" and (n, "chunk") not in done_calls:
                    done_calls.add((n, "chunk"))
                    self.call_edges(n, o, [[]])
                # environment getters found as fields of the env (by identity of the function)
            for name, fn in list(env_getters.items()):
                if name in LAST_GETTERS:
                    continue
                fnn = self.add_node(fn)
                if (fnn, "getter") in done_calls:
                    continue
                done_calls.add((fnn, "getter"))
                self.nodes[fnn]["role"] = name
                spec = GETTERS[name]
                self.call_edges(fnn, fn, role_args[spec] if isinstance(spec, str) else spec)
            if self.queue:
                continue
            if not last_done:
                last_done = True
                for name, argv in LAST_GETTERS.items():
                    if name in env_getters:
                        fnn = self.add_node(env_getters[name])
                        self.nodes[fnn]["role"] = name
                        self.call_edges(fnn, env_getters[name], argv)
                if self.queue:
                    continue
            break
        return {
            "init": [e, f, S],
            "nodes": self.nodes,
            "edges": self.edges,
            "tools": self.tool,
            "notes": self.notes,
            "names": names,
        }


PROBE0 = "local p = {}\nfunction p.main(frame) return 'ok' end\nreturn p\n"


def boot(scratch: Path, modules: dict[str, str] | None = None):
    """Real sandbox + the env/frame of a first (benign) invocation, stacks re-populated so
    that helpers behave as they do while a module runs."""
    mods = {"c06probe0": PROBE0, "c06data": "return { a = 1, t = { 'x' } }"}
    mods.update(modules or {})
    ctx = luafix.make_ctx(scratch, mods, templates={"c06tpl": "{{#invoke:c06probe0|main|inner}}",
                                                    "c06tplp": "{{#invoke:{{{m}}}|main|inner}}"}, record=True)
    out = ctx.expand("{{c06tpl|pa|pk=pv}}")
    if out != "ok":
        raise RuntimeError(f"sandbox boot failed: {out!r} {ctx.errors[:1]}")
    env = ctx.lua_env_stack.seen[-1]
    frame = ctx.lua_frame_stack.seen[-1]
    ctx.lua_env_stack.append(env)
    ctx.lua_frame_stack.append(frame)
    return ctx, env, frame


def extract(scratch: Path, thorough: bool = False):
    ctx, env, frame = boot(scratch)
    ex = Extractor(ctx, env, frame, scratch)
    ex.thorough = thorough
    g = ex.run()
    ctx.lua_env_stack.clear()
    ctx.lua_frame_stack.clear()
    return ctx, ex, g
