"""C08 — the Lua frame API is equivalent to the corresponding wikitext.

M  Gen_LuaFrame.tla states what a module must see (frame.args, parent title/args) and
   get (preprocess / expandTemplate / callParserFunction) in terms of the transclusion
   reference Eval; TLC evaluates it for every case (argument values incl. nested calls x
   wrapper depth 0..2 x fragments x Lua strings) and checks depth independence.
G  per batch the harness generates a real Lua echo module (fragments embedded as Lua long
   strings), runs {{#invoke}} through the real expand() directly / via one / via two
   templates, parses the serialised observation and compares every field with TLC's
   expectation; additionally the metamorphic equalities preprocess(t) == expand(t) etc.
   are checked on the real code.
   Route family: the template holding the #invoke is a page of the page store (PageStore.tla
   instantiated inside Gen_LuaFrame); TLC enumerates every spelling / redirect by which it can be
   reached (first-letter case, underscores, explicit / aliased / lower-case namespace prefix,
   leading colon for a main-namespace page, redirect pages, redirect targets written in another
   spelling) x depth 1..2 x (called from wikitext | through frame:expandTemplate{title=..}) and
   gives the title the parent frame must carry: the stored title of the page whose body is
   expanded.  The harness installs exactly the add_page calls TLC lists (STORE line).
"""
from __future__ import annotations

import json
from pathlib import Path

import common
import luastub
import transclusion as tr
from common import Outcome, Scratch, pmap, tlc
from expander import lua_long

PID = "C08"
SEP, RS, US = "\x1d", "\x1e", "\x1f"

PRELUDE = r"""
local p = {}
local function dump(t)
  local out = {}
  for k, v in pairs(t) do out[#out + 1] = type(k) .. "\31" .. tostring(k) .. "\31" .. tostring(v) .. "\31" .. #tostring(v) end
  table.sort(out)
  return table.concat(out, "\30")
end
-- hands everything it was given (except the title) on to frame:expandTemplate
function p.via(frame)
  local a = {}
  for k, v in pairs(frame.args) do if k ~= "t" then a[k] = v end end
  return frame:expandTemplate{title = frame.args.t, args = a}
end
"""

FN = r"""
function p.%(fn)s(frame)
  local parent = frame:getParent()
  local both = tostring(frame.args["1"]) .. "\31" .. tostring(frame.args[1]) .. "\31" .. tostring(frame.args["2"]) .. "\31" .. tostring(frame.args[2]) .. "\31" .. tostring(frame.args["1"])
  local pboth = ""
  if parent then pboth = tostring(parent.args[1]) .. "\31" .. tostring(parent.args["1"]) .. "\31" .. tostring(parent.args[1]) end
  return "\29B" .. both .. "\29Q" .. pboth .. "\29A" .. dump(frame.args)
    .. "\29T" .. (parent and parent:getTitle() or "\31nil")
    .. "\29P" .. (parent and dump(parent.args) or "")
    .. "\29R" .. frame:preprocess(%(frag)s)
    .. "\29L" .. #frame:preprocess(%(frag)s)
    .. "\29E" .. frame:expandTemplate{title = "T1", args = {%(s1)s, x = %(s2)s}}
    .. "\29F" .. frame:callParserFunction("#if", %(s1)s, %(s2)s, "n")
    .. "\29G" .. frame:callParserFunction("#ifeq", %(s1)s, "", "same", "diff")
    .. "\29N" .. tostring(frame:getTitle())
    .. "\29"
end
"""

W1 = "<{{#invoke:{{{m}}}|{{{f}}}|{{{1}}}|x={{{x}}}|2={{{2}}}}}>"
W2 = "{{%s|{{{1}}}|x={{{x}}}|2={{{2}}}|m={{{m}}}|f={{{f}}}}}"

TITLE_ATOM = {"SP": " ", "US": "_"}


def conc(atoms) -> str:
    """title atoms of PageStore.tla -> string"""
    return "".join(TITLE_ATOM.get(a, a) for a in atoms)


def written(route) -> str:
    """the name as the call site writes it"""
    return (":" if route["colon"] else "") + conc(route["name"])


def install_store(ctx, adds, module_src) -> None:
    """perform the add_page calls of the specification's store, in order"""
    for a in adds:
        red = None if list(a["redirect"]) == ["-"] else conc(a["redirect"])
        if a["body"] == "M":
            ctx.add_page(conc(a["title"]), a["ns"], body=module_src, model="Scribunto")
        elif red is not None:
            ctx.add_page(conc(a["title"]), a["ns"], redirect_to=red)
        else:
            assert a["body"] == "W1", a
            ctx.add_page(conc(a["title"]), a["ns"], body=W1)


def key_of(atoms):
    s = tr.text(atoms)
    return int(s) if s.isdigit() and int(s) > 0 else s


def amap(bindings):
    return {key_of(b["key"]): tr.text(b["val"]) for b in bindings}


def parse_dump(s, lens=None):
    m = {}
    if s:
        for rec in s.split(RS):
            t, k, v, n = rec.split(US)
            m[int(float(k)) if t == "number" else k] = v
            if lens is not None:
                lens.append((k, v, int(n)))
    return m


_G = {}


def chunk_fn(chunk):
    """chunk: list of (idx, case). One module per chunk."""
    common.use_repo()
    from wikitextprocessor import Wtp

    out = []
    lib = _G["lib"]
    with Scratch("c08-") as d:
        sub = d / "s"
        sub.mkdir()
        ctx = Wtp(db_path=str(sub / "pages.db"), quiet=True, quiet_output=True)
        try:
            luastub.install(ctx)
            src = PRELUDE
            for idx, c in chunk:
                src += FN % {"fn": f"f{idx}", "frag": lua_long(tr.render(c["frag"])), "s1": json.dumps(tr.text(c["s1"])), "s2": json.dumps(tr.text(c["s2"]))}
            src += "return p\n"
            install_store(ctx, _G["adds"], src)
            tr.install(ctx, lib)
            # one forwarding template per route: its body calls the wrapper under that spelling
            w2 = {}
            for idx, c in chunk:
                sp = written(c["route"])
                if c["depth"] == 2 and sp not in w2:
                    w2[sp] = f"W2r{len(w2)}"
                    ctx.add_page("Template:" + w2[sp], 10, body=W2 % sp)
            ctx.db_conn.commit()
            for idx, c in chunk:
                a1, a2, a3 = tr.render(c["a1"]), tr.render(c["a2"]), tr.render(c["a3"])
                sp = written(c["route"])
                outer = sp if c["depth"] == 1 else w2.get(sp)
                if c["depth"] == 0:
                    page = f"{{{{#invoke:M|f{idx}|{a1}|x={a2}|2={a3}}}}}"
                elif c["via"]:
                    page = f"{{{{#invoke:M|via|{a1}|x={a2}|2={a3}|m=M|f=f{idx}|t={outer}}}}}"
                else:
                    page = f"{{{{{outer}|{a1}|x={a2}|2={a3}|m=M|f=f{idx}}}}}"
                ob = {"idx": idx, "page": page}
                try:
                    ctx.start_page("Pg")
                    res = ctx.expand(page)
                    ob["raw"] = res
                    # metamorphic: the same fragment / equivalent calls expanded on the page
                    ctx.start_page("Pg")
                    ob["m_pre"] = ctx.expand(tr.render(c["frag"]))
                    ob["m_et"] = ctx.expand("{{T1|1=" + tr.text(c["s1"]) + "|x=" + tr.text(c["s2"]) + "}}")
                    ob["m_pf"] = ctx.expand("{{#if:" + tr.text(c["s1"]) + "|" + tr.text(c["s2"]) + "|n}}")
                    ob["m_pf2"] = ctx.expand("{{#ifeq:" + tr.text(c["s1"]) + "||same|diff}}")
                except Exception as e:  # noqa: BLE001
                    ob["exc"] = repr(e)
                out.append(ob)
        finally:
            ctx.db_conn.close()
    return out


def judge(o: Outcome, c, e, ob):
    o.evaluations += 1
    case = {"page": ob["page"], "fragment": tr.render(c["frag"]), "lua_strings": [tr.text(c["s1"]), tr.text(c["s2"])], "depth": c["depth"]}
    if c["depth"] > 0:
        case["wrapper_called_as"] = "{{" + written(c["route"]) + "|...}}"
        case["through_expandTemplate"] = c["via"]
    if "exc" in ob:
        o.violation({**case, "exception": ob["exc"]}, f"expand() raised {ob['exc']}", cls="exception")
        return
    raw = ob["raw"]
    pre, post = ("<", ">") if c["depth"] > 0 else ("", "")
    parts = raw.split(SEP)
    if len(parts) != 13 or parts[0] != pre or parts[12] != post:
        o.violation({**case, "got": raw[:400]}, "the string returned by the module does not replace the #invoke call verbatim", cls="envelope")
        return
    got = {p[0]: p[1:] for p in parts[1:12]}
    ptitle = conc(e["ptitle"])
    exp_args = amap(e["args"])
    a1v, a2v = exp_args.get(1), exp_args.get(2)
    pexp = amap(e["pargs"]) if e["hasParent"] else {}
    checks = [
        ("frame.args read as ['1'], [1], ['2'], [2], ['1']", got["B"].split(US), [str(a1v), str(a1v), str(a2v), str(a2v), str(a1v)], None),
        ("parent.args read as [1], ['1'], [1]", got["Q"].split(US) if e["hasParent"] else [], [str(pexp.get(1))] * 3 if e["hasParent"] else [], None),
        ("frame.args", parse_dump(got["A"]), exp_args, None),
        ("parent title", got["T"], ptitle if e["hasParent"] else US + "nil", None),
        ("parent args", parse_dump(got["P"]), amap(e["pargs"]) if e["hasParent"] else {}, None),
        ("frame:preprocess", got["R"], tr.text(e["pre"]), ob["m_pre"]),
        ("frame:expandTemplate", got["E"], tr.text(e["et"]), ob["m_et"]),
        ("frame:callParserFunction", got["F"], tr.text(e["pf"]), ob["m_pf"]),
        ("frame:callParserFunction with an empty argument", got["G"], tr.text(e["pf2"]), ob["m_pf2"]),
    ]
    # what the module holds is what it returns: the byte lengths measured inside Lua equal those of the
    # returned text (an internal placeholder standing for markup would be shorter / longer)
    lens = []
    parse_dump(got["A"], lens)
    parse_dump(got["P"], lens)
    lens.append(("preprocess", got["R"], int(got["L"])))
    for k, v, n in lens:
        if len(v.encode("utf-8")) != n:
            o.violation({**case, "key": k, "returned": v, "length_in_lua": n},
                        f"the value of {k!r} held by the module has {n} bytes, the text it returns ({v!r}) has {len(v.encode('utf-8'))}: Lua saw something else than the expanded argument", cls="lua-length")
            break
    # frame:getTitle() of the module's own frame: beyond the statement -> drift only
    if got["N"] != conc(e["ftitle"]):
        o.note_drift({**case, "what": "frame:getTitle()", "got": got["N"], "specification": conc(e["ftitle"])})
    for what, g, x, meta in checks:
        if what == "parent title" and e["hasParent"] and g != x:
            # the statement: the parent frame carries the enclosing template's title.  The enclosing template is
            # the page whose body holds the #invoke; every spelling of the route denotes that one page
            sp = written(c["route"])
            stored_names = {ptitle} if c["route"]["colon"] else {ptitle, ptitle.removeprefix("Template:")}
            how = f"the call names it {{{{{sp}}}}}"
            if e["redirect"]:
                how += (f", a redirect page ({conc(e['firstTitle'])!r} -> {ptitle!r}); the body that is expanded is the target's,"
                        " so the target is the enclosing template (MediaWiki reports the target's title as well)")
            elif conc(c["route"]["name"]) not in stored_names:
                how += ", another spelling of the same page (first-letter case / underscore / namespace prefix)"
            else:
                how += ", its stored name"
            where = f"wrapper depth {c['depth']}" + (", reached through frame:expandTemplate" if c["via"] else "")
            if g == US + "nil":
                why = f"frame:getParent() is nil inside the template {ptitle!r} ({how}; {where})"
            else:
                why = (f"frame:getParent():getTitle() is {g!r}, but the enclosing template - the page whose body holds the #invoke - "
                       f"has the title {ptitle!r}; {how}; {where}")
            o.violation({**case, "what": what, "got": g, "specification": x, "stored_title_of_enclosing_template": ptitle,
                         "route_is_redirect": e["redirect"]}, why,
                        cls="parent title/" + ("redirect" if e["redirect"] else "spelling" if conc(c["route"]["name"]) not in stored_names else "canonical")
                        + ("/main namespace" if c["route"]["colon"] else "/template namespace"))
            continue
        if what == "parent args" and e["hasParent"]:
            x = dict(x)
            x["m"] = "M"
            x["f"] = f"f{ob['idx']}"
        bad_spec = g != x
        bad_meta = meta is not None and g != meta
        if bad_spec or bad_meta:
            devs = []
            # the specification's value contains brace text produced by an expansion ({{((}}..{{))}}):
            # the Lua side preprocesses argument strings again after they were substituted/expanded
            # deliberate: a final newline of positional values is removed before Lua sees them
            def _nl(v):
                if isinstance(v, dict):
                    return {k: (w[:-1] if isinstance(k, int) and isinstance(w, str) and w.endswith("\n") else w) for k, w in v.items()}
                if isinstance(v, list):
                    return [w[:-1] if isinstance(w, str) and w.endswith("\n") else w for w in v]
                return v
            if what in ("frame.args", "parent args") or what.startswith("frame.args read") or what.startswith("parent.args read"):
                if g == _nl(x) and g != x:
                    o.classify({**case, "what": what, "got": str(g)[:200], "specification": str(x)[:200]},
                               f"{what} seen by Lua is {g!r}; the specification gives {x!r}", ["LuaPositionalFinalNewlineDropped"], cls=what + "/newline")
                    continue
            spec_text = json.dumps(x, default=str)
            if ("{{" in spec_text or "}}" in spec_text) and what != "frame:preprocess" and c["depth"] > 0:
                devs = ["LuaArgumentsPreprocessedAgain"]
            if what in ("frame.args", "parent args") and isinstance(g, dict) and isinstance(x, dict):
                pass
            o.classify({**case, "what": what, "got": g if not isinstance(g, dict) else {str(k): v for k, v in g.items()},
                        "specification": x if not isinstance(x, dict) else {str(k): v for k, v in x.items()},
                        "same_wikitext_expanded_on_page": meta},
                       f"{what} seen by Lua is {g!r}; the specification gives {x!r}" + (f"; the equivalent wikitext expands to {meta!r}" if meta is not None else ""),
                       devs, cls=what + ("/spec" if bad_spec else "/metamorphic"))
    o.shape((common.json_key(c["a1"]), common.json_key(c["a2"]), c["depth"], common.json_key(c["frag"]), written(c["route"]), c["via"]))


def run(tier: str) -> int:
    o = Outcome(PID, tier)
    o.rule = ("each (wrapper depth, positional value, named value, fragment, Lua strings) of Gen_LuaFrame is one case of family 'args' "
              "(wrapper called by its stored name); each (route = spelling / redirect by which the page holding the #invoke is reached, "
              "depth 1..2, from wikitext | through frame:expandTemplate, value) is one case of family 'route'; "
              "distinct by (values, depth, fragment, route, via)")
    o.assumptions = ["Lua runs with pure-Lua stand-ins for ustring/libraryUtil", "callParserFunction/expandTemplate receive plain strings",
                     "the equivalent call of expandTemplate{title,args} is the all-named call {{title|k=v|...}}",
                     "the enclosing template of an #invoke is the page whose body is expanded (for a redirect: its target), titles as stored by add_page"]
    uni = "T" if tier == "thorough" else "Q"
    r = tlc("Gen_LuaFrame", f"Gen_LuaFrame_{uni}.cfg", workers=1, timeout=3000)
    o.add_tlc(f"Gen_LuaFrame[{uni}]", r)
    cases = r.cases
    store = r.tagged("STORE")[0]
    _G["adds"] = store["adds"]
    o.extra["routes"] = {"reaching_a_wrapper": store["routes"], "going_nowhere_not_run": store["unreachable"],
                         "route_cases": sum(1 for c in cases if c["case"]["fam"] == "route"),
                         "laws_checked_by_TLC": ["TitleLaws (code path == reference on every route, supplier is a stored non-redirect page)",
                                                 "DepthIndependent", "ViaIndependent"]}
    lib = {"T1": [{"w": "plain", "c": [tr.T(["("]), {"k": "p", "name": ["1"], "hasDef": False, "def": []}, tr.T([","]),
                                       {"k": "p", "name": ["x"], "hasDef": True, "def": [tr.T(["d"])]}, tr.T([")"])]}],
           "Sp": [{"w": "plain", "c": [tr.T(["SP", "v", "SP"])]}],
           "St": [{"w": "plain", "c": [tr.T(["*"]), {"k": "p", "name": ["1"], "hasDef": False, "def": []}]}],
           "((": [{"w": "plain", "c": [tr.T(["{{"])]}], "))": [{"w": "plain", "c": [tr.T(["}}"])]}]}
    _G["lib"] = lib
    items = [(i, c["case"]) for i, c in enumerate(cases)]
    res = pmap(chunk_fn, items, chunk=max(20, len(items) // 64))
    for ob in res:
        judge(o, cases[ob["idx"]]["case"], cases[ob["idx"]]["exp"], ob)
        o.traces += 1
    o.exhaustive = True
    ob0 = res[len(res) // 2]
    o.sample({"page": ob0["page"], "returned": ob0.get("raw", "")[:300]})
    return o.finish()


def replay(path: str) -> int:
    v = json.loads(Path(path).read_text())
    print(json.dumps(v, indent=1)[:2500])
    return 1


def selftest() -> int:
    r = tlc("Gen_LuaFrame", "Gen_LuaFrame_Q.cfg", workers=1)
    _G["adds"] = r.tagged("STORE")[0]["adds"]
    routed = [c for c in r.cases if c["case"]["fam"] == "route"]
    cases = r.cases[:40] + routed[:: max(1, len(routed) // 40)]
    cases[3]["exp"]["pre"] = ["CORRUPT"]
    # a stored title spelt otherwise must be rejected too
    k = next(i for i, c in enumerate(cases) if c["case"]["fam"] == "route" and c["exp"]["redirect"])
    cases[k]["exp"]["ptitle"] = cases[k]["exp"]["firstTitle"]
    o = Outcome(PID, "quick")
    _G["lib"] = {"T1": [{"w": "plain", "c": [tr.T(["("]), {"k": "p", "name": ["1"], "hasDef": False, "def": []}, tr.T([","]),
                                              {"k": "p", "name": ["x"], "hasDef": True, "def": [tr.T(["d"])]}, tr.T([")"])]}],
                 "Sp": [{"w": "plain", "c": [tr.T(["SP", "v", "SP"])]}], "St": [{"w": "plain", "c": [tr.T(["*"]), {"k": "p", "name": ["1"], "hasDef": False, "def": []}]}],
                 "((": [{"w": "plain", "c": [tr.T(["{{"])]}], "))": [{"w": "plain", "c": [tr.T(["}}"])]}]}
    for ob in chunk_fn([(i, c["case"]) for i, c in enumerate(cases)]):
        judge(o, cases[ob["idx"]]["case"], cases[ob["idx"]]["exp"], ob)
    print("violations after corrupting two expectations (preprocess text, parent title of a redirect route):", len(o.violations))
    for v in o.violations:
        print("  ", str(v.get("why", v))[:200])
    return 0 if len(o.violations) == 2 else 1
