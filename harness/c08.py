"""C08 — the Lua frame API is equivalent to the corresponding wikitext.

M  Gen_LuaFrame.tla states what a module must see (frame.args, parent title/args) and
   get (preprocess / expandTemplate / callParserFunction) in terms of the transclusion
   reference Eval; TLC evaluates it for every case (argument values incl. nested calls x
   wrapper depth 0..2 x fragments x Lua strings) and checks depth independence.
G  per batch the harness generates a real Lua echo module (fragments embedded as Lua long
   strings), runs {{#invoke}} through the real expand() directly / via one / via two
   templates, parses the serialised observation and compares every field with TLC's
   expectation; additionally the metamorphic equalities preprocess(t) == expand(t) etc.
   are checked on the real code.
   Route family: the template holding the #invoke is a page of the page store (PageStore.tla
   instantiated inside Gen_LuaFrame); TLC enumerates every spelling / redirect by which it can be
   reached (first-letter case, underscores, explicit / aliased / lower-case namespace prefix,
   leading colon for a main-namespace page, redirect pages, redirect targets written in another
   spelling) x depth 1..2 x (called from wikitext | through frame:expandTemplate{title=..}) and
   gives the title the parent frame must carry: the stored title of the page whose body is
   expanded.  The harness installs exactly the add_page calls TLC lists (STORE line).
   Hole family: argument vectors whose numeric keys leave holes (explicit numeric names beside positional
   arguments in every order, no key 1, names 0 / 00 / -1 that stay strings) x the way a module reads a frame's
   arguments (args[n], args["n"], getArgument, ipairs, pairs, argumentPairs, next, in the orders TLC lists)
   x the frame that is read (own / parent / one made by frame:newChild) x depth 0..2 (per case one wrapper
   template forwarding the same shape).  Every read must be a view of the one argument map TLC gives (HView):
   the enumerations yield exactly the map as a SET (their order is not specified), ipairs stops at the first hole.
   Refs family (round 8): the text handed to preprocess / expandTemplate / callParserFunction is built in Lua and holds
   ARGUMENT REFERENCES {{{n}}} / {{{n|d}}} (bare, as argument of a call, inside #if, in a default) whose name is an
   argument of the enclosing template call and of the #invoke / of the enclosing call only / of the #invoke only / of
   neither x depth 0..2 x (from wikitext | through frame:expandTemplate) x the wrapper call's first argument as written on
   the page (plain | itself a reference, which a page leaves as written) x (arguments read before | after the API calls).
   TLC gives the expansion in the PAGE context (the expectation), and for the report the same text resolved against the
   #invoke's own / the enclosing call's arguments and with the Lua strings taken as plain text.
"""
from __future__ import annotations

import json
from pathlib import Path

import common
import luastub
import transclusion as tr
from common import Outcome, Scratch, pmap, tlc
from expander import lua_long

PID = "C08"
SEP, RS, US, FS = "\x1d", "\x1e", "\x1f", "\x1c"

PRELUDE = r"""
local p = {}
local function dump(t)
  local out = {}
  for k, v in pairs(t) do out[#out + 1] = type(k) .. "\31" .. tostring(k) .. "\31" .. tostring(v) .. "\31" .. #tostring(v) end
  table.sort(out)
  return table.concat(out, "\30")
end
-- hands everything it was given (except the title) on to frame:expandTemplate
function p.via(frame)
  local a = {}
  for k, v in pairs(frame.args) do if k ~= "t" then a[k] = v end end
  return frame:expandTemplate{title = frame.args.t, args = a}
end
"""

FN = r"""
function p.%(fn)s(frame)
  local parent = frame:getParent()
  local both = tostring(frame.args["1"]) .. "\31" .. tostring(frame.args[1]) .. "\31" .. tostring(frame.args["2"]) .. "\31" .. tostring(frame.args[2]) .. "\31" .. tostring(frame.args["1"])
  local pboth = ""
  if parent then pboth = tostring(parent.args[1]) .. "\31" .. tostring(parent.args["1"]) .. "\31" .. tostring(parent.args[1]) end
  return "\29B" .. both .. "\29Q" .. pboth .. "\29A" .. dump(frame.args)
    .. "\29T" .. (parent and parent:getTitle() or "\31nil")
    .. "\29P" .. (parent and dump(parent.args) or "")
    .. "\29R" .. frame:preprocess(%(frag)s)
    .. "\29L" .. #frame:preprocess(%(frag)s)
    .. "\29E" .. frame:expandTemplate{title = "T1", args = {%(s1)s, x = %(s2)s}}
    .. "\29F" .. frame:callParserFunction("#if", %(s1)s, %(s2)s, "n")
    .. "\29G" .. frame:callParserFunction("#ifeq", %(s1)s, "", "same", "diff")
    .. "\29N" .. tostring(frame:getTitle())
    .. "\29"
end
"""

# family "refs": the text is a Lua long string; the arguments are dumped before / after the API calls
FN_REFS = {"args-first": r"""
function p.%(fn)s(frame)
  local parent = frame:getParent()
  local t = %(frag)s
  local a, pa = dump(frame.args), (parent and dump(parent.args) or "")
  return "\29A" .. a .. "\29T" .. (parent and parent:getTitle() or "\31nil") .. "\29P" .. pa
    .. "\29R" .. frame:preprocess(t)
    .. "\29E" .. frame:expandTemplate{title = "T1", args = {t, x = t}}
    .. "\29F" .. frame:callParserFunction("#if", t, t, "n")
    .. "\29"
end
""", "api-first": r"""
function p.%(fn)s(frame)
  local parent = frame:getParent()
  local t = %(frag)s
  local r = frame:preprocess(t)
  local e = frame:expandTemplate{title = "T1", args = {t, x = t}}
  local f = frame:callParserFunction("#if", t, t, "n")
  return "\29A" .. dump(frame.args) .. "\29T" .. (parent and parent:getTitle() or "\31nil") .. "\29P" .. (parent and dump(parent.args) or "")
    .. "\29R" .. r .. "\29E" .. e .. "\29F" .. f .. "\29"
end
"""}

# the readers of the hole family; probes (HN, HS, HC) and the orders (one function h<j> per order) come from TLC's
# HOLES line.  Loops over the probe lists are numeric on purpose (they must not depend on the ipairs under test).
HOLES_LUA = r"""
local HN = %(nummax)d
local HS = {%(strprobes)s}
local HC = {%(childkeys)s}
local function hitem(k, v) return type(k) .. "\31" .. tostring(k) .. "\31" .. type(v) .. "\31" .. tostring(v) end
local function henum(f, st, c)
  local out, n = {}, 0
  for k, v in f, st, c do
    n = n + 1
    if n > 40 then out[#out + 1] = "overflow" break end
    out[#out + 1] = hitem(k, v)
  end
  return out
end
local HR = {}
HR["pairs"] = function(fr) return henum(pairs(fr.args)) end
HR["apairs"] = function(fr) return henum(fr:argumentPairs()) end
HR["ipairs"] = function(fr) return henum(ipairs(fr.args)) end
HR["next"] = function(fr)
  local out, n = {}, 0
  local k, v = next(fr.args)
  while k ~= nil do
    n = n + 1
    if n > 40 then out[#out + 1] = "overflow" break end
    out[#out + 1] = hitem(k, v)
    k, v = next(fr.args, k)
  end
  return out
end
HR["num"] = function(fr)
  local out = {}
  for i = 1, HN do out[#out + 1] = hitem(i, fr.args[i]) end
  return out
end
HR["str"] = function(fr)
  local out = {}
  for j = 1, #HS do out[#out + 1] = hitem(HS[j], fr.args[HS[j]]) end
  return out
end
HR["get"] = function(fr)
  local out = {}
  for i = 1, HN do
    local a = fr:getArgument(i)
    if a ~= nil then a = a:expand() end
    out[#out + 1] = hitem(i, a)
  end
  for j = 1, #HS do
    local a = fr:getArgument{name = HS[j]}
    if a ~= nil then a = a:expand() end
    out[#out + 1] = hitem(HS[j], a)
  end
  return out
end
local function hrun(who, fr, reads, recs)
  for j = 1, #reads do
    local ok, out = pcall(HR[reads[j]], fr)
    if not ok then out = {"error\31" .. tostring(out)} end
    recs[#recs + 1] = who .. "\28" .. reads[j] .. "\28" .. table.concat(out, "\28")
  end
end
local function hall(frame, reads)
  local recs = {}
  hrun("own", frame, reads, recs)
  local parent = frame:getParent()
  if parent then hrun("parent", parent, reads, recs) end
  -- a child frame that is given the frame's own arguments (collected by indexing, not by enumerating)
  local t = {}
  for i = 1, HN do t[i] = frame.args[i] end
  for j = 1, #HC do t[HC[j]] = frame.args[HC[j]] end
  local child = frame:newChild{title = "Child", args = t}
  hrun("child", child, reads, recs)
  return "\29" .. table.concat(recs, "\30") .. "\29"
end
"""


def holes_lua(info) -> str:
    """Lua source of the hole family's readers from TLC's HOLES line; fills _G['horder'] (order -> function index)"""
    orders = sorted(tuple(o) for o in info["orders"])
    _G["horder"] = {o: j for j, o in enumerate(orders)}
    src = HOLES_LUA % {"nummax": info["nummax"],
                       "strprobes": ", ".join(json.dumps(tr.text(q["probe"])) for q in info["strprobes"]),
                       "childkeys": ", ".join(json.dumps(tr.text(q["probe"])) for q in info["strprobes"] if not q["int"])}
    for o, j in _G["horder"].items():
        src += "function p.h%d(frame) return hall(frame, {%s}) end\n" % (j, ", ".join(json.dumps(r) for r in o))
    return src


def hole_pages(idx, c):
    """(page text, [(template title, body)]) of one case of the hole family"""
    fn = "h%d" % _G["horder"][tuple(c["reads"])]
    if c["depth"] == 0:
        return tr.render_item({"k": "inv", "fn": fn, "args": c["vec"]}), []
    tpl = [(f"Template:Hw{idx}", "<" + tr.render_item({"k": "inv", "fn": fn, "args": c["fwd"]}) + ">")]
    outer = f"Hw{idx}"
    if c["depth"] == 2:
        tpl.append((f"Template:Hv{idx}", tr.render_item({"k": "c", "name": f"Hw{idx}", "args": c["fwd"]})))
        outer = f"Hv{idx}"
    return tr.render_item({"k": "c", "name": outer, "args": c["vec"]}), tpl

W1 = "<{{#invoke:{{{m}}}|{{{f}}}|{{{1}}}|x={{{x}}}|2={{{2}}}}}>"
W2 = "{{%s|{{{1}}}|x={{{x}}}|2={{{2}}}|m={{{m}}}|f={{{f}}}}}"

TITLE_ATOM = {"SP": " ", "US": "_"}


def conc(atoms) -> str:
    """title atoms of PageStore.tla -> string"""
    return "".join(TITLE_ATOM.get(a, a) for a in atoms)


def written(route) -> str:
    """the name as the call site writes it"""
    return (":" if route["colon"] else "") + conc(route["name"])


def install_store(ctx, adds, module_src) -> None:
    """perform the add_page calls of the specification's store, in order"""
    for a in adds:
        red = None if list(a["redirect"]) == ["-"] else conc(a["redirect"])
        if a["body"] == "M":
            ctx.add_page(conc(a["title"]), a["ns"], body=module_src, model="Scribunto")
        elif red is not None:
            ctx.add_page(conc(a["title"]), a["ns"], redirect_to=red)
        else:
            assert a["body"] == "W1", a
            ctx.add_page(conc(a["title"]), a["ns"], body=W1)


def key_of(atoms):
    s = tr.text(atoms)
    return int(s) if s.isdigit() and int(s) > 0 else s


def amap(bindings):
    return {key_of(b["key"]): tr.text(b["val"]) for b in bindings}


def parse_dump(s, lens=None):
    m = {}
    if s:
        for rec in s.split(RS):
            t, k, v, n = rec.split(US)
            m[int(float(k)) if t == "number" else k] = v
            if lens is not None:
                lens.append((k, v, int(n)))
    return m


_G = {}


def chunk_fn(chunk):
    """chunk: list of (idx, case). One module per chunk."""
    common.use_repo()
    from wikitextprocessor import Wtp

    out = []
    lib = _G["lib"]
    with Scratch("c08-") as d:
        sub = d / "s"
        sub.mkdir()
        ctx = Wtp(db_path=str(sub / "pages.db"), quiet=True, quiet_output=True)
        try:
            luastub.install(ctx)
            src = PRELUDE
            for idx, c in chunk:
                if c["fam"] == "refs":
                    src += FN_REFS[c["order"]] % {"fn": f"r{idx}", "frag": lua_long(tr.render(c["frag"]))}
                elif c["fam"] != "holes":
                    src += FN % {"fn": f"f{idx}", "frag": lua_long(tr.render(c["frag"])), "s1": json.dumps(tr.text(c["s1"])), "s2": json.dumps(tr.text(c["s2"]))}
            src += holes_lua(_G["holes"])
            src += "return p\n"
            install_store(ctx, _G["adds"], src)
            tr.install(ctx, lib)
            # one forwarding template per route: its body calls the wrapper under that spelling
            w2 = {}
            hpages = {}
            refs = _G["refs"]
            ctx.add_page("Template:Rw1", 10, body="<" + tr.render_item({"k": "inv", "fn": "{{{f}}}", "args": refs["inv"]}) + ">")
            ctx.add_page("Template:Rw2", 10, body=tr.render_item({"k": "c", "name": "Rw1", "args": refs["fwd2"]}))
            for idx, c in chunk:
                if c["fam"] == "refs":
                    continue
                if c["fam"] == "holes":
                    hpages[idx], tpls = hole_pages(idx, c)
                    for title, body in tpls:
                        ctx.add_page(title, 10, body=body)
                    continue
                sp = written(c["route"])
                if c["depth"] == 2 and sp not in w2:
                    w2[sp] = f"W2r{len(w2)}"
                    ctx.add_page("Template:" + w2[sp], 10, body=W2 % sp)
            ctx.db_conn.commit()
            for idx, c in chunk:
                if c["fam"] == "refs":
                    out.append(run_refs(ctx, idx, c))
                    continue
                if c["fam"] == "holes":
                    ob = {"idx": idx, "page": hpages[idx]}
                    try:
                        ctx.start_page("Pg")
                        ob["raw"] = ctx.expand(hpages[idx])
                    except Exception as e:  # noqa: BLE001
                        ob["exc"] = repr(e)
                    out.append(ob)
                    continue
                a1, a2, a3 = tr.render(c["a1"]), tr.render(c["a2"]), tr.render(c["a3"])
                sp = written(c["route"])
                outer = sp if c["depth"] == 1 else w2.get(sp)
                if c["depth"] == 0:
                    page = f"{{{{#invoke:M|f{idx}|{a1}|x={a2}|2={a3}}}}}"
                elif c["via"]:
                    page = f"{{{{#invoke:M|via|{a1}|x={a2}|2={a3}|m=M|f=f{idx}|t={outer}}}}}"
                else:
                    page = f"{{{{{outer}|{a1}|x={a2}|2={a3}|m=M|f=f{idx}}}}}"
                ob = {"idx": idx, "page": page}
                try:
                    ctx.start_page("Pg")
                    res = ctx.expand(page)
                    ob["raw"] = res
                    # metamorphic: the same fragment / equivalent calls expanded on the page
                    ctx.start_page("Pg")
                    ob["m_pre"] = ctx.expand(tr.render(c["frag"]))
                    ob["m_et"] = ctx.expand("{{T1|1=" + tr.text(c["s1"]) + "|x=" + tr.text(c["s2"]) + "}}")
                    ob["m_pf"] = ctx.expand("{{#if:" + tr.text(c["s1"]) + "|" + tr.text(c["s2"]) + "|n}}")
                    ob["m_pf2"] = ctx.expand("{{#ifeq:" + tr.text(c["s1"]) + "||same|diff}}")
                except Exception as e:  # noqa: BLE001
                    ob["exc"] = repr(e)
                out.append(ob)
        finally:
            ctx.db_conn.close()
    return out


WHO = {"own": "frame", "parent": "frame:getParent()", "child": "frame:newChild{args = <the frame's own arguments>}"}
WHOSE = {"own": "the #invoke call's arguments", "parent": "the arguments of the call of the enclosing template",
         "child": "the arguments the child frame was given"}
ENUM = {"pairs": "pairs(%s.args)", "apairs": "%s:argumentPairs()", "next": "next(%s.args, k) from nil"}


def hkey(b):
    s = tr.text(b["key"])
    return int(s) if b["int"] else s


def hshow(m) -> str:
    return "{" + ", ".join(f"{k!r}: {v!r}" for k, v in sorted(m.items(), key=lambda kv: (isinstance(kv[0], str), kv[0]))) + "}"


def parse_holes(raw, pre, post):
    """[(who, reader, [item tuple, ...])] or None when the envelope is broken"""
    parts = raw.split(SEP)
    if len(parts) != 3 or parts[0] != pre or parts[2] != post:
        return None
    recs = []
    for rec in parts[1].split(RS):
        f = rec.split(FS)
        if len(f) < 2:
            return None
        recs.append((f[0], f[1], [tuple(x.split(US)) for x in f[2:] if x]))
    return recs


def typed(items):
    """items of an enumeration -> [(key, value)], None when an item is not (number|string key, string value)"""
    out = []
    for it in items:
        if len(it) != 4 or it[0] not in ("number", "string") or it[2] != "string":
            return None
        try:
            out.append((int(float(it[1])) if it[0] == "number" else it[1], it[3]))
        except ValueError:
            return None
    return out


def judge_holes(o: Outcome, c, e, ob):
    o.evaluations += 1
    info = _G["holes"]
    case = {"page": ob["page"], "family": "holes", "depth": c["depth"], "reads_in_order": c["reads"]}
    if c["depth"] > 0:
        case["invoke_in_wrapper"] = tr.render_item({"k": "inv", "fn": "h", "args": c["fwd"]})
    if "exc" in ob:
        o.violation({**case, "exception": ob["exc"]}, f"expand() raised {ob['exc']}", cls="exception")
        return
    pre, post = ("<", ">") if c["depth"] > 0 else ("", "")
    recs = parse_holes(ob["raw"], pre, post)
    whos = ["own"] + (["parent"] if e["hasParent"] else []) + ["child"]
    if recs is None or [(w, r) for w, r, _ in recs] != [(w, r) for w in whos for r in c["reads"]]:
        o.violation({**case, "got": ob["raw"][:400]}, "the string returned by the module does not replace the #invoke call verbatim", cls="envelope")
        return
    views = {"own": e["own"], "parent": e["parent"], "child": e["own"]}
    nprobes = list(range(1, info["nummax"] + 1))
    sprobes = [tr.text(q["probe"]) for q in info["strprobes"]]
    stats = _G.setdefault("hstats", {"reads": 0, "enumerations": 0, "enumerations_in_call_order": 0, "maps_with_a_hole": 0})
    failed = {}     # (who, class) -> (why, details): one report per frame and class of read
    for who, reader, items in recs:
        view = views[who]
        emap = {hkey(b): tr.text(b["val"]) for b in view["map"]}
        eseq = [tr.text(v) for v in view["seq"]]
        frame = WHO[who]
        stats["reads"] += 1
        if items and items[0][0] in ("error", "overflow") or any(it[0] == "overflow" for it in items):
            what = "raised " + items[0][1] if items[0][0] == "error" else "does not end (more than 40 pairs)"
            failed.setdefault((who, "fails/" + reader), (f"reading the arguments of {frame} by {reader} {what}; {WHOSE[who]} are {hshow(emap)}", {"reader": reader}))
            continue
        if reader in ENUM:
            expr = ENUM[reader] % frame
            got = typed(items)
            stats["enumerations"] += 1
            if got is None:
                failed.setdefault((who, "enumeration"), (f"{expr} yields keys / values that are not arguments: {items!r}", {"reader": reader}))
                continue
            gmap = dict(got)
            if got == [(hkey(b), tr.text(b["val"])) for b in view["map"]]:
                stats["enumerations_in_call_order"] += 1
            if gmap != emap:
                missing = [k for k in emap if k not in gmap]
                extra = [k for k in gmap if k not in emap]
                wrong = [k for k in emap if k in gmap and gmap[k] != emap[k]]
                why = f"{expr} yields {hshow(gmap)}, but {WHOSE[who]} are {hshow(emap)}"
                if missing:
                    behind = [k for k in missing if isinstance(k, int) and k > len(eseq)]
                    why += f": the argument(s) {missing!r} are missing from the enumeration"
                    if behind and behind == missing:
                        why += f" (numeric keys behind a hole in the numbering: 1..{len(eseq)} are contiguous)" if eseq else " (numeric keys, and there is no argument 1)"
                    # does indexing still answer?  (the same frame, read by number in the same invocation)
                    numrec = next((it for w, r, it in recs if w == who and r == "num"), None)
                    if numrec and all(isinstance(k, int) and k <= len(numrec) and numrec[k - 1][2:] == ("string", emap[k]) for k in missing):
                        why += f" although {frame}.args[k] answers for each of them"
                if extra:
                    why += f"; {extra!r} are no arguments of the call"
                if wrong:
                    why += f"; wrong value for {wrong!r}"
                failed.setdefault((who, "enumeration"), (why, {"reader": reader, "got": {str(k): v for k, v in gmap.items()}, "specification": {str(k): v for k, v in emap.items()}}))
            elif len(got) != len(gmap) and who != "child":
                # the same key twice: the SET is right; beyond the statement
                o.note_drift({**case, "what": f"{expr} yields a key more than once", "got": got})
        elif reader == "ipairs":
            expr = f"ipairs({frame}.args)"
            got = typed(items)
            want = list(enumerate(eseq, 1))
            if got is None or any(k not in emap or emap[k] != v for k, v in got):
                failed.setdefault((who, "ipairs"), (f"{expr} yields {items!r}: not arguments of the call ({WHOSE[who]} are {hshow(emap)})", {"reader": reader}))
            elif got[:len(want)] != want:
                failed.setdefault((who, "ipairs"), (f"{expr} yields {got!r}, but the arguments numbered 1..{len(want)} without a hole are {want!r} ({WHOSE[who]} are {hshow(emap)})", {"reader": reader}))
            elif got != want and who != "child":
                # walks on behind a hole with right pairs: not Lua's ipairs, but nothing the statement excludes
                o.note_drift({**case, "what": f"{expr} does not stop at the first hole", "got": got, "specification": want})
        else:
            probes = nprobes if reader == "num" else sprobes if reader == "str" else nprobes + sprobes
            looks = view["num"] if reader == "num" else view["str"] if reader == "str" else view["num"] + view["str"]
            how = {"num": "%s.args[%r]", "str": "%s.args[%r]", "get": "%s:getArgument(%r):expand()"}[reader]
            bad = []
            if len(items) != len(probes):
                bad.append("wrong number of answers")
            else:
                for q, look, it in zip(probes, looks, items):
                    want = ("string", tr.text(look["val"])) if look["has"] else ("nil", "nil")
                    if tuple(it[2:]) != want:
                        bad.append((how % (frame, q)) + " is " + (repr(it[3]) if it[2] == "string" else f"{it[3]} ({it[2]})") + ", the call's argument is "
                                   + (repr(want[1]) if look["has"] else "absent"))
            if bad:
                failed.setdefault((who, "indexing"), ("; ".join(bad[:4]) + f" ({WHOSE[who]} are {hshow(emap)})", {"reader": reader}))
    for (who, cls), (why, det) in failed.items():
        if who == "child":
            # frames made by newChild are not part of the statement
            o.note_drift({**case, "what": "arguments of a frame made by frame:newChild", "why": why, **det})
        else:
            o.violation({**case, **det, "what": ("frame.args" if who == "own" else "parent args") + " / " + cls}, why, cls=f"holes/{who}/{cls}")
    emap0 = {hkey(b) for b in e["own"]["map"]}
    if any(isinstance(k, int) and k > len(e["own"]["seq"]) for k in emap0):
        stats["maps_with_a_hole"] += 1
    o.shape(("holes", common.json_key(c["vec"]), c["depth"], tuple(c["reads"])))


def refs_page(idx, c) -> str:
    """the page of one case of the refs family, from the argument vectors TLC gives (wrap, inv0)"""
    fn = f"r{idx}"
    wrap = [({**a, "val": [tr.T([fn])]} if a["named"] and tr.render(a["key"]) == "f" else a) for a in c["wrap"]]
    if c["depth"] == 0:
        return tr.render_item({"k": "inv", "fn": fn, "args": c["inv0"]})
    outer = "Rw1" if c["depth"] == 1 else "Rw2"
    if c["via"]:
        return tr.render_item({"k": "inv", "fn": "via", "args": wrap + [{"named": True, "key": [tr.T(["t"])], "val": [tr.T([outer])]}]})
    return tr.render_item({"k": "c", "name": outer, "args": wrap})


def run_refs(ctx, idx, c):
    page = refs_page(idx, c)
    ob = {"idx": idx, "page": page}
    try:
        ctx.start_page("Pg")
        ob["raw"] = ctx.expand(page)
        # metamorphic: the same text / the equivalent calls expanded on the page itself
        t = tr.render(c["frag"])
        ctx.start_page("Pg")
        ob["m_pre"] = ctx.expand(t)
        ob["m_et"] = ctx.expand("{{T1|1=" + t + "|x=" + t + "}}")
        ob["m_pf"] = ctx.expand("{{#if:" + t + "|" + t + "|n}}")
    except Exception as e:  # noqa: BLE001
        ob["exc"] = repr(e)
    return ob


def ref_names(content):
    """names of the argument references of a content, in order of appearance"""
    out = []
    for it in content:
        if it["k"] == "p":
            out.append(tr.text(it["name"]).strip())
            out += ref_names(it["def"])
        elif it["k"] == "c":
            for a in it["args"]:
                out += ref_names(a["key"]) + ref_names(a["val"])
        else:
            for f in ("c", "y", "n", "a", "b"):
                if isinstance(it.get(f), list):
                    out += ref_names(it[f])
    return list(dict.fromkeys(out))


def judge_refs(o: Outcome, c, e, ob):
    o.evaluations += 1
    frag = tr.render(c["frag"])
    if tr.text(e["written"]) != frag:
        raise RuntimeError(f"Gen_LuaFrame!Written and the renderer disagree: {tr.text(e['written'])!r} / {frag!r}")
    case = {"page": ob["page"], "family": "refs", "depth": c["depth"], "text_built_in_lua": frag, "order": c["order"]}
    wrapcall = None
    if c["depth"] > 0:
        wrapcall = tr.render_item({"k": "c", "name": "Rw1", "args": e["wrap"]}).replace("|f=F", "")
        case["enclosing_template_called_with"] = {str(k): v for k, v in amap(e["pargs"]).items() if k != "f"}
        case["invoke_in_wrapper"] = tr.render_item({"k": "inv", "fn": "f", "args": _G["refs"]["inv"]})
        case["through_expandTemplate"] = c["via"]
    if "exc" in ob:
        o.violation({**case, "exception": ob["exc"]}, f"expand() raised {ob['exc']}", cls="exception")
        return
    pre, post = ("<", ">") if c["depth"] > 0 else ("", "")
    parts = ob["raw"].split(SEP)
    if len(parts) != 8 or parts[0] != pre or parts[7] != post or [p[:1] for p in parts[1:7]] != list("ATPREF"):
        o.violation({**case, "got": ob["raw"][:400]}, "the string returned by the module does not replace the #invoke call verbatim", cls="envelope")
        return
    got = {p[0]: p[1:] for p in parts[1:7]}
    stats = _G.setdefault("rstats", {"api_results": 0, "lua_strings_taken_as_plain_text": 0, "texts_where_the_enclosing_arguments_would_show": 0})
    names = ref_names(c["frag"])
    own, par = amap(e["args"]), (amap(e["pargs"]) if e["hasParent"] else {})
    where = f"wrapper depth {c['depth']}" + (", wrapper reached through frame:expandTemplate" if c["via"] else "")

    def leak(reading):
        """the sentence naming the problem when the result is the text resolved against the enclosing call's arguments"""
        hit = [n for n in names if key_of([n]) in par]
        return (f": the argument reference(s) {', '.join('{{{' + n + '}}}' for n in hit)} in the text were resolved against the arguments of the ENCLOSING "
                f"TEMPLATE CALL ({ {str(k): v for k, v in par.items() if k != 'f'} }); a page has no arguments - there a reference takes its default or stays as written"
                f" ({reading!r}); {where}")

    # ---- the three entry points
    if tr.text(e["preParent"]) != tr.text(e["pre"]):
        stats["texts_where_the_enclosing_arguments_would_show"] += 1
    api = [("frame:preprocess", f"frame:preprocess({frag!r})", got["R"], e["pre"], None, e["preOwn"], e["preParent"], ob["m_pre"],
            "expanding the same text in the calling page context"),
           ("frame:expandTemplate", f"frame:expandTemplate{{title = 'T1', args = {{{frag!r}, x = {frag!r}}}}}", got["E"], e["et"], e["etLit"], None, e["etParent"], ob["m_et"],
            "expanding the equivalent call {{T1|1=" + frag + "|x=" + frag + "}}"),
           ("frame:callParserFunction", f"frame:callParserFunction('#if', {frag!r}, {frag!r}, 'n')", got["F"], e["pf"], e["pfLit"], None, e["pfParent"], ob["m_pf"],
            "expanding the equivalent call {{#if:" + frag + "|" + frag + "|n}}")]
    for what, expr, g, x, lit, ownr, parr, meta, equiv in api:
        stats["api_results"] += 1
        x, parr = tr.text(x), tr.text(parr)
        if g == x:
            continue
        det = {**case, "what": what, "got": g, "specification": x, "same_wikitext_expanded_on_page": meta}
        if lit is not None and g == tr.text(lit):
            # MediaWiki hands the Lua strings of expandTemplate / callParserFunction on as plain text (they are not
            # preprocessed): a result built from the text as written is no contradiction of the equivalence
            stats["lua_strings_taken_as_plain_text"] += 1
            continue
        if g == meta:
            # the relation of the statement holds on the real code; the page expansion itself differs from the reference (C04's subject)
            o.note_drift({**det, "note": "equals the real expansion on the page, which differs from the transclusion reference"})
            continue
        if ownr is not None and g == tr.text(ownr):
            # MediaWiki's frame:preprocess resolves references against the #invoke's own arguments; the statement says
            # page context.  Not what the library does today; reported as drift, not as a contradiction (also where the
            # enclosing call's arguments would give the same text: the other names tell the two apart)
            o.note_drift({**det, "note": "equals the text resolved against the #invoke's own arguments (MediaWiki's reading of frame:preprocess)"})
            continue
        why = f"{expr} returned {g!r}, but {equiv} gives {x!r}"
        if g == parr and c["depth"] > 0:
            why += leak(x)
            cls = what + "/resolved against the enclosing call's arguments"
        else:
            cls = what + "/refs"
        o.violation(det, why, cls=cls)
    # ---- the frames: arguments of the #invoke, title and arguments of the enclosing template
    checks = [("frame.args", parse_dump(got["A"]), own, "the #invoke call's arguments after expansion"),
              ("parent title", got["T"], conc(e["ptitle"]) if e["hasParent"] else US + "nil", "the enclosing template's title"),
              ("parent args", parse_dump(got["P"]), {**par, "f": f"r{ob['idx']}"} if e["hasParent"] else {}, "the arguments of the enclosing template call")]
    for what, g, x, meaning in checks:
        if g == x:
            continue
        why = f"{what} seen by Lua is {g!r}; {meaning} are {x!r}" if what != "parent title" else f"frame:getParent():getTitle() is {g!r}; {meaning} is {x!r}"
        cls = what + "/refs"
        if isinstance(x, dict) and isinstance(g, dict):
            leaked = tr.text(e["a1Parent"]) if what == "parent args" else "I" + tr.text(e["a1Parent"])
            moved = [k for k in x if "{{{" in x[k] and k in g and g[k] != x[k] and g[k] == leaked]
            if moved and c["depth"] > 0:
                why += (f": the value of {moved!r} is an argument reference that the page leaves as written ({wrapcall} written on a page - a page has no arguments); "
                        f"Lua sees it resolved against the arguments of the enclosing template call; {where}")
                cls = what + "/reference written on the page resolved against the enclosing call's arguments"
        o.violation({**case, "what": what, "got": g if not isinstance(g, dict) else {str(k): v for k, v in g.items()},
                     "specification": x if not isinstance(x, dict) else {str(k): v for k, v in x.items()}}, why, cls=cls)
    o.shape(("refs", common.json_key(c["frag"]), common.json_key(c["wa1"]), c["depth"], c["via"], c["order"]))


def judge(o: Outcome, c, e, ob):
    if c["fam"] == "holes":
        return judge_holes(o, c, e, ob)
    if c["fam"] == "refs":
        return judge_refs(o, c, e, ob)
    o.evaluations += 1
    case = {"page": ob["page"], "fragment": tr.render(c["frag"]), "lua_strings": [tr.text(c["s1"]), tr.text(c["s2"])], "depth": c["depth"]}
    if c["depth"] > 0:
        case["wrapper_called_as"] = "{{" + written(c["route"]) + "|...}}"
        case["through_expandTemplate"] = c["via"]
    if "exc" in ob:
        o.violation({**case, "exception": ob["exc"]}, f"expand() raised {ob['exc']}", cls="exception")
        return
    raw = ob["raw"]
    pre, post = ("<", ">") if c["depth"] > 0 else ("", "")
    parts = raw.split(SEP)
    if len(parts) != 13 or parts[0] != pre or parts[12] != post:
        o.violation({**case, "got": raw[:400]}, "the string returned by the module does not replace the #invoke call verbatim", cls="envelope")
        return
    got = {p[0]: p[1:] for p in parts[1:12]}
    ptitle = conc(e["ptitle"])
    exp_args = amap(e["args"])
    a1v, a2v = exp_args.get(1), exp_args.get(2)
    pexp = amap(e["pargs"]) if e["hasParent"] else {}
    checks = [
        ("frame.args read as ['1'], [1], ['2'], [2], ['1']", got["B"].split(US), [str(a1v), str(a1v), str(a2v), str(a2v), str(a1v)], None),
        ("parent.args read as [1], ['1'], [1]", got["Q"].split(US) if e["hasParent"] else [], [str(pexp.get(1))] * 3 if e["hasParent"] else [], None),
        ("frame.args", parse_dump(got["A"]), exp_args, None),
        ("parent title", got["T"], ptitle if e["hasParent"] else US + "nil", None),
        ("parent args", parse_dump(got["P"]), amap(e["pargs"]) if e["hasParent"] else {}, None),
        ("frame:preprocess", got["R"], tr.text(e["pre"]), ob["m_pre"]),
        ("frame:expandTemplate", got["E"], tr.text(e["et"]), ob["m_et"]),
        ("frame:callParserFunction", got["F"], tr.text(e["pf"]), ob["m_pf"]),
        ("frame:callParserFunction with an empty argument", got["G"], tr.text(e["pf2"]), ob["m_pf2"]),
    ]
    # what the module holds is what it returns: the byte lengths measured inside Lua equal those of the
    # returned text (an internal placeholder standing for markup would be shorter / longer)
    lens = []
    parse_dump(got["A"], lens)
    parse_dump(got["P"], lens)
    lens.append(("preprocess", got["R"], int(got["L"])))
    for k, v, n in lens:
        if len(v.encode("utf-8")) != n:
            o.violation({**case, "key": k, "returned": v, "length_in_lua": n},
                        f"the value of {k!r} held by the module has {n} bytes, the text it returns ({v!r}) has {len(v.encode('utf-8'))}: Lua saw something else than the expanded argument", cls="lua-length")
            break
    # frame:getTitle() of the module's own frame: beyond the statement -> drift only
    if got["N"] != conc(e["ftitle"]):
        o.note_drift({**case, "what": "frame:getTitle()", "got": got["N"], "specification": conc(e["ftitle"])})
    for what, g, x, meta in checks:
        if what == "parent title" and e["hasParent"] and g != x:
            # the statement: the parent frame carries the enclosing template's title.  The enclosing template is
            # the page whose body holds the #invoke; every spelling of the route denotes that one page
            sp = written(c["route"])
            stored_names = {ptitle} if c["route"]["colon"] else {ptitle, ptitle.removeprefix("Template:")}
            how = f"the call names it {{{{{sp}}}}}"
            if e["redirect"]:
                how += (f", a redirect page ({conc(e['firstTitle'])!r} -> {ptitle!r}); the body that is expanded is the target's,"
                        " so the target is the enclosing template (MediaWiki reports the target's title as well)")
            elif conc(c["route"]["name"]) not in stored_names:
                how += ", another spelling of the same page (first-letter case / underscore / namespace prefix)"
            else:
                how += ", its stored name"
            where = f"wrapper depth {c['depth']}" + (", reached through frame:expandTemplate" if c["via"] else "")
            if g == US + "nil":
                why = f"frame:getParent() is nil inside the template {ptitle!r} ({how}; {where})"
            else:
                why = (f"frame:getParent():getTitle() is {g!r}, but the enclosing template - the page whose body holds the #invoke - "
                       f"has the title {ptitle!r}; {how}; {where}")
            o.violation({**case, "what": what, "got": g, "specification": x, "stored_title_of_enclosing_template": ptitle,
                         "route_is_redirect": e["redirect"]}, why,
                        cls="parent title/" + ("redirect" if e["redirect"] else "spelling" if conc(c["route"]["name"]) not in stored_names else "canonical")
                        + ("/main namespace" if c["route"]["colon"] else "/template namespace"))
            continue
        if what == "parent args" and e["hasParent"]:
            x = dict(x)
            x["m"] = "M"
            x["f"] = f"f{ob['idx']}"
        bad_spec = g != x
        bad_meta = meta is not None and g != meta
        if bad_spec or bad_meta:
            devs = []
            # the specification's value contains brace text produced by an expansion ({{((}}..{{))}}):
            # the Lua side preprocesses argument strings again after they were substituted/expanded
            # deliberate: a final newline of positional values is removed before Lua sees them
            def _nl(v):
                if isinstance(v, dict):
                    return {k: (w[:-1] if isinstance(k, int) and isinstance(w, str) and w.endswith("\n") else w) for k, w in v.items()}
                if isinstance(v, list):
                    return [w[:-1] if isinstance(w, str) and w.endswith("\n") else w for w in v]
                return v
            if what in ("frame.args", "parent args") or what.startswith("frame.args read") or what.startswith("parent.args read"):
                if g == _nl(x) and g != x:
                    o.classify({**case, "what": what, "got": str(g)[:200], "specification": str(x)[:200]},
                               f"{what} seen by Lua is {g!r}; the specification gives {x!r}", ["LuaPositionalFinalNewlineDropped"], cls=what + "/newline")
                    continue
            spec_text = json.dumps(x, default=str)
            if ("{{" in spec_text or "}}" in spec_text) and what != "frame:preprocess" and c["depth"] > 0:
                devs = ["LuaArgumentsPreprocessedAgain"]
            if what in ("frame.args", "parent args") and isinstance(g, dict) and isinstance(x, dict):
                pass
            o.classify({**case, "what": what, "got": g if not isinstance(g, dict) else {str(k): v for k, v in g.items()},
                        "specification": x if not isinstance(x, dict) else {str(k): v for k, v in x.items()},
                        "same_wikitext_expanded_on_page": meta},
                       f"{what} seen by Lua is {g!r}; the specification gives {x!r}" + (f"; the equivalent wikitext expands to {meta!r}" if meta is not None else ""),
                       devs, cls=what + ("/spec" if bad_spec else "/metamorphic"))
    o.shape((common.json_key(c["a1"]), common.json_key(c["a2"]), c["depth"], common.json_key(c["frag"]), written(c["route"]), c["via"]))


def with_pages(c):
    """the case as the worker needs it (refs family: plus the argument vectors of the page, which TLC prints with the expectation)"""
    if c["case"]["fam"] == "refs":
        return {**c["case"], "wrap": c["exp"]["wrap"], "inv0": c["exp"]["inv0"]}
    return c["case"]


def run(tier: str) -> int:
    o = Outcome(PID, tier)
    o.rule = ("each (wrapper depth, positional value, named value, fragment, Lua strings) of Gen_LuaFrame is one case of family 'args' "
              "(wrapper called by its stored name); each (route = spelling / redirect by which the page holding the #invoke is reached, "
              "depth 1..2, from wikitext | through frame:expandTemplate, value) is one case of family 'route'; "
              "distinct by (values, depth, fragment, route, via); each (argument vector of 1..3 (thorough: ..4) positional / numeric-named / "
              "string-named arguments, depth 0..2, order of reads) is one case of family 'holes', every read of the own / parent / child frame compared "
              "with TLC's view of the one argument map; distinct by (vector, depth, order); each (text with argument references built in Lua, "
              "first argument of the wrapper call as written, depth 0..2, from wikitext | through frame:expandTemplate, arguments read before | after "
              "the API calls) is one case of family 'refs': preprocess / expandTemplate / callParserFunction of the text compared with TLC's expansion "
              "in the page context, frame / parent arguments with TLC's bindings; distinct by all five")
    o.assumptions = ["Lua runs with pure-Lua stand-ins for ustring/libraryUtil", "callParserFunction/expandTemplate receive plain strings",
                     "the equivalent call of expandTemplate{title,args} is the all-named call {{title|k=v|...}}",
                     "a Lua string with markup handed to expandTemplate / callParserFunction may also be taken as plain text (MediaWiki does not preprocess it): "
                     "both the page-context expansion of the equivalent call and the result with the text as written are accepted, nothing else",
                     "the enclosing template of an #invoke is the page whose body is expanded (for a redirect: its target), titles as stored by add_page"]
    uni = "T" if tier == "thorough" else "Q"
    r = tlc("Gen_LuaFrame", f"Gen_LuaFrame_{uni}.cfg", workers=1, timeout=3000)
    o.add_tlc(f"Gen_LuaFrame[{uni}]", r)
    cases = r.cases
    store = r.tagged("STORE")[0]
    _G["adds"] = store["adds"]
    _G["holes"] = r.tagged("HOLES")[0]
    _G["refs"] = r.tagged("REFS")[0]
    _G.pop("hstats", None)
    _G.pop("rstats", None)
    o.extra["routes"] = {"reaching_a_wrapper": store["routes"], "going_nowhere_not_run": store["unreachable"],
                         "route_cases": sum(1 for c in cases if c["case"]["fam"] == "route"),
                         "laws_checked_by_TLC": ["TitleLaws (code path == reference on every route, supplier is a stored non-redirect page)",
                                                 "DepthIndependent", "ViaIndependent"]}
    lib = {"T1": [{"w": "plain", "c": [tr.T(["("]), {"k": "p", "name": ["1"], "hasDef": False, "def": []}, tr.T([","]),
                                       {"k": "p", "name": ["x"], "hasDef": True, "def": [tr.T(["d"])]}, tr.T([")"])]}],
           "Sp": [{"w": "plain", "c": [tr.T(["SP", "v", "SP"])]}],
           "St": [{"w": "plain", "c": [tr.T(["*"]), {"k": "p", "name": ["1"], "hasDef": False, "def": []}]}],
           "((": [{"w": "plain", "c": [tr.T(["{{"])]}], "))": [{"w": "plain", "c": [tr.T(["}}"])]}]}
    _G["lib"] = lib
    items = [(i, with_pages(c)) for i, c in enumerate(cases)]
    res = pmap(chunk_fn, items, chunk=max(20, len(items) // 64))
    for ob in res:
        judge(o, cases[ob["idx"]]["case"], cases[ob["idx"]]["exp"], ob)
        o.traces += 1
    o.extra["holes"] = {"shapes": _G["holes"]["shapes"], "cases": _G["holes"]["cases"], "orders_of_reads": _G["holes"]["orders"],
                        "laws_checked_by_TLC": ["HolesDepthIndependent", "HolesAgreeWithArgViews (ArgViews!ArgMap, ViewLua)", "HolesUniverseLaws (non-vacuity)"],
                        **_G.get("hstats", {})}
    o.extra["refs"] = {"cases": _G["refs"]["cases"], "texts": _G["refs"]["frags"], "names_of_references": [tr.text(n) for n in _G["refs"]["names"]],
                       "first_argument_of_the_wrapper_call": [tr.render(w) for w in _G["refs"]["wa1"]],
                       "laws_checked_by_TLC": ["RefsDepthIndependent", "RefsUniverseLaws (the page context, the #invoke's and the enclosing call's arguments give three different texts for every API; non-vacuity)"],
                       **_G.get("rstats", {})}
    o.exhaustive = True
    ob0 = res[len(res) // 2]
    o.sample({"page": ob0["page"], "returned": ob0.get("raw", "")[:300]})
    return o.finish()


def replay(path: str) -> int:
    v = json.loads(Path(path).read_text())
    print(json.dumps(v, indent=1)[:2500])
    return 1


def selftest() -> int:
    r = tlc("Gen_LuaFrame", "Gen_LuaFrame_Q.cfg", workers=1)
    _G["adds"] = r.tagged("STORE")[0]["adds"]
    _G["holes"] = r.tagged("HOLES")[0]
    _G["refs"] = r.tagged("REFS")[0]
    reffed = [c for c in r.cases if c["case"]["fam"] == "refs"]
    routed = [c for c in r.cases if c["case"]["fam"] == "route"]
    holed = [c for c in r.cases if c["case"]["fam"] == "holes"]
    cases = [c for c in r.cases if c["case"]["fam"] == "args"][:40] + routed[:: max(1, len(routed) // 40)] + holed[:: max(1, len(holed) // 60)] + reffed[::9]
    # a reference written on the page as the wrapper call's first argument, replaced in the expected parent arguments by its
    # resolution against the enclosing call's arguments, must be rejected
    rf = next(c for c in cases if c["case"]["fam"] == "refs" and c["case"]["depth"] == 2 and c["exp"]["a1Parent"] != c["exp"]["pargs"][0]["val"])
    rf["exp"]["pargs"][0]["val"] = rf["exp"]["a1Parent"]
    # an argument behind a hole dropped from the map the enumerations are compared with must be rejected as well
    h = next(c for c in cases if c["case"]["fam"] == "holes" and c["case"]["depth"] == 0 and len(c["exp"]["own"]["map"]) == 3
             and any(b["int"] and b["key"] == ["3"] for b in c["exp"]["own"]["map"]) and len(c["exp"]["own"]["seq"]) == 1)
    h["exp"]["own"]["map"] = [b for b in h["exp"]["own"]["map"] if b["key"] != ["3"]]
    cases[3]["exp"]["pre"] = ["CORRUPT"]
    # a stored title spelt otherwise must be rejected too
    k = next(i for i, c in enumerate(cases) if c["case"]["fam"] == "route" and c["exp"]["redirect"])
    cases[k]["exp"]["ptitle"] = cases[k]["exp"]["firstTitle"]
    o = Outcome(PID, "quick")
    _G["lib"] = {"T1": [{"w": "plain", "c": [tr.T(["("]), {"k": "p", "name": ["1"], "hasDef": False, "def": []}, tr.T([","]),
                                              {"k": "p", "name": ["x"], "hasDef": True, "def": [tr.T(["d"])]}, tr.T([")"])]}],
                 "Sp": [{"w": "plain", "c": [tr.T(["SP", "v", "SP"])]}], "St": [{"w": "plain", "c": [tr.T(["*"]), {"k": "p", "name": ["1"], "hasDef": False, "def": []}]}],
                 "((": [{"w": "plain", "c": [tr.T(["{{"])]}], "))": [{"w": "plain", "c": [tr.T(["}}"])]}]}
    for ob in chunk_fn([(i, with_pages(c)) for i, c in enumerate(cases)]):
        judge(o, cases[ob["idx"]]["case"], cases[ob["idx"]]["exp"], ob)
    print("violations after corrupting four expectations (preprocess text, parent title of a redirect route, argument map of a vector with a hole, "
          "a reference written on the page in the parent arguments replaced by its resolution against the enclosing call):", len(o.violations))
    for v in o.violations:
        print("  ", str(v.get("why", v))[:200])
    return 0 if len(o.violations) == 4 else 1
