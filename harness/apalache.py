"""Additional engine, thorough tier only: inductive-invariant checks with Apalache (symbolic, SMT).

TLC stays the tool that checks the properties on the bounded models and that binds the models to the
code (G / V directions of the checks).  This engine raises the strength of some MODEL-LEVEL claims from
"every state TLC reached with small constants" to "inductive invariant": for a typed abstraction
spec/apalache/<Module>Ind.tla of a base specification it asks Apalache for

    init     Init => IndInv                      apalache-mc check --init=Init    --inv=IndInv --length=0
    step     IndInv /\\ Next => IndInv'           apalache-mc check --init=IndInit --inv=IndInv --length=1
    implies  IndInv => Property                  apalache-mc check --init=IndInit --inv=Prop   --length=0
             (or an action property: IndInv /\\ Next => ActionProp, --length=1)

and, as vacuity guards, for obligations that MUST fail (the step with the modelled deviation switched
on; "IndInit has no interesting state").  The proofs are about the DESIGN (the abstraction), unbounded
in the number of steps, for the sizes written in the IndInit / ConstInit operators of the modules.

extend(o, tier, pid) appends one record per obligation to o.extra["inductive"]:
    {"module", "obligation": "init"|"step"|"implies", "invariant", "init", "cinit", "expect": "proved"|"failed",
     "result": "proved"|"failed"|"timeout", "seconds"}
A timeout is recorded, never fatal.  An obligation whose result contradicts its expectation (a proved
obligation now FAILS with a counterexample; a vacuity guard that no longer fails) or a run in which
Apalache reports neither (parse / type error) is a machinery failure: common.TLCError -> exit 2.

Command line (used while building):  python harness/apalache.py C10 [timeout_s]
"""
from __future__ import annotations

import os
import re
import shutil
import subprocess
import sys
import time
from concurrent.futures import ThreadPoolExecutor

import common
from common import Scratch

APALACHE = "apalache-mc"
SPEC = common.SPEC / "apalache"
TIMEOUT = int(os.environ.get("VERIF_APALACHE_TIMEOUT", "1200"))
PARALLEL = int(os.environ.get("VERIF_APALACHE_PARALLEL", "4"))


def ob(module, obligation, inv, *, init, length, cinit=None, expect="proved", what="", next_=None, timeout=None, deps=()):
    """deps: base specifications (spec/*.tla) the typed module INSTANCEs - copied next to it for the run."""
    return {"module": module, "obligation": obligation, "invariant": inv, "init": init, "length": length,
            "cinit": cinit, "expect": expect, "what": what, "next": next_, "timeout": timeout, "deps": list(deps)}


# ---------------------------------------------------------------------------------------------------
# the obligations per check
# ---------------------------------------------------------------------------------------------------
PLAN: dict[str, list[dict]] = {}

_PS = "PageStoreInd"
PLAN["C10"] = [
    ob(_PS, "init", "IndInv", init="Init", length=0, cinit="ConstInit"),
    ob(_PS, "step", "IndInv", init="IndInit", length=1, cinit="ConstInit",
       what="pre-state: any store of <= 4 rows (cur, com) and any memo of <= 4 entries satisfying IndInv"),
    ob(_PS, "step", "IndInv", init="IndInit5", length=1, cinit="ConstInit",
       what="pre-state: <= 5 rows / <= 5 memo entries (IndInit6: proved twice while building, 485 s and 741 s, not run routinely)"),
    ob(_PS, "implies", "MemoCoherent", init="IndInit", length=0, cinit="ConstInit"),
    ob(_PS, "implies", "ObservedCurrent", init="IndInit", length=0, cinit="ConstInit",
       what="every get_page through the memo returns what the store would answer now"),
    ob(_PS, "implies", "CommitOnlyPublishes", init="IndInit", length=1, cinit="ConstInit",
       what="action invariant: com changes only by becoming exactly cur (committed + pending)"),
    ob(_PS, "step", "IndInv", init="IndInit", length=1, cinit="ConstInitDev", expect="failed",
       what="vacuity guard: with MemoNotInvalidatedOnAdd the invariant is not inductive"),
    ob(_PS, "implies", "NoInterestingState", init="IndInit", length=0, cinit="ConstInit", expect="failed",
       what="vacuity guard: IndInit admits a store with a redirect and a memo entry that hit on its second candidate"),
]

_LW = "LockWaitInd"
_LWD = ("LockWait.tla",)
PLAN["C20"] = [
    ob(_LW, "init", "IndInv", init="Init", length=0, cinit="ConstInit", deps=_LWD),
    ob(_LW, "step", "IndInv", init="IndInit", length=1, cinit="ConstInit", deps=_LWD,
       what="spec/LockWait.tla itself (INSTANCE), for every BusyTimeout > MaxHold >= 0 and every integer pre-state"),
    ob(_LW, "implies", "NeverLocked", init="IndInit", length=0, cinit="ConstInit", deps=_LWD),
    ob(_LW, "step", "IndInv", init="IndInit", length=1, cinit="ConstInitLong", deps=_LWD, expect="failed",
       what="vacuity guard: a holder that may keep the lock for BusyTimeout or longer (idle holder) defeats the busy handler"),
]
_WL = "WorkersLockInd"
_WLP = ("OneWriter", "TxnLockAgree", "WalAtWork", "NoIdleTransaction")
PLAN["C20"] += [
    ob(_WL, "init", "IndInv", init="Init", length=0, cinit="ConstInit"),
    ob(_WL, "step", "IndInv", init="IndInit", length=1, cinit="ConstInit",
       what="lock / transaction / journal-mode core of Workers.tla, <= 4 workers + the creating context, any <= 5 files"),
    ob(_WL, "step", "IndInv", init="IndInitBig", length=1, cinit="ConstInitBig",
       what="<= 6 workers + the creating context, any <= 8 files / grants"),
] + [ob(_WL, "implies", inv, init="IndInit", length=0, cinit="ConstInit") for inv in _WLP] + [
    ob(_WL, "step", "IndInv", init="IndInit", length=1, cinit=c, expect="failed", what="vacuity guard: deviation " + d)
    for c, d in (("ConstInitBootSnap", "BootstrapUnderSnapshot"), ("ConstInitCommitSkipped", "CommitSkippedWhenUnchanged"),
                 ("ConstInitCreatorOnly", "ModeSetByCreatorOnly"))
] + [
    ob(_WL, "implies", "NoInterestingState", init="IndInit", length=0, cinit="ConstInit", expect="failed",
       what="vacuity guard: IndInit admits a writer inside its critical section beside a reader and an idle context"),
]
_AN = "AnalyzeInd"
PLAN["C17"] = [
    ob(_AN, "init", "IndInv", init="Init", length=0, cinit="ConstInit"),
    ob(_AN, "step", "IndInv", init="IndInit", length=1, cinit="ConstInit",
       what="classifier pass + worklist of analyze_templates over ANY inclusion relation of <= 8 edges on <= 5 templates, "
            "any flagged / earlier-marked sets, any order of pages and worklist"),
    ob(_AN, "step", "IndInv", init="IndInit", length=1, cinit="ConstInitBig", what="<= 14 edges on <= 8 templates"),
    ob(_AN, "implies", "NeverOvermarks", init="IndInit", length=0, cinit="ConstInit",
       what="marked lies inside every set that contains flagged + earlier marks and is closed under includers"),
    ob(_AN, "implies", "KeepsEarlierMarks", init="IndInit", length=0, cinit="ConstInit"),
    ob(_AN, "implies", "ResultIsClosed", init="IndInit", length=0, cinit="ConstInit",
       what="empty worklist: marked contains flagged + earlier marks and is closed under includers, hence (with NeverOvermarks) the least such set"),
    ob(_AN, "init", "IndInvQ", init="Init", length=0, cinit="ConstInitSmall"),
    ob(_AN, "step", "IndInvQ", init="IndInitQ", length=1, cinit="ConstInitSmall",
       what="the invariant with the quantification over ALL closed subsets inside (<= 5 templates, <= 8 edges)"),
    ob(_AN, "implies", "ResultIsLeastClosure", init="IndInitQ", length=0, cinit="ConstInitSmall",
       what="empty worklist: marked = the least closed set (Analyze!LfpR of flagged + earlier marks), stated directly"),
    ob(_AN, "step", "IndInv", init="IndInit", length=1, cinit="ConstInitDev", expect="failed",
       what="vacuity guard: deviation MarkedNotReseeded (earlier marks are no propagation sources)"),
    ob(_AN, "implies", "NoInterestingState", init="IndInit", length=0, cinit="ConstInit", expect="failed",
       what="vacuity guard: IndInit admits a state in the middle of a propagation with work left"),
]


def run_one(o: dict, timeout: int | None = None) -> dict:
    """One apalache-mc run under a timeout in a scratch directory (out-dir, TMPDIR and the SANY
    directory all live there and are removed)."""
    timeout = o.get("timeout") or timeout or TIMEOUT
    t0 = time.time()
    with Scratch("apalache-") as sc:
        cmd = [APALACHE, "check", f"--init={o['init']}", f"--inv={o['invariant']}", f"--length={o['length']}",
               f"--out-dir={sc / 'out'}"]
        if o.get("cinit"):
            cmd.append(f"--cinit={o['cinit']}")
        if o.get("next"):
            cmd.append(f"--next={o['next']}")
        work = sc / "spec"
        work.mkdir()
        shutil.copy(SPEC / (o["module"] + ".tla"), work)
        for d in o.get("deps") or []:
            shutil.copy(common.SPEC / d, work)
        cmd.append(str(work / (o["module"] + ".tla")))
        env = dict(os.environ)
        env["TMPDIR"] = str(sc)
        env.setdefault("JVM_ARGS", "-Xmx4g")
        try:
            p = subprocess.run(cmd, cwd=str(sc), env=env, capture_output=True, text=True, timeout=timeout)
            out = p.stdout + p.stderr
            if os.environ.get("VERIF_APALACHE_SHOW"):     # while building: show the counterexample
                for f in sorted((sc / "out").rglob("violation1.tla")):
                    t = f.read_text()
                    sys.stderr.write(f"--- {o['module']} {o['obligation']} {o['invariant']} {o.get('cinit')}\n" + t[t.find("State0 =="):][:6000] + "\n")
        except subprocess.TimeoutExpired:
            out = None
    rec = {k: o[k] for k in ("module", "obligation", "invariant", "init", "cinit", "expect") if o.get(k) is not None}
    if o.get("deps"):
        rec["instances"] = o["deps"]
    if o.get("what"):
        rec["what"] = o["what"]
    rec["seconds"] = round(time.time() - t0, 1)
    if out is None:
        rec["result"] = "timeout"
    elif "The outcome is: NoError" in out:
        rec["result"] = "proved"
    elif "The outcome is: Error" in out and re.search(r"invariant \d+ violated|Found \d+ error", out):
        rec["result"] = "failed"
    else:
        sys.stderr.write(out[-3000:] + "\n")
        raise common.TLCError(f"Apalache did not produce a verdict on {o['module']} {o['obligation']} {o['invariant']}")
    return rec


def run_plan(plan: list[dict], timeout: int | None = None, parallel: int | None = None) -> list[dict]:
    with ThreadPoolExecutor(max_workers=parallel or PARALLEL) as ex:
        return list(ex.map(lambda o: run_one(o, timeout), plan))


def version() -> str:
    with Scratch("apalache-") as sc:
        env = dict(os.environ)
        env["TMPDIR"] = str(sc)
        try:
            p = subprocess.run([APALACHE, "version"], cwd=str(sc), env=env, capture_output=True, text=True, timeout=300)
        except (OSError, subprocess.TimeoutExpired):
            return "?"
    return (p.stdout.strip().splitlines() or ["?"])[-1]


def extend(o, tier: str, pid: str) -> None:
    if tier != "thorough" or pid not in PLAN:
        return
    t0 = time.time()
    recs = run_plan(PLAN[pid])
    o.extra["inductive"] = recs
    o.extra["inductive_engine"] = {
        "tool": "apalache-mc " + version(),
        "wall_s": round(time.time() - t0, 1),
        "claim": "model level (typed abstractions in spec/apalache/): inductive invariants, unbounded in the number of "
                 "steps, for the sizes in the modules' ConstInit / IndInit; binding to the code is by the G / V directions",
    }
    o.assumptions = list(o.assumptions) + ["inductive engine: Apalache's SMT encoding and Z3 are trusted for the obligations listed in coverage.inductive"]
    bad = [r for r in recs if r["result"] != "timeout" and r["result"] != r["expect"]]
    if bad:
        raise common.TLCError("inductive obligations changed their verdict: " + "; ".join(
            f"{r['module']} {r['obligation']} {r['invariant']} expected {r['expect']} got {r['result']}" for r in bad))


if __name__ == "__main__":
    pid = sys.argv[1]
    tmo = int(sys.argv[2]) if len(sys.argv) > 2 else None
    sel = sys.argv[3] if len(sys.argv) > 3 else ""
    plan = [p for p in PLAN[pid] if sel in f"{p['module']}:{p['obligation']}:{p['invariant']}:{p['init']}:{p['cinit']}"]
    t0 = time.time()
    for r in run_plan(plan, tmo):
        print(r, flush=True)
    print("wall", round(time.time() - t0, 1), version())
