"""C01 — parse() is total and always returns a well-formed tree.

M  TLC (MC_Parser): for every chunk sequence of the bounded universes (balanced or not) the
   transcribed token machine of spec/Parser.tla never gets stuck (dispatch totality), its
   terminal tree satisfies WellFormed (spec/WikiTree.tla) and no open-node state is left.
   Besides the chunk universes (every sequence of <= 3..5 chunks) there are line universes
   ("nest*"): documents of 3-4 whole lines, each a list prefix of depth 0..3 and a body that
   opens an HTML element and leaves it open, closes one at the line start / in running text,
   or starts / continues / ends a table -- list depth changing while a container opened inside
   a list item is still open (stacks ROOT > LIST > LIST_ITEM > HTML (> TABLE) > LIST > LIST_ITEM).
G  every TLC-enumerated chunk sequence is concretised (1-3 spellings per chunk) and parsed by
   the real ctx.parse() three ways (plain, expand_all, pre_expand over a small template
   library): no exception, ROOT, parser stack and mode flags clean; the dumped real tree is
   validated by TLC against WellFormed.  The machine's predicted tree is compared as DRIFT.
G' tag-token universes (round 8, spec/TagToken.tla + Gen_Parser "tagtok*"): the INSIDE of one tag token
   varies character by character (unquoted values with "=", quotes, backtick, "/", "<", punctuation, doubled
   "=", missing values, odd attribute names, blanks / a newline inside the tag, mismatched quotes; start and
   end tags) in running text, a list item, a table cell and a heading line.  TLC checks the consistency law
   "every string the tokenizer's tag patterns accept is accepted by tag_fn's start- or end-tag pattern" on
   every candidate and MachineOK on the token sequence; the real parse() must not raise, the tree must be
   well-formed (VIOLATION); tree and tokenizer decision are compared with the model's as DRIFT.
G'' url-part universe (round 9, spec/ExtUrl.tla + Gen_ExtUrl): the URL PART of an external link [url] / [url label]
   varies atom by atom (port, query / fragment directly after the host, IPv6 brackets, userinfo, percent escape,
   trailing punctuation, nowiki / template call / argument reference / inner bracket) in running text, a list item,
   a table cell and a template argument.  TLC predicts the merged first argument of the URL node (no two adjacent
   strings: ExtUrlOK on every case); the real trees are judged by WellFormed - which since this round also demands
   "no two adjacent strings" INSIDE argument fields (VIOLATION) - and the predicted first argument is compared as DRIFT.
V  seeded random token soups over the full concrete token alphabet, grammar documents,
   nested line documents (3-8 lines, list depth moving line by line around elements that
   stay open across lines), byte/token mutations of the real pages tests/*.txt and a nesting ladder (1..100) are
   parsed three ways; every result tree is dumped structurally (harness/parsetree.py),
   de-duplicated by shape, and the batch is validated BY TLC against the same WellFormed
   operator (Trace_WikiTree).  "No exception", ROOT, empty parser_stack and reset mode flags
   are checked by the harness on every single parse.
"""
from __future__ import annotations

import hashlib
import json
import random
import re
import sys
import time
from concurrent.futures import ThreadPoolExecutor
from pathlib import Path

import common
import parsetree as pt
from common import Outcome, Scratch, pmap, tlc

PID = "C01"
RECLIMIT = sys.getrecursionlimit()
BATCH = 150000
PARSE_LIMIT_S = 5.0     # a parse that takes longer is recorded as "not judged" (slow, not wrong)
DEV_PRE = "PreParseLeftSet"
DEV_TITLE = "HeadingTitleLost"

# ---------------------------------------------------------------------------
# the full concrete token alphabet
# ---------------------------------------------------------------------------
BASE_TOKENS = [
    # apostrophe runs
    "''", "'''", "'''''", "''''", "'",
    # newlines / blanks (also the "[ \t]+\n*" token)
    "\n", "\n", "\n\n", " ", " ", "\t", "  ", " \n", "\r\n",
    # table tokens
    "{|", "|}", "{||", "|+", "|-", "!!", "!", "||", "|", "\n|", "\n!", "\n{|", "\n|}", "\n|-", "\n|+", "\n |", "\n {|",
    # rules, list markers, colon
    "----", "-----", "\n----", "*", "#", ":", ";", "**", "*#", "#:", ";:", "*:", "\n*", "\n#", "\n;", "\n:", "\n**", "\n*#",
    # headings
    "=", "==", "===", "====", "=====", "======", "=======", "\n==", "==\n", "\n== h ==\n", "\n=== h ==\n", "\n= =\n",
    # braces, brackets
    "{{", "}}", "{{{", "}}}", "[[", "]]", "[", "]", "{", "}", "{{{{", "}}}}", "[[[", "]]]", "-{", "}-",
    # urls
    "http://x.org", "https://x.org/p?q=1", " http://y.z/a.", "[http://x.org t]", "[//x.org]", "[mailto:a@b c]", "//x.org",
    "ftp://x", "[x y]",
    # << >>
    "<<x>>", "<<>>", "<<a/b>>", "<", ">", "</", "/>", "<=", ">=",
    # nowiki, comments, pre
    "<nowiki>", "</nowiki>", "<nowiki/>", "<nowiki />", "<NOWIKI>", "<!--", "-->", "<!-- c -->", "<nowiki></nowiki>", "<!---->",
    "<pre>", "</pre>", "<pre/>", "<PRE class=\"x\">", "</pre >", "<pre\n>",
    # magic words
    "__NOTOC__", "__TOC__", "__NOEDITSECTION__", "__FOO__", "__notoc__",
    # template-ish fragments
    "{{t}}", "{{d|x}}", "{{d|1=", "{{tb}}", "{{te}}", "{{row|a}}", "{{li}}", "{{b|z}}", "{{sp}}", "{{nl}}", "{{eq}}",
    "{{pipe}}", "{{loop}}", "{{nest}}", "{{PAGENAME}}", "{{#if:x|y|z}}", "{{#if:", "{{#switch:a|a=1}}", "{{!}}", "{{=}}",
    "{{{1}}}", "{{{1|d}}}", "{{{", "{{#tag:ref|x}}", "{{#if|", "{{PAGENAME|", "|=", "|1=", "{{subst:t}}", "{{:Page}}", "{{t|", "|x=", "{{t\n|a\n}}",
    # links
    "[[L]]", "[[L|t]]", "[[File:a.png|thumb|c]]", "[[L]]s", "[[#a|]]", "[[ ]]", "[[L|", "[[Category:c]]",
    # words / text / entities / unicode
    "w", "foo", "a=b", "x", "class=\"c\"", "style='s'", "1", "&amp;", "&lbrace;", "&#91;", "&", "é", "日本", "‎", " ",
    "\U0001F600", "﻿", "\x0b", "\\", "\"", "`", "~~~~", "ISBN 1", "RFC 1",
    # characters that str.isdigit()/isnumeric() accept but int() does not (and decimal digits of other scripts)
    "\u00b2", "|\u00b2=", "\u2460=", "|\u0663=", "\uff12", "\u00bd",
]

TAG_ATTRS = ["", " class=\"c\"", " a=b c='d' e", " style=\"x:y\"", " name=n", " /", "/"]


def html_tokens():
    """Start / end / self-closing forms of every tag of ALLOWED_HTML_TAGS plus unknown and odd ones."""
    common.use_repo()
    from wikitextprocessor.wikihtml import ALLOWED_HTML_TAGS

    toks = []
    for k in sorted(ALLOWED_HTML_TAGS):
        toks += [f"<{k}>", f"</{k}>", f"<{k}/>", f"<{k} class=\"c\">"]
    toks += ["<foo>", "</foo>", "<foo/>", "<1>", "</1>", "<br>", "<br/>", "</br>", "<BR>", "<hr>", "</hr>", "</wbr>",
             "<section begin=x/>", "</section>", "<noinclude/>", "<noinclude>", "</noinclude>", "<includeonly>",
             "</includeonly>", "<onlyinclude>", "</onlyinclude>", "<ref name=\"a\"/>", "<ref name=a>", "</ref>",
             "<span\nclass='q'>", "<div style=\"a'b\">", "</span >", "< span>", "<span", "span>", "<li>", "</li>",
             "<td>", "<tr>", "<th>", "<table>", "</table>", "<p>", "</p>", "<math>", "</math>", "<gallery>",
             "</gallery>", "<h2>", "</h2>", "<dl>", "<dt>", "<dd>", "<ol>", "<ul>", "</ul>", "</ol>", "<sub>", "<sup>",
             "<s>", "<u>", "<i>", "<b>", "</i>", "</b>", "<tt>", "<small>", "<big>", "<center>", "<blockquote>",
             "</blockquote>", "<code>", "<var>", "<ruby>", "<rt>", "<rp>", "<rb>", "<templatestyles src=\"x\"/>"]
    return toks


def soup(rng, base, html, maxlen=40):
    n = rng.randint(1, maxlen)
    out = []
    # a soup draws from a small random sub-alphabet most of the time, so that interactions
    # of a few constructs are explored deeply
    if rng.random() < 0.7:
        k = rng.randint(2, 9)
        sub = [rng.choice(base) if rng.random() < 0.75 else rng.choice(html) for _ in range(k)] + ["\n", " ", "w"]
        for _ in range(n):
            out.append(rng.choice(sub))
    else:
        for _ in range(n):
            out.append(rng.choice(base) if rng.random() < 0.7 else rng.choice(html))
    return "".join(out)


# ---------------------------------------------------------------------------
# grammar documents
# ---------------------------------------------------------------------------

def grammar_doc(rng, depth=3):
    def inline(d):
        c = rng.random()
        if d <= 0 or c < 0.3:
            return rng.choice(["word", "two words", "a=b", "x:y", "1 - 2", "it's"])
        if c < 0.4:
            return "''" + inline(d - 1) + "''"
        if c < 0.5:
            return "'''" + inline(d - 1) + "'''"
        if c < 0.6:
            return "[[" + rng.choice(["L", "L|" + inline(d - 1), "File:x.png|thumb|" + inline(d - 1)]) + "]]"
        if c < 0.7:
            return "{{" + rng.choice(["t", "d|" + inline(d - 1), "d|k=" + inline(d - 1), "#if:" + inline(d - 1) + "|y|n"]) + "}}"
        if c < 0.8:
            t = rng.choice(["span", "b", "i", "sup", "ref", "small", "div", "code"])
            return f"<{t}>" + inline(d - 1) + f"</{t}>"
        if c < 0.85:
            return "[http://x.org " + inline(d - 1) + "]"
        if c < 0.9:
            return "<nowiki>" + rng.choice(["''x''", "== h ==", "{{t}}", "|", ""]) + "</nowiki>"
        return inline(d - 1) + " " + inline(d - 1)

    def block(d):
        c = rng.random()
        if c < 0.2:
            l = rng.randint(1, 6)
            return "=" * l + " " + inline(d) + " " + "=" * l
        if c < 0.45:
            p = "".join(rng.choice("*#:;") for _ in range(rng.randint(1, 4)))
            return "\n".join(p[: rng.randint(1, len(p))] + " " + inline(d) for _ in range(rng.randint(1, 4)))
        if c < 0.5:
            return "----"
        if c < 0.65 and d > 0:
            rows = []
            for _ in range(rng.randint(1, 3)):
                cells = [rng.choice(["| ", "! ", "| a=b | "]) + (block(d - 1) if rng.random() < 0.15 else inline(d - 1))
                         for _ in range(rng.randint(1, 3))]
                rows.append("|-\n" + ("\n".join(cells) if rng.random() < 0.5 else " || ".join(cells)))
            return "{|" + rng.choice(["", " class=\"t\""]) + "\n" + rng.choice(["", "|+ cap\n"]) + "\n".join(rows) + "\n|}"
        if c < 0.7:
            return "<pre>\n" + inline(d) + "\n== x ==\n</pre>"
        if c < 0.75:
            return " " + inline(d)
        if c < 0.8 and d > 0:
            return "<div>\n" + block(d - 1) + "\n</div>"
        if c < 0.85:
            return "; term : " + inline(d)
        return inline(d) + "\n" + inline(d)

    return "\n".join(block(depth) for _ in range(rng.randint(1, 6))) + rng.choice(["", "\n"])


# ---------------------------------------------------------------------------
# leaves that contribute NO text, as the only / first / last content of every kind of container
# (what the tokenizer hands on as an empty string must not survive as a child or an argument part)
# ---------------------------------------------------------------------------
EMPTY_LEAVES = ["<nowiki></nowiki>", "<NOWIKI></NOWIKI>", "<nowiki/>", "<!---->", "<!-- c -->", "<noinclude></noinclude>",
                "<includeonly></includeonly>", "<onlyinclude></onlyinclude>", "<nowiki></nowiki><nowiki></nowiki>"]
CONTAINERS = ["@", "''@''", "'''@'''", "'''''@'''''", "<b>@</b>", "<span class=\"c\">@</span>", "<div>@</div>", "<ref>@</ref>",
              "<ul><li>@</li></ul>", "<sup>@", "[[p|@]]", "[[@]]", "[[p|a|@]]", "[http://x.org @]", "[@]", "{{t|@}}", "{{t|@|b}}",
              "{{t|k=@}}", "{{@}}", "{{#if:@|y|n}}", "{{#if:x|@}}", "{{{1|@}}}", "{{{@}}}", "=@=", "==@==", "=== @ ===", "======@======",
              "*@", "* @", "#@", ":@", ";@", ";@:@", "; t : @", "*#@", "{|\n|@\n|}", "{|\n!@\n|}", "{|\n|+@\n|}", "{|\n|a||@\n|}",
              "{|\n|-\n|@||b\n|}", "{| @\n|}", "<pre>@</pre>", " @", " a\n @", "----@", "__NOTOC__@", "<br>@", "http://x.org@"]


def empty_leaf_docs():
    out = []
    for c in CONTAINERS:
        for e in EMPTY_LEAVES:
            for filler in (e, "w" + e, e + "w", e + "\n", "\n" + e, e + " " + e):
                out.append(c.replace("@", filler))
                out.append("w\n" + c.replace("@", filler) + "\nw")
    return out


# ---------------------------------------------------------------------------
# nested line documents (the random, deeper companion of the "nest*" universes of Gen_Parser)
# ---------------------------------------------------------------------------
NEST_TAGS = ["span", "ref", "div", "small", "b", "i", "sup", "ul", "li", "table", "tr", "td", "blockquote", "p", "center"]
NEST_LEAVES = ["w", "two words", "a=b", "{{t}}", "{{d|x}}", "[[L]]", "[[L|t]]", "''", "'''", "<nowiki/>", "<br>",
               "[http://x.org t]", "{{li}}", "{{sp}}", "{{tb}}", "{{te}}", "{{nl}}", ":", ";"]
NEST_BOL = ["{|", "|}", "|-", "| c", "! h", "|+ cap", "----", "== h ==", " pre", "<pre>", "</pre>", "{{t\n|a}}", ""]


def nested_doc(rng):
    """3..8 lines; each line a list prefix whose depth moves relative to the line before (same /
    deeper / shallower / none) and a body that opens elements and leaves them open, closes elements
    (possibly ones opened lines ago, inside an outer item) at the line start or in running text, or
    starts / ends a table."""
    tags = rng.sample(NEST_TAGS, rng.randint(1, 3))
    marks = rng.choice(["*", "*", "#", ":", "*#", "*:", ";:", "*#:;"])
    prefix = ""
    open_tags = []
    lines = []
    for _ in range(rng.randint(3, 8)):
        c = rng.random()
        if c < 0.3:
            prefix = prefix + rng.choice(marks)
        elif c < 0.5:
            prefix = prefix[:-1]
        elif c < 0.6:
            prefix = ""
        elif c < 0.7:
            prefix = "".join(rng.choice(marks) for _ in range(rng.randint(1, 3)))
        prefix = prefix[:5]
        body = []
        c = rng.random()
        if c < 0.35:                      # an end tag as the first token after the prefix
            t = rng.choice(open_tags) if open_tags and rng.random() < 0.8 else rng.choice(tags)
            body.append(f"</{t}>")
            if t in open_tags:
                open_tags.remove(t)
        elif c < 0.5:
            body.append(rng.choice(NEST_BOL))
        for _ in range(rng.randint(0, 3)):
            c = rng.random()
            if c < 0.4:
                body.append(rng.choice(NEST_LEAVES))
            elif c < 0.75:
                t = rng.choice(tags)
                body.append(f"<{t}>")
                open_tags.append(t)
            else:
                t = rng.choice(open_tags) if open_tags and rng.random() < 0.7 else rng.choice(tags)
                body.append(f"</{t}>")
                if t in open_tags:
                    open_tags.remove(t)
        # a line that begins with an end tag mostly comes without a list prefix (the end tag is then
        # the first token of the line)
        use_prefix = "" if body and body[0].startswith("</") and rng.random() < 0.6 else prefix
        lines.append(use_prefix + (" " if use_prefix and rng.random() < 0.5 else "") + rng.choice(["", " "]).join(body))
    return "\n".join(lines) + rng.choice(["", "\n"])


# ---------------------------------------------------------------------------
# nesting ladder
# ---------------------------------------------------------------------------

# shrunk witnesses of everything the soups have found so far (kept so that the quick tier sees them too)
WITNESSES = [
    "{{#if||={{]}}}}", "{{#if||={{a}}}}", "{{#if||1=x}}", "{{PAGENAME||=[[x]]}}", "{{#expr||=''x''}}",
    "==<pre>==", "={{\n}}=", "==[[L\n|x]]==", "{|\n=|=", "{|\n=!!=", "<ref>\n=</ref>=", "<div>\n=</div>=",
    "'''\n='''=", "''\n=''=", "<span>''\n=</span>=", "<pre>", "* <pre>\nx", "== a <pre> ==\nb\n",
    # subtitle_end_fn must not give a second title argument to a node that already has one (thorough soups)
    "= =w==", "== =w===\nx",
]


def ladder():
    docs = list(WITNESSES)
    for n in list(range(1, 21)) + [25, 30, 40, 50, 60, 75, 90, 100]:
        docs += [
            "{{t|" * n + "x" + "}}" * n,
            "{{{a|" * n + "x" + "}}}" * n,
            "{{d|" * n + "x",                       # unclosed
            "[[a|" * n + "x" + "]]" * n,
            "[[File:f.png|" * n + "x" + "]]" * n,
            "\n".join("*" * k + " i" for k in range(1, n + 1)),
            "\n".join("#" * k + ":" + " i" for k in range(1, n + 1)),
            ";" * n + " t : d",
            "<div>" * n + "x" + "</div>" * n,
            "<span>" * n + "x",                     # unclosed
            "<ref>" * n + "x" + "</ref>" * n,
            "<ul><li>" * n + "x" + "</li></ul>" * n,
            "{|\n|\n" * n + "x\n" + "|}\n" * n,
            "{|\n|\n" * n + "x\n",                  # unclosed
            "''a '''b " * n + "x" + "''' ''" * n,
            "=" * min(n, 6) + " h " + "=" * min(n, 6) + "\n" + "\n".join("=" * (k % 6 + 1) + " s " + "=" * (k % 6 + 1) for k in range(n)),
            # composite ladders: four constructs per rung, total nesting depth <= 100
            "".join("{{t|[[L|<span>''" for _ in range((n + 3) // 4)) + "x" + "".join("''</span>]]}}" for _ in range((n + 3) // 4)),
            "".join("{|\n|\n* <div>{{d|" for _ in range((n + 3) // 4)) + "x" + "".join("}}</div>\n|}\n" for _ in range((n + 3) // 4)),
            "[http://x.org " * n + "x" + "]" * n,
            "<pre>" * n + "x" + "</pre>" * n,
            "<nowiki>" * n + "x" + "</nowiki>" * n,
            "{{#if:" * n + "x" + "|y}}" * n,
        ]
    # call heads x argument-name shapes (names that look numeric to one string predicate but not to
    # another, padded, negative, empty) x surroundings: argument fields must keep their documented shape
    heads = ["{{t", "{{#if:x", "{{#if", "{{#switch:{{{1}}}", "{{lc", "{{PAGENAME", "{{#expr", "{{{a", "[[L", "{{subst:t"]
    names = ["1", "01", "0", "-1", " 2 ", "\u00b2", "\u2460", "\u0663", "\uff12", "\u00bd", "x", "", "1=2"]
    for h in heads:
        for nm in names:
            close = "}}}" if h.startswith("{{{") else "]]" if h.startswith("[[") else "}}"
            docs += [f"{h}|{nm}=v{close}", f"* i {h}|a=1|{nm}=q{close} t", f"{h}|{nm}=[[x]]|{nm}=''y''{close}"]
    return docs


# ---------------------------------------------------------------------------
# mutations of real pages
# ---------------------------------------------------------------------------
SPLIT_RE = re.compile(r"('{2,}|\n|\{\{\{?|\}\}\}?|\[\[?|\]\]?|\{\||\|\}|\|[-+]|\|\|?|!!?|<!--|-->|</?[a-zA-Z]+[^<>\n]*>|={1,6}|[*#:;]+|----+| +)")


def page_texts():
    d = common.REPO / "tests"
    return {f: (d / f).read_text() for f in ("Babel.txt", "animal.txt", "fi-gradation.txt") if (d / f).exists()}


def mutations(rng, text, n, base, html):
    toks = [t for t in SPLIT_RE.split(text) if t]
    out = []
    for _ in range(n):
        c = rng.random()
        if c < 0.25:          # delete a token / a span of tokens
            i = rng.randrange(len(toks))
            j = i + (1 if rng.random() < 0.7 else rng.randint(1, 30))
            out.append("".join(toks[:i] + toks[j:]))
        elif c < 0.45:        # insert a token from the alphabet
            i = rng.randrange(len(toks))
            ins = rng.choice(base) if rng.random() < 0.7 else rng.choice(html)
            out.append("".join(toks[:i] + [ins] + toks[i:]))
        elif c < 0.6:         # swap two tokens
            i, j = rng.randrange(len(toks)), rng.randrange(len(toks))
            t2 = list(toks)
            t2[i], t2[j] = t2[j], t2[i]
            out.append("".join(t2))
        elif c < 0.7:         # duplicate a token
            i = rng.randrange(len(toks))
            out.append("".join(toks[:i] + [toks[i]] + toks[i:]))
        elif c < 0.8:         # truncate / take a window
            i = rng.randrange(len(text))
            out.append(text[:i] if rng.random() < 0.5 else text[i: i + rng.randint(1, 3000)])
        elif c < 0.9:         # byte mutation
            i = rng.randrange(len(text))
            ch = rng.choice("'{}[]|!=<>*#:;\n -/&")
            out.append(text[:i] + ch + text[i + (1 if rng.random() < 0.5 else 0):])
        else:                 # several edits at once
            t2 = list(toks)
            for _ in range(rng.randint(2, 6)):
                i = rng.randrange(len(t2))
                if rng.random() < 0.5:
                    del t2[i]
                else:
                    t2.insert(i, rng.choice(base))
            out.append("".join(t2))
    return out


# ---------------------------------------------------------------------------
# running the real parser
# ---------------------------------------------------------------------------
SLICE_LIMIT = 4000       # trees whose shape key is longer are cut into one-level slices


DEPTH_LIMIT = 50         # ... or deeper (the JSON reader of TLC has a nesting limit of 255)


def depth_of(d) -> int:
    best = 0
    stack = [(d, 1)]
    while stack:
        n, k = stack.pop()
        best = max(best, k)
        for lst in [n["ch"], n["def"]] + n["largs"]:
            for c in lst:
                if "k" in c:
                    stack.append((c, k + 1))
    return best


def slices(d, parent_kind="NONE", out=None):
    """Cut a dumped tree into one-level slices: every node with its child nodes replaced by
    stubs [k, stub]; yields (parent kind, slice)."""
    out = [] if out is None else out

    def cut_list(lst, pk):
        res = []
        for c in lst:
            if "k" in c:
                slices(c, pk, out)
                res.append({"k": c["k"], "stub": True})
            else:
                res.append(c)
        return res

    me = dict(d)
    me["largs"] = [cut_list(a, d["k"]) for a in d["largs"]]
    me["ch"] = cut_list(d["ch"], d["k"])
    me["def"] = cut_list(d["def"], d["k"])
    out.append((parent_kind, me))
    return out


def raise_site(ctx, text, mode) -> str:
    """Where a failing parse raises: innermost frame of the traceback (diagnostic text for the
    report only; no verdict depends on it)."""
    import traceback
    try:
        ctx.start_page("Pg")
        ctx.pre_parse, ctx.begline_disable_counter, ctx.begline_enabled, ctx.parser_stack = False, 0, True, []
        with pt.time_limit(PARSE_LIMIT_S):
            ctx.parse(text, **pt.MODES[mode])
    except pt.SlowParse:
        return ""
    except Exception as e:  # noqa: BLE001
        tb = traceback.extract_tb(e.__traceback__)
        if tb:
            return " [raised in %s:%s(), statement `%s`]" % (Path(tb[-1].filename).name, tb[-1].name, (tb[-1].line or "")[:80])
    return ""


def run_docs(chunk):
    """chunk: list of (doc id, text, want_model).  Returns records
         ("res", doc id, mode, error, flags, shape-kinds>=2)   one per parse
         ("tree", key, pk, json, doc id, mode)                 one per distinct whole tree / slice of this chunk
         ("model", doc id, json)                               plain-mode tree in the machine's vocabulary
    Dumping, cutting big trees into slices and de-duplication happen here, in the worker."""
    common.use_repo()
    out = []
    seen = set()
    with Scratch("c01-") as d:
        ctx = pt.new_ctx(d, templates=True)
        try:
            for did, text, want_model in chunk:
                for mode in pt.MODES:
                    root, err, flags = pt.parse(ctx, text, mode, limit=PARSE_LIMIT_S)
                    if root is None:
                        if err != "TIMEOUT" and not err.startswith("RecursionError"):
                            err += raise_site(ctx, text, mode)
                        out.append(("res", did, mode, err, flags, False))
                        if err == "TIMEOUT":
                            break                  # not judged; the other modes would be as slow
                        continue
                    if want_model and mode == "plain":
                        out.append(("model", did, json.dumps(pt.dump_model(root))))
                    # (the parse itself ran under the interpreter's default recursion limit;
                    # only the harness-side dumping of deep trees gets more room)
                    sys.setrecursionlimit(20000)
                    try:
                        dump = pt.dump_wf(root)
                        key = pt.shape_key(dump)
                        out.append(("res", did, mode, None, flags, False))
                        if key in seen:
                            continue
                        seen.add(key)
                        if len(key) <= SLICE_LIMIT and depth_of(dump) <= DEPTH_LIMIT:
                            h = "W" + hashlib.sha1(key.encode()).hexdigest()[:20] + ("+" if len(pt.kinds_in(dump)) >= 2 else "-")
                            out.append(("tree", h, "NONE", json.dumps(dump, separators=(",", ":")), did, mode))
                        else:
                            for pk, sl in slices(dump):
                                k2 = pk + "/" + pt.shape_key(sl)
                                if k2 in seen:
                                    continue
                                seen.add(k2)
                                h = "S" + hashlib.sha1(k2.encode()).hexdigest()[:20]
                                out.append(("tree", h, pk, json.dumps(sl, separators=(",", ":")), did, mode))
                    finally:
                        sys.setrecursionlimit(RECLIMIT)
        finally:
            ctx.close_db_conn()
    return out


def validate_trees(entries):
    """entries: list of (pk, tree-json).  TLC evaluates Faults on every entry; -> (TLCResult, {index: faults})."""
    with Scratch("c01t-") as d:
        tf = d / "trees.json"
        with open(tf, "w") as f:
            f.write("[")
            for n, (pk, tj) in enumerate(entries):
                f.write(("," if n else "") + '{"pk":%s,"t":%s}' % (json.dumps(pk), tj))
            f.write("]")
        cfg = "SPECIFICATION Spec\nINVARIANT Verdict\nCHECK_DEADLOCK FALSE\n"
        r = tlc("Trace_WikiTree", "t.cfg", cfg_text=cfg, workers=1, env={"TRACE_FILE": str(tf)}, timeout=3000)
    v = r.tagged("VERDICT")
    if not v or v[0]["consumed"] != len(entries):
        raise common.TLCError("tree validation incomplete")
    return r, {b["i"] - 1: b["faults"] for b in v[0]["bad"]}


def validate_parallel(o, entries, label, nparts=12):
    if not entries:
        return {}
    nparts = max(1, min(nparts, len(entries) // 2000 + 1))
    parts = [list(range(k, len(entries), nparts)) for k in range(nparts)]
    with ThreadPoolExecutor(nparts) as ex:
        outs = list(ex.map(lambda p: validate_trees([entries[j] for j in p]), parts))
    bad = {}
    for p, (r, b) in zip(parts, outs):
        o.add_tlc(label, r)
        for j, faults in b.items():
            bad[p[j]] = faults
    return bad


def check_batch(o: Outcome, docs, origin, want_model=frozenset()):
    """docs: list of texts.  Runs the real parser three ways on each, checks the harness-side
    observables, has TLC validate the distinct tree shapes.  Returns {doc id: machine-vocabulary
    dump of the plain-mode tree} for the ids in want_model."""
    models = {}
    trees = {}          # hash key -> (pk, json, doc id, mode); compact strings only
    # bounded memory: the real parser runs over the inputs in batches; the distinct tree shapes
    # of all batches are validated together afterwards
    for start in range(0, len(docs), BATCH):
        items = [(i, docs[i], i in want_model) for i in range(start, min(start + BATCH, len(docs)))]
        results = pmap(run_docs, items)
        collect(o, docs, origin, results, models, trees)
        del results
    return finish_batch(o, docs, origin, models, trees)


PER_CLASS_CAP = 200
_seen_cls: dict = {}


def capped(o, cls) -> bool:
    """True if this class already has PER_CLASS_CAP recorded cases (further ones are only counted)."""
    n = _seen_cls.get(cls, 0) + 1
    _seen_cls[cls] = n
    if n > PER_CLASS_CAP:
        o.extra.setdefault("cases_counted_but_not_listed", {})[cls] = n - PER_CLASS_CAP
        return True
    return False


def collect(o, docs, origin, results, models, trees):
    for rec in results:
        if rec[0] == "model":
            models[rec[1]] = json.loads(rec[2])
            continue
        if rec[0] == "tree":
            _, h, pk, tj, did, mode = rec
            if h not in trees:
                trees[h] = (pk, tj, did, mode)
            continue
        _, did, mode, err, flags, _ = rec
        o.evaluations += 1
        text = docs[did]
        if err == "TIMEOUT":
            # slow, not wrong: parse() did not return within the limit (see notes/C01.md, cubic link regex)
            slow = o.extra.setdefault("parses_over_time_limit_not_judged", {"limit_s": PARSE_LIMIT_S, "count": 0, "examples": []})
            slow["count"] += 1
            if len(slow["examples"]) < 3:
                slow["examples"].append({"origin": origin, "mode": mode, "text_len": len(text), "text_head": text[:200]})
            continue
        if err is not None:
            if not capped(o, "exception:" + err.split(":")[0]):
                why = f"parse(..., {mode}) raised {err}"
                if origin.startswith("G:"):
                    why += ("; the specification's machine (Gen_Parser, MachineOK checked by TLC on this very chunk "
                            "sequence) parses the input to a well-formed ROOT without getting stuck")
                why += _G_NOTE.get(text, "")
                o.violation({"origin": origin, "mode": mode, "text": text, "error": err}, why,
                            cls="exception:" + err.split(":")[0])
            continue
        if flags != pt.CLEAN_FLAGS:
            case = {"origin": origin, "mode": mode, "text": text, "flags": flags}
            only_pre = {k: v for k, v in flags.items() if v != pt.CLEAN_FLAGS[k]} == {"pre_parse": True}
            why = f"parser state left behind after parse(): {flags}"
            if only_pre:
                if not capped(o, "pre_parse-left-set"):
                    o.classify(case, why, [DEV_PRE], cls="pre_parse-left-set")
            elif not capped(o, "state-left-behind"):
                o.violation(case, why, cls="state-left-behind")


def finish_batch(o, docs, origin, models, trees):
    o.traces += len(docs)
    keys = list(trees)
    bad = validate_parallel(o, [(trees[k][0], trees[k][1]) for k in keys], "Trace_WikiTree")
    nwhole = nslice = 0
    for k in keys:
        if k[0] == "W":
            nwhole += 1
            if k.endswith("+"):
                o.shape(k)
        else:
            nslice += 1
    for j, faults in bad.items():
        pk, tj, did, mode = trees[keys[j]]
        report_faults(o, origin + ("" if pk == "NONE" else "/slice"), docs[did], mode, faults, tj)
    o.extra.setdefault("distinct_tree_shapes", {})[origin] = {"whole": nwhole, "slices": nslice}
    return models


# faults that a listed deviation of the model produces (fault names come from TLC)
FAULT_DEVIATION = {"LEVEL-args-not-[title]": DEV_TITLE}


def report_faults(o, origin, text, mode, faults, dump):
    faults = sorted(faults)
    case = {"origin": origin, "mode": mode, "text": text[:3000], "faults": faults,
            "tree": dump[:1500]}
    why = f"tree returned by parse(..., {mode}) is not well-formed: {', '.join(faults)}" + _WF_NOTE.get(text, "")
    if capped(o, "wf:" + ",".join(faults)):
        return
    if all(f in FAULT_DEVIATION for f in faults):
        o.classify(case, why, sorted({FAULT_DEVIATION[f] for f in faults}), cls="wf:" + ",".join(faults))
    else:
        o.violation(case, why, cls="wf:" + ",".join(faults))


# ---------------------------------------------------------------------------

def make_v_docs(tier, rng):
    base = BASE_TOKENS
    html = html_tokens()
    thorough = tier == "thorough"
    n_soup = 500000 if thorough else 20000
    docs = {"soup": [soup(rng, base, html) for _ in range(n_soup)],
            "grammar": [grammar_doc(rng, rng.randint(1, 4)) for _ in range(20000 if thorough else 1500)],
            "ladder": ladder()}
    muts = []
    for name, text in sorted(page_texts().items()):
        muts.append(text)
        muts += mutations(rng, text, 3000 if thorough else 100, base, html)
    docs["mutation"] = muts
    # (own generator: the other families keep the inputs they had before this one was added)
    rng2 = random.Random(common.seed() * 32452843 + 7)
    docs["nested"] = [nested_doc(rng2) for _ in range(150000 if thorough else 2500)]
    docs["emptyleaf"] = empty_leaf_docs()
    return docs


# ---------------------------------------------------------------------------
# M + G
# ---------------------------------------------------------------------------

# a bare URL swallows following non-blank text, a magic word needs word boundaries on both sides
ADJACENCY_RE = re.compile(r"\bURL (?!SP |NL |VB |DVB |TE |TR |TC |TS |ML |MT |MTN |MA |ME |MN |SPAN|ESPAN|PRE|EPRE)\S"
                          r"|\b(W|ATTR|URL|MW|MN) MW\b|\bMW (W|ATTR|URL|MN|MW)\b")


def spellings(doc):
    prim = "".join(pt.SPELL[c][0] for c in doc)
    alts = []
    for v in (1, 2):
        t = "".join(pt.SPELL[c][min(v, len(pt.SPELL[c]) - 1)] for c in doc)
        if t != prim and t not in alts:
            alts.append(t)
    return prim, alts


def run_g(o: Outcome, cfgs, n_alt, stream):
    t0 = time.time()
    with ThreadPoolExecutor(len(cfgs)) as ex:
        rs = list(ex.map(lambda c: tlc("Gen_Parser", c, workers=1, timeout=3000), cfgs))
    o.extra.setdefault("phase_seconds", {})["tlc_gen_parser"] = round(time.time() - t0, 1)
    check_html_table(o, rs[0])
    per_chunk, kinds = {}, {}
    compared = skipped = ncases = 0
    sample = None
    for cfg, r in zip(cfgs, rs):
        o.add_tlc(cfg + " (M: MachineOK on every sequence)", r)
    if stream:
        groups = ((cfg.split("_")[-1].split(".")[0], r) for cfg, r in zip(cfgs, rs))   # one universe at a time (bounded memory)
    else:
        groups = [("all", rs)]
    for cfg, r in groups:
        t1 = time.time()
        if stream:
            cases = [c for c in r.cases if c["doc"]]
            r.out = ""
            line_universe = ["nest" in cfg] * len(cases)
        else:
            cases, line_universe = [], []
            for cf, x in zip(cfgs, r):
                cs = [c for c in x.cases if c["doc"]]
                cases += cs
                line_universe += ["nest" in cf] * len(cs)
        ncases += len(cases)
        for c in cases:
            for ch in set(c["doc"]):
                per_chunk[ch] = per_chunk.get(ch, 0) + 1
        for c in cases[:: max(1, len(cases) // 5000)]:
            for k in set(re.findall(r'"kind": "(\w+)"', json.dumps(c["tree"]))):
                kinds[k] = kinds.get(k, 0) + 1
        docs, prim_of = [], {}
        for ci, c in enumerate(cases):
            prim, alts = spellings(c["doc"])
            prim_of[len(docs)] = ci
            docs.append(prim)
            # the line universes vary the line structure, not the spelling: primary spelling only
            docs += alts[:0 if line_universe[ci] else n_alt]
        models = check_batch(o, docs, "G:" + cfg, want_model=frozenset(prim_of))
        for did, ci in prim_of.items():
            c = cases[ci]
            real = models.get(did)
            if real is None:
                continue
            if ADJACENCY_RE.search(" ".join(c["doc"]) + " "):
                skipped += 1      # the spelling runs two chunks together in a way the tokenizer model does not cover
                continue
            compared += 1
            if real == pt.model_text(c["tree"]) or ("treeA" in c and real == pt.model_text(c["treeA"])):
                continue
            o.note_drift({"chunks": c["doc"], "text": docs[did], "machine_tree": c["tree"], "real_tree": real})
        if sample is None:
            mid = cases[len(cases) // 2]
            sample = {"chunks": mid["doc"], "text": spellings(mid["doc"])[0], "machine_tree": mid["tree"]}
        o.extra["phase_seconds"]["G:" + cfg] = round(time.time() - t1, 1)
        del cases, docs, models
    # (TLC's -coverage runs out of memory on this functional spec; the model has a single action
    # "append one chunk", so coverage is reported per chunk / per node kind instead)
    o.extra["action_coverage"] = {"Next(append chunk)": ncases, "sequences_containing_chunk": per_chunk}
    o.extra["node_kinds_in_machine_trees(sampled)"] = kinds
    o.extra["machine_tree_agreement"] = {"compared": compared, "differ": o.drift_count,
                                         "not_compared_spelling_adjacency": skipped}
    o.sample(sample)


def check_html_table(o: Outcome, r):
    """The tag data transcribed into Parser.tla against the working tree's (DRIFT if they differ)."""
    t = r.tagged("HTMLTABLE")
    if not t:
        raise common.TLCError("Gen_Parser did not print its html table")
    common.use_repo()
    from wikitextprocessor.wikihtml import ALLOWED_HTML_TAGS
    with Scratch("c01h-") as d:
        ctx = pt.new_ctx(d)
        pp = {k: set(v) for k, v in ctx.html_permitted_parents.items()}
        ctx.close_db_conn()
    tags = set(t[0])
    real = {k: {"parents": sorted(pp.get(k, set()) & tags),
                "closenext": sorted(ALLOWED_HTML_TAGS[k].get("close-next", [])),
                "noend": bool(ALLOWED_HTML_TAGS[k].get("no-end-tag"))} for k in tags}
    model = {k: {"parents": sorted(v["parents"]), "closenext": sorted(v["closenext"]), "noend": v["noend"]} for k, v in t[0].items()}
    o.extra["html_table_matches_working_tree"] = (real == model)
    if real != model:
        o.note_drift({"html_table_model": model, "html_table_real": real})


# ---------------------------------------------------------------------------
# G': tag-token universes (spec/TagToken.tla; Gen_Parser universes "tagtok*")
# ---------------------------------------------------------------------------
_G_NOTE: dict = {}       # document text -> what the model says about it (appended to the "why" of an exception)
TAG_ATOM_TEXT = {"NL": "\n", "SP": " "}


def strip_attrs(t):
    """Attribute keys are outside the tag-token model (parse_attrs is a third pattern): compare trees without them."""
    if "s" in t:
        return t
    d = {k: v for k, v in t.items() if k != "attrs"}
    d["largs"] = [[strip_attrs(c) for c in a] for a in t["largs"]]
    d["children"] = [strip_attrs(c) for c in t["children"]]
    if "def" in t:
        d["def"] = [strip_attrs(c) for c in t["def"]]
    return d


def real_tokenizer_accepts(cand):
    """Does the working tree's tokenizer take `cand` as ONE token?  (diagnostic / DRIFT only; None if the
    internals are not where they used to be)"""
    try:
        common.use_repo()
        from wikitextprocessor import parser as P
        m = P.TOKEN_RE_NO_CARET.match(cand)
        return bool(m and m.end() == len(cand))
    except Exception:  # noqa: BLE001
        return None


def start_tagtok(tier):
    cfgs = ["Gen_Parser_Ttagtok.cfg", "Gen_Parser_TtagtokN.cfg"] if tier == "thorough" else ["Gen_Parser_Qtagtok.cfg"]
    ex = ThreadPoolExecutor(len(cfgs))
    return cfgs, ex, [ex.submit(tlc, "Gen_Parser", c, workers=1, timeout=3000) for c in cfgs]


def run_tagtok(o: Outcome, started):
    cfgs, ex, futs = started
    t0 = time.time()
    rs = [f.result() for f in futs]
    ex.shutdown()
    stats = {"cases": 0, "by_class": {}, "law_checked_by_tlc": 0, "tree_compared": 0, "tree_differs": 0,
             "tokenizer_decision_compared": 0, "tokenizer_decision_differs": 0}
    for cfg, r in zip(cfgs, rs):
        o.add_tlc(cfg + " (M: TokenConsistent + MachineOK on every tag string)", r)
        cases = [c for c in r.cases if c["doc"]]
        r.out = ""
        docs = []
        for c in cases:
            text = "".join(TAG_ATOM_TEXT.get(a, a) for a in c["text"])
            docs.append(text)
            stats["by_class"][c["cls"]] = stats["by_class"].get(c["cls"], 0) + 1
            _G_NOTE[text] = ("; spec/TagToken.tla on the candidate %r: the tokenizer's tag patterns %s it, tag_fn's start/end-tag "
                             "patterns %s it (class %s); law TokenConsistent (checked by TLC on this string): every '<...>' "
                             "token the tokenizer yields must be matched by tag_fn's start- or end-tag pattern"
                             % (c["cand"], "accept" if c["tok"] else "do not accept", "accept" if c["fn"] else "do not accept",
                                c["cls"]))
            real = real_tokenizer_accepts(c["cand"])
            if real is not None:
                stats["tokenizer_decision_compared"] += 1
                if real != c["tok"]:
                    stats["tokenizer_decision_differs"] += 1
                    _G_NOTE[text] += ("; the working tree's tokenizer %s this candidate as one token"
                                      % ("TAKES" if real else "does NOT take"))
                    if stats["tokenizer_decision_differs"] <= 20:
                        o.note_drift({"tag_candidate": c["cand"], "model_tokenizer_accepts": c["tok"], "real_tokenizer_accepts": real})
        stats["cases"] += len(cases)
        stats["law_checked_by_tlc"] += len(cases)
        origin = "G:" + cfg.split("_")[-1].split(".")[0]
        models = check_batch(o, docs, origin, want_model=frozenset(range(len(docs))))
        for did, c in enumerate(cases):
            real = models.get(did)
            if real is None:
                continue
            stats["tree_compared"] += 1
            if strip_attrs(real) != strip_attrs(pt.model_text(c["tree"])):
                stats["tree_differs"] += 1
                if stats["tree_differs"] <= 50:
                    o.note_drift({"tag_doc": c["doc"], "text": docs[did], "class": c["cls"], "machine_tree": c["tree"], "real_tree": real})
        if cases:
            mid = next((c for c in cases[len(cases) // 2:] if c["cls"] == "START"), cases[0])
            o.sample({"tag_doc": mid["doc"], "text": "".join(TAG_ATOM_TEXT.get(a, a) for a in mid["text"]), "class": mid["cls"],
                      "machine_tree": mid["tree"]})
        del cases, docs, models
    o.extra["tag_token_universes"] = stats
    o.extra.setdefault("phase_seconds", {})["G:tagtok"] = round(time.time() - t0, 1)


# ---------------------------------------------------------------------------
# G'': the shape of the url part of an external link (round 9, spec/ExtUrl.tla + Gen_ExtUrl)
# ---------------------------------------------------------------------------
_WF_NOTE: dict = {}      # document text -> what the model says about it (appended to the "why" of a well-formedness fault)
# atom -> [primary spelling, alternative spelling]
EXT_SPELL = {"hHOST": ["http://x.org", "http://example.com"], "hPATH": ["https://x.org/p", "http://example.com/w/i.php"],
             "hIP6": ["http://[::1]", "http://[2001:db8::1]"], "hREL": ["//x.org", "//example.com"],
             "hMAIL": ["mailto:a@b.c", "mailto:x@example.com"],
             "PORT": [":80", ":8080"], "SLASH": ["/", "/"], "QUERY": ["?q=1", "?title=Foo&a=b"], "FRAG": ["#f", "#top"],
             "PCT": ["%20", "%5B%5D"], "AT": ["@u", "@example.org"], "DOT": [".", "."], "COMMA": [",", "!"], "AMP": ["&amp;", "&"],
             "UNI": ["\u00e9", "\u65e5"], "TPL": ["{{t}}", "{{nosuch|x}}"], "ARG": ["{{{1}}}", "{{{1|d}}}"],
             "NOWIKI": ["<nowiki/>", "<nowiki />"], "BRK": ["[1]", "[a]"]}
EXT_CTX = {"cTOP": "see @ now", "cLI": "* i @ t", "cCELL": "{|\n| @ || c\n|}", "cTARG": "{{d|@}}"}
EXT_LABEL = {"lNONE": "", "lTWO": " w v"}
EXT_IN_TREE = {"<nowiki/>": "<nowiki />"}       # how an atom reads in the tree when it differs from the source


def ext_text(doc, v):
    return EXT_CTX[doc[0]].replace("@", "[" + "".join(EXT_SPELL[a][v] for a in doc[2:]) + EXT_LABEL[doc[1]] + "]")


def ext_pred(items, v):
    return [{"s": "".join(EXT_IN_TREE.get(EXT_SPELL[a][v], EXT_SPELL[a][v]) for a in it["s"])} if "s" in it else {"k": it["k"]}
            for it in items]


def url_nodes(t, out):
    for lst in [t["children"]] + t["largs"] + [t.get("def", [])]:
        for c in lst:
            if "kind" in c:
                if c["kind"] == "URL":
                    out.append(c)
                url_nodes(c, out)
    return out


def run_exturl(o: Outcome, tier):
    t0 = time.time()
    cfg = "Gen_ExtUrl_T.cfg" if tier == "thorough" else "Gen_ExtUrl_Q.cfg"
    r = tlc("Gen_ExtUrl", cfg, workers=1, timeout=3000)
    o.add_tlc(cfg + " (M: the merged first argument has no two adjacent strings, on every url part)", r)
    cases = r.cases
    r.out = ""
    docs, of = [], []
    nsp = 2 if tier == "thorough" else 1
    for ci, c in enumerate(cases):
        for v in range(nsp):
            text = ext_text(c["doc"], v)
            if v and text == docs[-1]:
                continue
            docs.append(text)
            of.append((ci, v))
            _WF_NOTE[text] = ("; spec/ExtUrl.tla (url part %s): the pieces collected for the url part of an external link are merged "
                              "before they become the first argument of the URL node - predicted largs[0] = %s; the statement's "
                              "clauses (no two adjacent strings, no placeholder character) apply inside argument fields too"
                              % (" ".join(c["doc"][2:]), json.dumps(ext_pred(c["arg1"], v), ensure_ascii=False)))
    models = check_batch(o, docs, "G:exturl", want_model=frozenset(range(len(docs))))
    stats = {"cases": len(cases), "documents": len(docs), "arg1_compared": 0, "arg1_differs": 0, "by_head": {}, "multi_piece_url_parts": 0}
    for did, (ci, v) in enumerate(of):
        c = cases[ci]
        stats["by_head"][c["doc"][2]] = stats["by_head"].get(c["doc"][2], 0) + 1
        real = models.get(did)
        if real is None:
            continue
        if c["doc"][1] == "lNONE" and c["doc"][-1] == "BRK":
            # "[1]]": the spelling runs the inner and the closing bracket together ("]]" is a token of its own)
            stats["not_compared_spelling_adjacency"] = stats.get("not_compared_spelling_adjacency", 0) + 1
            continue
        urls = url_nodes(real, [])
        stats["arg1_compared"] += 1
        if c["link"]:
            want = ext_pred(c["arg1"], v)
            got = [[({"s": x["s"]} if "s" in x else {"k": x["kind"]}) for x in a] for u in urls for a in u["largs"][:1]]
            same = len(urls) == 1 and len(urls[0]["largs"]) == c["nargs"] and got == [want]
        else:
            want, got, same = "no URL node", [u["largs"] for u in urls], not urls
        if not same:
            stats["arg1_differs"] += 1
            if stats["arg1_differs"] <= int(__import__("os").environ.get("C01_EXT_DRIFT_CAP", "40")):
                o.note_drift({"exturl_doc": c["doc"], "text": docs[did], "predicted_first_argument": want, "real_first_argument": got})
    multi = [c for c in cases if len(c["doc"]) > 3]
    stats["multi_piece_url_parts"] = len(multi)
    if multi:
        mid = multi[len(multi) // 2]
        o.sample({"exturl_doc": mid["doc"], "text": ext_text(mid["doc"], 0), "predicted_first_argument": ext_pred(mid["arg1"], 0)})
    o.extra["exturl_universe"] = stats
    o.extra.setdefault("phase_seconds", {})["G:exturl"] = round(time.time() - t0, 1)
    rd = tlc("Gen_ExtUrl", "Demo_ExtUrl_nomerge.cfg", workers=1, check=False)
    if "DemoOK" not in rd.invariant_violated:
        raise common.TLCError("Demo_ExtUrl_nomerge.cfg did not produce the expected counterexample")
    o.extra.setdefault("demos", {})["Demo_ExtUrl_nomerge.cfg"] = "counterexample found by TLC without the merge step before the label"


def run_demos(o: Outcome):
    for cfg, inv in (("Demo_Parser_heading.cfg", "AsIsWellFormed"), ("Demo_Parser_preflag.cfg", "AsIsFlagsClean"),
                     ("Demo_Parser_taglaw.cfg", "DemoTagLaw")):
        r = tlc("Gen_Parser", cfg, workers=1, check=False)
        if inv not in r.invariant_violated:
            raise common.TLCError(f"{cfg} did not produce the expected counterexample")
        o.extra.setdefault("demos", {})[cfg] = "counterexample found by TLC with the deviation switched on"


def run(tier: str) -> int:
    _seen_cls.clear()
    o = Outcome(PID, tier)
    o.rule = ("M/G: every chunk sequence reachable in the universes of Gen_Parser (chunk universes: one chunk per step; line "
              "universes nest*: one line = list prefix + body per step) is one case (parsed in its primary and "
              "alternative spellings; line universes: primary spelling; tag-token universes tagtok*: one character of the "
              "inside of a tag per step, 4 surroundings; url-part universe Gen_ExtUrl: 4 surroundings x label / no label x "
              "head x one atom of the url part per step); V: every generated input (token soup over the full "
              "concrete alphabet, grammar document, nested line document, container x empty-leaf document, page mutation, "
              "ladder document) x 3 parse modes is one evaluation; trees are de-duplicated by shape before TLC "
              "validates them with WellFormed; distinct_nontrivial counts distinct tree shapes with >= 2 node kinds.")
    o.assumptions = [
        "inputs do not contain characters of the private-use cookie range U+10203D..U+10FFF0 (documented assumption of the library)",
        "trees larger than %d shape characters or deeper than %d levels are validated as one-level slices (each node with stubs for its child nodes)" % (SLICE_LIMIT, DEPTH_LIMIT),
    ]
    pre = "T" if tier == "thorough" else "Q"
    # line-structured universes: list depth changing from line to line while an HTML element / a table
    # opened inside a list item is still open (quick: 3 lines; thorough: wider vocabulary and 4 lines)
    tagtok = start_tagtok(tier)          # (TLC runs alongside the other generators)
    nest = ("nestW1", "nestW2", "nestW3", "nestW4", "nestL", "nestB", "nestR") if tier == "thorough" else ("nest", "nestR")
    run_g(o, [f"Gen_Parser_{pre}{u}.cfg" for u in ("core", "table", "block", "html", "inline", "pre") + nest],
          n_alt=1 if tier == "thorough" else 2, stream=(tier == "thorough"))
    run_tagtok(o, tagtok)
    run_exturl(o, tier)
    o.exhaustive = True
    run_demos(o)
    rng = random.Random(common.seed() * 15485863 + 1)
    docs = make_v_docs(tier, rng)
    for origin in ("ladder", "emptyleaf", "grammar", "nested", "mutation", "soup"):
        t1 = time.time()
        check_batch(o, docs[origin], origin)
        o.extra["phase_seconds"]["V:" + origin] = round(time.time() - t1, 1)
    o.sample({"soup": docs["soup"][0]})
    o.sample({"grammar": docs["grammar"][0]})
    # the repository's own test-suite as a trace source (harness/suitetrace.py)
    import suitetrace
    common.with_engine(o, "suite", lambda: suitetrace.extend(o, tier, PID))
    return o.finish()


def replay(path: str) -> int:
    v = json.loads(Path(path).read_text())
    if v.get("case", {}).get("engine") == "suite":
        import suitetrace
        return suitetrace.replay(path)
    c = v["case"]
    common.use_repo()
    with Scratch("c01r-") as d:
        ctx = pt.new_ctx(d, templates=True)
        root, err, flags = pt.parse(ctx, c["text"], c.get("mode", "plain"))
        ctx.close_db_conn()
    print("text :", repr(c["text"][:500]))
    print("mode :", c.get("mode"))
    print("error:", err, " flags:", flags)
    if root is None:
        return 1
    _, bad = validate_trees([("NONE", json.dumps(pt.dump_wf(root)))])
    print("faults now:", bad.get(0, []))
    return 0 if not bad and flags == pt.CLEAN_FLAGS else 1


def selftest() -> int:
    """A well-formed dumped tree passes; corrupting one field makes TLC reject exactly it."""
    common.use_repo()
    with Scratch("c01s-") as d:
        ctx = pt.new_ctx(d)
        root, err, _ = pt.parse(ctx, "== h ==\n* a ''b''\n{|\n| c\n|}\n")
        ctx.close_db_conn()
    good = pt.dump_wf(root)
    bad1 = json.loads(json.dumps(good))
    bad1["ch"][0]["ch"].insert(0, {"s": pt.S("")})                 # empty string child
    bad2 = json.loads(json.dumps(good))
    bad2["ch"].append({"k": "LIST_ITEM", "sarg": pt.S("*"), "largs": [], "attrs": [], "ch": [], "hasdef": False, "def": []})
    bad3 = json.loads(json.dumps(good))
    bad3["ch"][0]["largs"][0].append({"s": pt.S("x" + chr(0x102041))})   # a cookie character
    bad4 = json.loads(json.dumps(good))
    bad4["ch"][0]["largs"][0].append({"s": pt.S("x")})                   # a second string right after the title string
    _, bad = validate_trees([("NONE", json.dumps(t)) for t in (good, bad1, bad2, bad3, bad4)])
    print("faults:", bad)
    ok = (0 not in bad and "empty-string-child" in bad.get(1, []) and "LIST_ITEM-not-under-LIST" in bad.get(2, [])
          and "placeholder-char" in bad.get(3, []) and bad.get(4, []) == ["adjacent-strings-in-argument"])
    return 0 if ok else 1
