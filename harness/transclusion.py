"""Concretisation of the abstract transclusion syntax of spec/Transclusion.tla
(rendering to wikitext, installing libraries), output tokenisation, and a seeded
random generator of deeper (library, page) pairs for the V direction."""
from __future__ import annotations

import random

ATOM = {"SP": " ", "NL": "\n", "TAB": "\t", "NWS": "<nowiki />", "SUP2": "\u00b2", "ARD3": "\u0663"}
LITERALS = ["{{{", "}}}", "[[:Template:", "]]", "{{", "}}"]


def text(atoms) -> str:
    return "".join(ATOM.get(a, a) for a in atoms)


def render(content) -> str:
    return "".join(render_item(it) for it in content)


def render_item(it) -> str:
    k = it["k"]
    if k == "t":
        return text(it["s"])
    if k == "l":
        return "[[" + "|".join(render(a) for a in it["args"]) + "]]"
    if k == "x":
        return "[http://x.y " + render(it["c"]) + "]"
    if k == "pc":
        s = "{{{" + render(it["name"])
        if it["hasDef"]:
            s += "|" + render(it["def"])
        return s + "}}}"
    if k == "p":
        s = "{{{" + text(it["name"])
        if it["hasDef"]:
            s += "|" + render(it["def"])
        return s + "}}}"
    if k == "c":
        s = "{{" + it["name"]
        for a in it["args"]:
            s += "|"
            if a["named"]:
                s += render(a["key"]) + "="
            s += render(a["val"])
        return s + "}}"
    if k == "if":
        return "{{#if:" + render(it["c"]) + "|" + render(it["y"]) + "|" + render(it["n"]) + "}}"
    if k == "eq":
        return "{{#ifeq:" + render(it["a"]) + "|" + render(it["b"]) + "|" + render(it["y"]) + "|" + render(it["n"]) + "}}"
    if k == "sw":
        s = "{{#switch:" + render(it["v"])
        for c in it["cases"]:
            if len(c["val"]) == 1 and c["val"][0].get("k") == "ft":
                s += "|" + text(c["key"])  # fall-through label
            else:
                s += "|" + text(c["key"]) + "=" + render(c["val"])
        if it["hasDflt"]:
            s += "|#default=" + render(it["dflt"])
        return s + "}}"
    if k == "inv":  # {{#invoke:mod|fn|args}} (used by C16/C08)
        s = "{{#invoke:" + it.get("mod", "M") + "|" + it["fn"]
        for a in it["args"]:
            s += "|"
            if a["named"]:
                s += render(a["key"]) + "="
            s += render(a["val"])
        return s + "}}"
    raise ValueError(k)


WRAP = {
    "plain": ("", ""),
    "noinclude": ("<noinclude>", "</noinclude>"),
    "includeonly": ("<includeonly>", "</includeonly>"),
    "onlyinclude": ("<onlyinclude>", "</onlyinclude>"),
    "comment": ("<!--", "-->"),
}


def render_body(segs) -> str:
    return "".join(WRAP[s["w"]][0] + render(s["c"]) + WRAP[s["w"]][1] for s in segs)


def install(ctx, lib: dict, need=()) -> None:
    for name, segs in lib.items():
        if name == "RDR":
            # marker of Transclusion.tla: the redirect pages exist
            ctx.add_page("Template:R1", 10, redirect_to="Template:T1")
            ctx.add_page("Template:R2", 10, redirect_to="Template:R1")
            continue
        if name == "RDC":
            # marker: redirects that never reach a page (a cycle, and a redirect to its own title
            # in the other first-letter case); calls to them go nowhere
            ctx.add_page("Template:Ping", 10, redirect_to="Template:Pong")
            ctx.add_page("Template:Pong", 10, redirect_to="Template:Ping")
            ctx.add_page("Template:Cw", 10, redirect_to="Template:cw")
            continue
        ctx.add_page("Template:" + name, 10, body=render_body(segs), need_pre_expand=name in need)


def tokenize(s: str) -> list[str]:
    """Canonical tokenisation of an output string for the single-character alphabet
    used by the V generator."""
    out = []
    i = 0
    while i < len(s):
        if s.startswith("[[:Template:", i):
            j = s.find("]]", i)
            if j > 0:
                out += ["[[:Template:", s[i + 12 : j], "]]"]
                i = j + 2
                continue
        for lit in ("{{{", "}}}", "{|", "[[", "]]", "http://x.y"):
            if s.startswith(lit, i):
                out.append(lit)
                i += len(lit)
                break
        else:
            ch = s[i]
            out.append("SP" if ch == " " else "NL" if ch == "\n" else "TAB" if ch == "\t" else ch)
            i += 1
    return out


# --------------------------------------------------------------------------
# random generator (V direction): single-character atoms only
# --------------------------------------------------------------------------
LETTERS = ["a", "b", "c", "e"]
PUNCT = ["(", ")", ",", "!", "."]
MARK = ["*", "#", ":", ";"]


def rtext(rng, lead_ok=True, maxlen=3):
    n = rng.randint(0, maxlen)
    s = []
    for i in range(n):
        r = rng.random()
        if r < 0.25:
            s.append("SP")
        elif r < 0.4:
            s.append("NL")
        elif r < 0.5 and i == 0 and lead_ok:
            s.append(rng.choice(MARK))
        elif r < 0.6:
            s.append(rng.choice(PUNCT))
        else:
            s.append(rng.choice(LETTERS))
    return s


def T(s):
    return {"k": "t", "s": s}


PARAMS = [["1"], ["2"], ["x"], ["y"], ["SP", "x"], ["1", "SP"]]
KEYS = [["x"], ["y"], ["1"], ["2"], ["SP", "x", "SP"], ["NL", "y"], ["1", "SP"], ["SP", "2", "NL"], ["x", "SP"]]

# vocabulary of parameter names / argument keys used by rcontent; None = the lists above.
# name_vocab() gives one with multi-word names (interior runs of blanks) - see Gen_Transclusion, family N.
_VOCAB = None
RUNS = [["SP"], ["SP", "SP"], ["TAB"], ["NL"], ["SP", "NL", "SP"], ["SP", "SP", "SP"]]
PADS = [([], []), (["SP"], []), ([], ["NL"]), (["NL"], ["SP"]), (["TAB"], ["TAB"])]


def name_vocab(rng):
    """Names for one (library, pages) group.  `house` groups write the two-word name f_n with ONE interior
    run everywhere (padding varies): every reading of name equality agrees on them.  Mixed groups vary the
    run between the places where the name is written."""
    house = rng.random() < 0.6
    runs = [rng.choice(RUNS)] if house else RUNS
    two = []
    for r in runs:
        for a, b in PADS if house else PADS[:3]:
            two.append(a + ["f"] + r + ["n"] + b)
    others = [["f", "n"], ["x"], ["1"], ["f"] + runs[0] + ["n"] + runs[-1] + ["g"]]
    return {"params": two + others, "keys": two + others + [["SP", "1", "NL"]], "house": house}


class vocab:
    def __init__(self, v):
        self.v = v

    def __enter__(self):
        global _VOCAB
        self.old, _VOCAB = _VOCAB, self.v

    def __exit__(self, *a):
        global _VOCAB
        _VOCAB = self.old


def _strip_nl(content):
    """Top-level text of an external link cannot contain a newline (the link regexp stops there)."""
    out = []
    for it in content:
        if it["k"] == "t":
            t = [a for a in it["s"] if a != "NL"]
            if t:
                out.append(T(t))
        else:
            out.append(it)
    return out


def rcontent(rng, depth, callable_names, in_body, budget, nolink=False):
    """content = Seq(item)."""
    n = rng.randint(1, 3)
    c = []
    for _ in range(n):
        r = rng.random()
        if depth <= 0 or r < 0.4 or budget[0] <= 0:
            t = rtext(rng)
            if t:
                c.append(T(t))
        elif r < 0.6 and in_body:
            name = rng.choice(_VOCAB["params"] if _VOCAB else PARAMS)
            if rng.random() < 0.4:
                c.append({"k": "p", "name": name, "hasDef": True, "def": rcontent(rng, depth - 1, callable_names, in_body, budget)})
            else:
                c.append({"k": "p", "name": name, "hasDef": False, "def": []})
        elif r < 0.66 and not nolink:
            budget[0] -= 1
            if rng.random() < 0.6:
                c.append({"k": "l", "args": [[T(["a"])]] + [rcontent(rng, depth - 1, callable_names, in_body, budget, True) or [T(["b"])] for _ in range(rng.randint(0, 2))]})
            else:
                c.append({"k": "x", "c": _strip_nl(rcontent(rng, depth - 1, callable_names, in_body, budget, True)) or [T(["b"])]})
        elif r < 0.85:
            budget[0] -= 1
            names = list(callable_names) + ["NOPE"]
            nm = rng.choice(names) if callable_names else "NOPE"
            args = []
            used = set()
            for _ in range(rng.randint(0, 3)):
                v = rcontent(rng, depth - 1, callable_names, in_body, budget, nolink)
                if rng.random() < 0.5:
                    args.append({"named": False, "key": [], "val": v})
                else:
                    key = rng.choice(_VOCAB["keys"] if _VOCAB else KEYS)
                    args.append({"named": True, "key": [T(key)], "val": v})
            c.append({"k": "c", "name": nm, "args": args})
        elif r < 0.92:
            budget[0] -= 1
            c.append({"k": "if", "c": rcontent(rng, depth - 1, callable_names, in_body, budget),
                      "y": rcontent(rng, depth - 1, callable_names, in_body, budget),
                      "n": rcontent(rng, depth - 1, callable_names, in_body, budget)})
        elif r < 0.97:
            budget[0] -= 1
            c.append({"k": "eq", "a": [T(rtext(rng, False, 2))] if rng.random() < 0.5 else rcontent(rng, depth - 1, callable_names, in_body, budget),
                      "b": [T(rtext(rng, False, 2))],
                      "y": rcontent(rng, depth - 1, callable_names, in_body, budget),
                      "n": rcontent(rng, depth - 1, callable_names, in_body, budget)})
        else:
            budget[0] -= 1
            cases = [{"key": rng.choice([["a"], ["SP", "b"], ["c", "SP"]]), "val": rcontent(rng, depth - 1, callable_names, in_body, budget)} for _ in range(rng.randint(1, 2))]
            if rng.random() < 0.5:  # a fall-through group in front of a valued case
                grp = [{"key": k, "val": [{"k": "ft"}]} for k in rng.sample([["a"], ["b"], ["e"]], rng.randint(1, 3))]
                pos = rng.randint(0, len(cases) - 1)
                cases = cases[:pos] + grp + cases[pos:]
            hd = rng.random() < 0.5
            c.append({"k": "sw", "v": rcontent(rng, depth - 1, callable_names, in_body, budget), "cases": cases,
                      "hasDflt": hd, "dflt": rcontent(rng, depth - 1, callable_names, in_body, budget) if hd else []})
    # merge adjacent text items (canonical form) and drop empties
    out = []
    for it in c:
        if it["k"] == "t" and out and out[-1]["k"] == "t":
            out[-1] = T(out[-1]["s"] + it["s"])
        elif it["k"] != "t" or it["s"]:
            out.append(it)
    return out


def rlib(rng, ntempl, depth):
    """Acyclic library: template Ti may call Tj for j < i."""
    lib = {}
    names = []
    for i in range(1, ntempl + 1):
        body = rcontent(rng, depth, names, True, [6])
        segs = []
        r = rng.random()
        if r < 0.6:
            segs = [{"w": "plain", "c": body}]
        elif r < 0.75:
            segs = [{"w": "noinclude", "c": [T(["d", "o"])]}, {"w": "plain", "c": body}, {"w": "comment", "c": [T(["z"])]}]
        elif r < 0.9:
            segs = [{"w": "plain", "c": [T(["o"])]}, {"w": "onlyinclude", "c": body}, {"w": "plain", "c": [T(["u"])]}]
        else:
            segs = [{"w": "includeonly", "c": body}, {"w": "noinclude", "c": [T(["d"])]}]
        nm = f"T{i}"
        lib[nm] = segs
        names.append(nm)
    return lib, names


def has_unsafe_juxtaposition(s: str) -> bool:
    """Rendered text whose braces/brackets would regroup (outside the modelled syntax)."""
    return "{{{{" in s or "}}}}" in s and "}}}}}" not in s and False
