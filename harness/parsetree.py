"""Dumb structural abstraction of real WikiNode trees to JSON (for TLC), the
concretisation of abstract documents, and the real-parser drivers shared by the
C01 and C02 checks.

Nothing in here decides a property: the dumps only copy what is in the tree
(kind, sarg, largs, attrs, children in order, strings as atoms / as counted
character classes) and TLC evaluates `WellFormed` (spec/WikiTree.tla) or the
relation comparison (spec/ParserRef.tla) on them.
"""
from __future__ import annotations

import re
import signal
from pathlib import Path

import common

# ---------------------------------------------------------------------------
# contexts
# ---------------------------------------------------------------------------

# A small template library for expand_all / pre_expand parsing.  Some templates
# produce unbalanced structure on purpose (table start / end, list lines, an
# opening tag) so that pre_expand really changes what the parser sees.
TEMPLATE_LIB = {
    "t": "T",
    "d": "body {{{1|dflt}}} end",
    "tb": "{|",
    "te": "|}",
    "row": "|-\n| {{{1}}} || x",
    "li": "* one\n** two",
    "b": "'''{{{1}}}",
    "sp": "<span class=\"c\">",
    "nl": "\n",
    "eq": "== h ==",
    "pipe": "|",
    "loop": "{{loop}}",
    "nest": "{{d|{{t}}}}[[L|{{t}}]]",
}


# templates whose body changes the block structure: the ones pre_expand=True expands
PRE_EXPAND = {"tb", "te", "row", "li", "b", "sp", "nl", "eq", "pipe"}


def new_ctx(d, name="p", templates=False):
    common.use_repo()
    from wikitextprocessor import Wtp

    sub = Path(d) / name
    sub.mkdir(parents=True, exist_ok=True)
    ctx = Wtp(db_path=str(sub / "pages.db"), quiet=True, quiet_output=True)
    if templates:
        for n, body in TEMPLATE_LIB.items():
            ctx.add_page("Template:" + n, 10, body=body)
        ctx.db_conn.commit()

        def classifier(wtp, page):
            body = page.body or ""
            used = set(re.findall(r"\{\{([^|{}#:]+)", body))
            name = page.title.split(":", 1)[-1]
            return used, name in PRE_EXPAND

        ctx.analyze_templates(classifier)
    return ctx


MODES = {
    "plain": {},
    "expand_all": {"expand_all": True},
    "pre_expand": {"pre_expand": True},
}


def flags_of(ctx) -> dict:
    """Parser mode state that must be back to its initial value after parse()."""
    return {
        "stack": len(ctx.parser_stack),
        "pre_parse": bool(ctx.pre_parse),
        "begline_counter": int(ctx.begline_disable_counter),
        "begline_enabled": bool(ctx.begline_enabled),
    }


CLEAN_FLAGS = {"stack": 0, "pre_parse": False, "begline_counter": 0, "begline_enabled": True}


class SlowParse(BaseException):
    pass


class time_limit:
    """CPU-time limit for one parse (main thread of a worker process only)."""

    def __init__(self, seconds):
        self.seconds = seconds

    def _fire(self, *a):
        raise SlowParse()

    # CPU time of this process (not wall-clock: a worker that is merely descheduled or waits for
    # the disk on a loaded machine must not be reported as a slow parse)
    def __enter__(self):
        if self.seconds:
            self.old = signal.signal(signal.SIGPROF, self._fire)
            # (repeats: an alarm that lands inside a destructor is swallowed by the interpreter)
            signal.setitimer(signal.ITIMER_PROF, self.seconds, 0.5)

    def __exit__(self, *a):
        if self.seconds:
            signal.setitimer(signal.ITIMER_PROF, 0)
            signal.signal(signal.SIGPROF, self.old)
        return False


def parse(ctx, text: str, mode: str = "plain", limit: float = 0):
    """-> (root or None, exception-repr or None, flags)"""
    ctx.start_page("Pg")
    # the flags are re-initialised by hand so that a leftover of an earlier
    # (possibly failed) parse is not attributed to this one
    ctx.pre_parse = False
    ctx.begline_disable_counter = 0
    ctx.begline_enabled = True
    ctx.parser_stack = []
    try:
        with time_limit(limit):
            root = ctx.parse(text, **MODES[mode])
        err = None
    except SlowParse:
        root, err = None, "TIMEOUT"
    except RecursionError as e:  # reported like any other exception
        root, err = None, "RecursionError: " + str(e)[:80]
    except Exception as e:  # noqa: BLE001
        root, err = None, f"{type(e).__name__}: {str(e)[:160]}"
    return root, err, flags_of(ctx)


# ---------------------------------------------------------------------------
# dump for WellFormed (C01): strings as counted atoms
# ---------------------------------------------------------------------------

HI = 0xE000  # every code point from the first private-use area upwards is listed


def S(s) -> dict:
    if not isinstance(s, str):
        return {"x": type(s).__name__}
    hi = sorted({ord(c) for c in s if ord(c) >= HI})
    return {"n": len(s), "hi": hi[:8], "c": list(s) if len(s) <= 8 else []}


def dump_child(c) -> dict:
    from wikitextprocessor.parser import WikiNode

    if isinstance(c, str):
        return {"s": S(c)}
    if isinstance(c, WikiNode):
        return dump_wf(c)
    return {"x": type(c).__name__}


def dump_list(lst):
    if not isinstance(lst, list):
        return [{"x": type(lst).__name__}]
    return [dump_child(c) for c in lst]


def dump_wf(node) -> dict:
    largs = node.largs
    if isinstance(largs, list):
        dl = [dump_list(a) for a in largs]
    else:
        dl = [[{"x": type(largs).__name__}]]
    attrs = node.attrs
    if isinstance(attrs, dict):
        da = [[S(k), S(v)] for k, v in attrs.items()]
    else:
        da = [[{"x": type(attrs).__name__}, {"x": "-"}]]
    return {
        "k": node.kind.name if hasattr(node.kind, "name") and node.kind.name else str(node.kind),
        "sarg": S(node.sarg),
        "largs": dl,
        "attrs": da,
        "ch": dump_list(node.children),
        "hasdef": node.definition is not None,
        "def": dump_list(node.definition) if node.definition is not None else [],
    }


def shape_key(d) -> str:
    """De-duplication key of a dump: string lengths collapsed to empty/non-empty,
    characters dropped except for sarg (which WellFormed inspects)."""
    out = []

    def sk(s, keep):
        if "x" in s:
            return "X" + s["x"]
        return ("1" if s["n"] else "0") + ("!" if s["hi"] else "") + ("".join(s["c"]) if keep else "")

    def ch(c):
        if "s" in c:
            out.append("s" + sk(c["s"], False))
        elif "x" in c:
            out.append("X" + c["x"])
        elif "stub" in c:
            out.append("~" + c["k"])
        else:
            nd(c)

    def nd(n):
        out.append("(" + n["k"] + ":" + sk(n["sarg"], True))
        for a in n["largs"]:
            out.append("[")
            for c in a:
                ch(c)
            out.append("]")
        out.append("@%d" % len(n["attrs"]))
        for k, v in n["attrs"]:
            out.append(sk(k, False) + "=" + sk(v, False))
        out.append("|")
        for c in n["ch"]:
            ch(c)
        if n["hasdef"]:
            out.append("D")
            for c in n["def"]:
                ch(c)
        out.append(")")

    nd(d)
    return "".join(out)


def kinds_in(d, acc=None) -> set:
    acc = set() if acc is None else acc
    if "k" in d:
        acc.add(d["k"])
        for a in d["largs"]:
            for c in a:
                kinds_in(c, acc)
        for c in d["ch"]:
            kinds_in(c, acc)
        for c in d["def"]:
            kinds_in(c, acc)
    return acc


# ---------------------------------------------------------------------------
# dump for tree comparison (C02 / C01-G drift): strings split into atoms
# ---------------------------------------------------------------------------

ATOM_RE = re.compile(r"[A-Za-z0-9]+|\n| |.", re.S)


def atoms(s: str) -> list:
    res = []
    for m in ATOM_RE.finditer(s):
        a = m.group(0)
        res.append("NL" if a == "\n" else "SP" if a == " " else a)
    return res


def dump_atoms(node, top=True) -> dict:
    from wikitextprocessor.parser import WikiNode

    def lst(l):
        return [{"s": atoms(c)} if isinstance(c, str) else dump_atoms(c, False) for c in l if isinstance(c, (str, WikiNode))]

    return {
        "kind": node.kind.name,
        "sarg": list(node.sarg) if node.kind.name in ("LIST", "LIST_ITEM") else ([node.sarg] if node.sarg else []),
        "largs": [] if top else [lst(a) for a in node.largs],
        "children": lst(node.children),
    }


# ---------------------------------------------------------------------------
# locating marker words (C02): parent chains, nothing else
# ---------------------------------------------------------------------------

def word_paths(root, word_re) -> dict:
    """For every marker word found in the tree: list of occurrences, each the chain of
    enclosing nodes from the root down as (node id, kind, sarg, where) where `where`
    says whether the next step went through 'children', 'largs' or 'definition'."""
    from wikitextprocessor.parser import WikiNode

    found: dict[str, list] = {}
    ids = {}
    counts = {}

    def nid(n):
        if id(n) not in ids:
            ids[id(n)] = len(ids)
            counts[n.kind.name] = counts.get(n.kind.name, 0) + 1
        return ids[id(n)]

    def walk(n, chain):
        me = nid(n)

        def sub(lst, where):
            for c in lst:
                if isinstance(c, str):
                    for w in word_re.findall(c):
                        found.setdefault(w, []).append(chain + [(me, n.kind.name, n.sarg, where)])
                elif isinstance(c, WikiNode):
                    walk(c, chain + [(me, n.kind.name, n.sarg, where)])

        sub(n.children, "children")
        for a in n.largs:
            if isinstance(a, list):
                sub(a, "largs")
        if n.definition:
            sub(n.definition, "definition")

    walk(root, [])
    return {"paths": found, "kind_counts": counts}


# ---------------------------------------------------------------------------
# C01-G: spellings of the abstract chunks of Gen_Parser and the dump of a real
# tree in the machine's vocabulary (full-tree comparison, DRIFT only)
# ---------------------------------------------------------------------------
# chunk -> [primary spelling, alternative spellings ...]
SPELL = {
    "W": ["w", "foo", "é日"], "SP": [" ", " ", "\t"], "NL": ["\n"],
    "EQ1": ["="], "EQ2": ["=="], "EQ3": ["==="],
    "Q2": ["''"], "Q3": ["'''"], "Q5": ["'''''"],
    "*": ["*"], "#": ["#"], ";": [";"], ":": [":"],
    "HR": ["----", "-------"],
    "TS": ["{|"], "TE": ["|}"], "TR": ["|-", "|--"], "TC": ["|+"], "VB": ["|"], "DVB": ["||"], "EX": ["!"], "DEX": ["!!"],
    "ATTR": ["a=b", "a=\"b\"", "a = b"],
    "SPAN": ["<span>", "<SPAN>", "<span >"], "SPANA": ["<span class=\"c\">", "<span class='c' id=i>"],
    "ESPAN": ["</span>", "</span >", "</SPAN>"], "SPANS": ["<span/>", "<span />"],
    "DIV": ["<div>", "<div\n>"], "EDIV": ["</div>"], "BR": ["<br>", "<br/>", "<br />"], "EBR": ["</br>"],
    "REF": ["<ref>", "<ref name=\"n\">"], "EREF": ["</ref>"], "UL": ["<ul>"], "EUL": ["</ul>"], "LI": ["<li>"], "ELI": ["</li>"],
    "PRE": ["<pre>", "<pre class=\"p\">", "<PRE>"], "EPRE": ["</pre>", "</pre >", "</PRE>"],
    "UNK": ["<foo>", "<1>"], "EUNK": ["</foo>", "</1>"],
    "MT": ["{{t}}", "{{d|x}}", "{{PAGENAME}}"], "MTN": ["{{t\n|a}}", "{{d|\nx\n}}"], "MA": ["{{{1}}}", "{{{1|d}}}"],
    "ML": ["[[L]]", "[[L|x y]]", "[[File:f.png|thumb|c]]"], "ME": ["[http://x.org w]", "[https://x.org/p?q w v]"],
    "MN": ["<nowiki>x</nowiki>", "<nowiki>''=*|</nowiki>"], "MNE": ["<nowiki></nowiki>", "<NoWiki></NoWiki>"], "MW": ["__NOTOC__", "__TOC__"],
    "URL": ["http://x.org", "https://x.org/p"],
}

# atom of the machine -> the source text it stands for (primary spellings); other atoms are literal
ATOM_TEXT = {"SP": " ", "NL": "\n", "magicT": "{{t}}", "magicTN": "{{t\n|a}}", "magicA": "{{{1}}}", "magicL": "[[L]]",
             "magicE": "[http://x.org w]", "nowiki": "x", "url": "http://x.org"}


def model_text(t):
    """Machine tree (strings as atom lists) -> the same tree with strings as source text."""
    if "s" in t:
        return {"s": "".join(ATOM_TEXT.get(a, a) for a in t["s"])}
    d = {"kind": t["kind"], "sarg": t["sarg"], "largs": [[model_text(c) for c in a] for a in t["largs"]],
         "attrs": t["attrs"], "children": [model_text(c) for c in t["children"]]}
    if "def" in t:
        d["def"] = [model_text(c) for c in t["def"]]
    return d


def dump_model(node, top=True) -> dict:
    from wikitextprocessor.parser import WikiNode

    def lst(l):
        return [{"s": c} if isinstance(c, str) else dump_model(c, False) for c in l if isinstance(c, (str, WikiNode))]

    k = node.kind.name
    d = {
        "kind": k,
        "sarg": list(node.sarg) if k in ("LIST", "LIST_ITEM") else ([node.sarg] if node.sarg else []),
        "largs": [] if top else [lst(a) for a in node.largs],
        "attrs": list(node.attrs.keys()),
        "children": lst(node.children),
    }
    if node.definition is not None:
        d["def"] = lst(node.definition)
    return d
