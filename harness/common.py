"""Shared machinery for the /verif checks: paths, TLC driver, evidence writer,
known-findings handling, violation reporting.

Every check imports the implementation under test from ${VERIF_REPO:-/repo}/src
(the *current working tree*), never from an installed copy.
"""
from __future__ import annotations

import hashlib
import json
import os
import re
import shutil
import subprocess
import sys
import tempfile
import time
from pathlib import Path

VERIF = Path(__file__).resolve().parent.parent
SPEC = VERIF / "spec"
REPO = Path(os.environ.get("VERIF_REPO", "/repo"))
# evidence is only written into /verif/evidence by runs against /repo itself; runs against a
# scratch copy (tools/mutant.sh, tools/seeded.sh set VERIF_REPO) write next to that copy
EVID = Path(os.environ.get("VERIF_EVIDENCE_DIR") or (VERIF / "evidence" if str(REPO) == "/repo" else REPO.parent / "evidence"))
REPLAYS = EVID / "replays"
GUARD = "WIKITEXTPROCESSOR_VERIF"

# the checks run the working tree with hooks enabled
os.environ.setdefault(GUARD, "1")
os.environ.setdefault("PYTHONHASHSEED", "0")


def use_repo() -> None:
    """Make `import wikitextprocessor` resolve to the working tree."""
    src = str(REPO / "src")
    if sys.path[0] != src:
        sys.path.insert(0, src)
    for m in list(sys.modules):
        if m == "wikitextprocessor" or m.startswith("wikitextprocessor."):
            f = getattr(sys.modules[m], "__file__", "") or ""
            if not f.startswith(src):
                del sys.modules[m]


def seed() -> int:
    try:
        return int(os.environ.get("VERIF_SEED", "0"))
    except ValueError:
        return 0


class Scratch:
    """mktemp -d directory removed on exit."""

    def __init__(self, prefix: str = "verif-"):
        self.path = Path(tempfile.mkdtemp(prefix=prefix))

    def __enter__(self) -> Path:
        return self.path

    def __exit__(self, *a) -> None:
        shutil.rmtree(self.path, ignore_errors=True)


# --------------------------------------------------------------------------
# TLC driver
# --------------------------------------------------------------------------

JAVA_CP = "/opt/veriftools/tla/tla2tools.jar:/opt/veriftools/tla/CommunityModules-deps.jar"


class TLCError(RuntimeError):
    pass


class TLCResult:
    def __init__(self, out: str, rc: int, wall: float):
        self.out = out
        self.rc = rc
        self.wall = wall
        self.generated = 0
        self.distinct = 0
        self.depth = 0
        m = None
        for m in re.finditer(
            r"(\d+) states generated, (\d+) distinct states found", out
        ):
            pass
        if m:
            self.generated = int(m.group(1))
            self.distinct = int(m.group(2))
        m = re.search(r"depth of the complete state graph search is (\d+)", out)
        if m:
            self.depth = int(m.group(1))
        self.invariant_violated = re.findall(
            r"Error: Invariant (\S+) is violated", out
        )
        self.property_violated = (
            "Temporal properties were violated" in out
            or "Action property" in out and "is violated" in out
        )
        self.deadlock = "Deadlock reached" in out
        self.ok = (
            "Model checking completed. No error has been found" in out
            or ("Finished in" in out and "Error:" not in out)
        )
        self.errors = [l for l in out.splitlines() if l.startswith("Error:")]

    @property
    def cases(self) -> list:
        """Records printed by PrintT(<<"CASE", ToJson(rec)>>)."""
        res = []
        for line in self.out.splitlines():
            if line.startswith('<<"CASE"'):
                body = line[line.index(",") + 1 : line.rindex(">>")].strip()
                res.append(json.loads(json.loads(body)))
        return res

    def tagged(self, tag: str) -> list:
        res = []
        pre = '<<"%s"' % tag
        for line in self.out.splitlines():
            if line.startswith(pre):
                body = line[line.index(",") + 1 : line.rindex(">>")].strip()
                res.append(json.loads(json.loads(body)))
        return res

    def coverage_actions(self) -> dict:
        """-coverage 1 per-action counts: {action: (distinct, total)}."""
        res = {}
        for m in re.finditer(
            r"<(\w+) line \d+, col \d+ to line \d+, col \d+ of module (\w+)>: (\d+):(\d+)",
            self.out,
        ):
            res[m.group(1)] = (int(m.group(3)), int(m.group(4)))
        return res

    def counterexample(self) -> list[str]:
        """Raw text of the states of the (first) error trace."""
        m = re.search(r"(?s)Error: .*?behavior up to this point is:(.*?)(?:\n\d+ states generated|\Z)", self.out)
        return m.group(1).strip().split("\n\n") if m else []


def tlc(
    module: str,
    cfg: str,
    *,
    workers: int | str = 1,
    timeout: int = 600,
    env: dict | None = None,
    extra: list[str] | None = None,
    cfg_text: str | None = None,
    spec_dir: Path | None = None,
    coverage: bool = False,
    deadlock: bool = True,
    check: bool = True,
) -> TLCResult:
    """Run TLC on spec/<module>.tla with spec/<cfg> (or literal cfg_text)."""
    spec_dir = spec_dir or SPEC
    t0 = time.time()
    with Scratch("tlc-") as sc:
        if cfg_text is not None:
            cfgp = sc / (cfg or "gen.cfg")
            cfgp.write_text(cfg_text)
        else:
            cfgp = spec_dir / cfg
        cmd = [
            "java",
            "-XX:+UseSerialGC" if str(workers) == "1" else "-XX:+UseParallelGC",
            "-Xmx8g",
            "-Xss512m",
            f"-Djava.io.tmpdir={sc}",
            "-cp",
            JAVA_CP,
            "tlc2.TLC",
            "-metadir",
            str(sc / "meta"),
            "-noGenerateSpecTE",
            "-workers",
            str(workers),
            "-config",
            str(cfgp),
        ]
        if coverage:
            cmd += ["-coverage", "1"]
        if not deadlock:
            cmd += ["-deadlock"]
        cmd += extra or []
        cmd += [str(spec_dir / (module + ".tla"))]
        e = dict(os.environ)
        e.update(env or {})
        try:
            p = subprocess.run(
                cmd,
                cwd=str(spec_dir),
                env=e,
                capture_output=True,
                text=True,
                timeout=timeout,
            )
        except subprocess.TimeoutExpired as ex:
            raise TLCError(f"TLC timeout after {timeout}s on {module}/{cfg}") from ex
    r = TLCResult(p.stdout + p.stderr, p.returncode, time.time() - t0)
    if check and not r.ok:
        lines = r.out.splitlines()
        for i, l in enumerate(lines):
            if l.startswith("Error:") or "Exception" in l:
                sys.stderr.write("\n".join(lines[i : i + 12]) + "\n---\n")
                break
        sys.stderr.write(r.out[-1500:])
        raise TLCError(f"TLC did not complete cleanly on {module}/{cfg} (rc={p.returncode})")
    return r


# --------------------------------------------------------------------------
# known findings
# --------------------------------------------------------------------------

def load_known() -> list[dict]:
    p = VERIF / "known_findings.json"
    if not p.exists():
        return []
    return json.loads(p.read_text())["findings"]


def known_for(pid: str) -> dict[str, dict]:
    """Deviation-name -> entry, for entries of this property that are still open
    findings (status == 'finding').  'fixed' entries suppress nothing."""
    return {
        e["deviation"]: e
        for e in load_known()
        if e["property"] == pid and e["status"] == "finding"
    }


# --------------------------------------------------------------------------
# result / evidence
# --------------------------------------------------------------------------

class Outcome:
    """Accumulates what a check did; writes evidence and decides exit status."""

    def __init__(self, pid: str, tier: str):
        self.pid = pid
        self.tier = tier
        self.t0 = time.time()
        self.states = 0
        self.transitions = 0
        self.evaluations = 0
        self.traces = 0
        self.shapes: set = set()
        self.samples: list = []
        self.violations: list[dict] = []
        self.known_hits: dict[str, list] = {}
        self.drift: list = []
        self.drift_count = 0
        self.extra: dict = {}
        self.assumptions: list[str] = []
        self.rule = ""
        self.exhaustive = False
        self.tlc_runs: list[dict] = []
        self.known = known_for(pid)

    # -- TLC bookkeeping
    def add_tlc(self, name: str, r: TLCResult) -> None:
        self.states += r.distinct
        self.transitions += r.generated
        self.tlc_runs.append(
            {
                "run": name,
                "distinct_states": r.distinct,
                "states_generated": r.generated,
                "depth": r.depth,
                "wall_s": round(r.wall, 2),
            }
        )

    def sample(self, s, cap: int = 6) -> None:
        if len(self.samples) < cap:
            self.samples.append(s)

    def shape(self, key) -> None:
        self.shapes.add(key if isinstance(key, (str, int, tuple)) else json.dumps(key, sort_keys=True, default=str))

    # -- verdicts
    def violation(self, case: dict, why: str, cls: str | None = None) -> None:
        self.violations.append({"why": why, "case": case, "cls": cls or why})

    def known_finding(self, deviation: str, case) -> None:
        self.known_hits.setdefault(deviation, []).append(case)

    def note_drift(self, item) -> None:
        self.drift_count += 1
        if len(self.drift) < 5:
            self.drift.append(item)

    def classify(self, case: dict, why: str, deviations: list[str], cls: str | None = None) -> None:
        """A case on which the real code contradicts the property.
        `deviations` = names of the modelled deviations that explain this case
        (real == as-is prediction with exactly these switches mattering).
        If all of them are listed open findings -> KNOWN-FINDING else VIOLATION."""
        if deviations and all(d in self.known for d in deviations):
            for d in deviations:
                self.known_finding(d, case)
        else:
            self.violation(case, why + (f" [deviation={','.join(deviations)}]" if deviations else ""), cls)

    def finish(self) -> int:
        wall = time.time() - self.t0
        EVID.mkdir(exist_ok=True)
        REPLAYS.mkdir(exist_ok=True)
        cov = {
            "states": self.states,
            "transitions": self.transitions,
            "traces_validated_against_impl": self.traces,
            "evaluations": self.evaluations,
            "distinct_nontrivial": len(self.shapes),
            "rule": self.rule,
            "samples": self.samples or ["(none)"],
            "exhaustive": self.exhaustive,
            "tlc_runs": self.tlc_runs,
            "drift": {"count": self.drift_count, "samples": self.drift},
            "known_findings_observed": {k: len(v) for k, v in self.known_hits.items()},
        }
        cov.update(self.extra)
        ev = {
            "property_id": self.pid,
            "tier": self.tier,
            "seed": seed(),
            "level": "model_checking",
            "coverage": cov,
            "assumptions": self.assumptions,
            "wall_s": round(wall, 2),
            "violations": len(self.violations),
        }
        (EVID / f"{self.pid}.json").write_text(json.dumps(ev, indent=1, default=str) + "\n")
        for d, entry in self.known.items():
            hits = self.known_hits.get(d, [])
            if hits:
                print(
                    f"KNOWN-FINDING: property={self.pid} {d}: {entry['what']} "
                    f"({len(hits)} case(s) this run, e.g. {json.dumps(hits[0], default=str)[:300]})"
                )
            else:
                print(
                    f"KNOWN-FINDING: property={self.pid} {d}: {entry['what']} "
                    f"(listed; witness not reproduced in this run)"
                )
        if self.drift_count:
            print(f"DRIFT: property={self.pid} {self.drift_count} case(s) where the model predicts more than the property constrains and the code differs, e.g. {json.dumps(self.drift[0], default=str)[:300]}")
        if self.violations:
            # group by 'why', write one replay per group (smallest case first)
            seen = set()
            for v in sorted(self.violations, key=lambda v: len(json.dumps(v["case"], default=str))):
                key = v["cls"]
                if key in seen:
                    continue
                seen.add(key)
                blob = json.dumps({"property": self.pid, **v}, indent=1, default=str)
                h = hashlib.sha1(blob.encode()).hexdigest()[:10]
                path = REPLAYS / f"{self.pid}-{h}.json"
                path.write_text(blob + "\n")
                print(f"VIOLATION property={self.pid} replay={path}")
                print(f"  why: {v['why']}")
                print(f"  case: {json.dumps(v['case'], default=str)[:600]}")
                if len(seen) >= 8:
                    break
            print(f"{self.pid}: {len(self.violations)} violating case(s) in {len(seen)} class(es); {self.evaluations} evaluations, {wall:.1f}s")
            return 1
        print(
            f"{self.pid} [{self.tier}] ok: TLC states={self.states} transitions={self.transitions}; "
            f"impl evaluations={self.evaluations} traces={self.traces} distinct={len(self.shapes)}; {wall:.1f}s"
        )
        return 0


def json_key(x) -> str:
    return json.dumps(x, sort_keys=True, default=str)


# --------------------------------------------------------------------------
# parallel map over cases (fork; each worker imports the working tree itself)
# --------------------------------------------------------------------------

def pmap(fn, items: list, nproc: int | None = None, chunk: int | None = None) -> list:
    """Apply fn(list_of_items) -> list_of_results over chunks in parallel."""
    import multiprocessing as mp

    if not items:
        return []
    nproc = nproc or min(16, os.cpu_count() or 4)
    if chunk is None:
        chunk = max(1, (len(items) + nproc * 4 - 1) // (nproc * 4))
    chunks = [items[i : i + chunk] for i in range(0, len(items), chunk)]
    if nproc == 1 or len(chunks) == 1:
        out = []
        for c in chunks:
            out.extend(fn(c))
        return out
    ctx = mp.get_context("fork")
    with ctx.Pool(nproc) as pool:
        res = pool.map(fn, chunks)
    out = []
    for r in res:
        out.extend(r)
    return out


def with_engine(o, name: str, fn):
    """Run an additional engine `fn()` that reports into the Outcome `o`; every case it reports is
    tagged with engine=<name> so that --replay can hand it back to that engine."""
    v, c = o.violation, o.classify
    o.violation = lambda case, why, *a, **kw: v(dict(case, engine=name), why, *a, **kw)
    o.classify = lambda case, why, devs, *a, **kw: c(dict(case, engine=name), why, devs, *a, **kw)
    try:
        return fn()
    finally:
        o.violation, o.classify = v, c
