"""Render engine (spec/Render.tla): node_to_html / node_to_text / the node_handler_fn hook of
node_to_wikitext.  An additional engine of check C19 (`extend(o, tier, pid)`; wired into
harness/c19.py with common.with_engine).

M  MC_Render: the laws of the to_text rewriting system on every string of <= 2 (quick) / 3 chunks
   (no tag of the handled shapes survives, result stripped, no run of three newlines, ref contents
   dropped, idempotent on tag-free text with flat links; ASSUMEs: headings / br / hr become
   paragraph breaks, the spellings the patterns miss do not).  Demo_Render_nested: TLC itself finds
   the nested link on which to_text is not idempotent (vacuity guard).
G  Gen_Render: every (value, handler, library) case of the bounded universe over the C19 document
   grammar with TLC's handled wikitext / to_html / to_text; the value is built as real WikiNode
   objects, the real node_to_wikitext(handler) / node_to_html / node_to_text run on it, the three
   strings are compared.  The laws of the composition (None-handler = Unparse, the reading of the
   emitted text is exact, expansion is the identity on call-free text) are checked by TLC on every case.
V  seeded random documents over the same grammar (deeper) are parsed by the real parser; the dumped
   REAL tree, a random handler and library, and the three observed strings are validated by TLC
   (Trace_Render); random tag soups go through node_to_text as plain strings.

Verdicts: nothing here is in a listed property statement, so every disagreement is DRIFT (class
"render", sub-class handled / html / text), an exception escaping the three functions on a value of
the grammar is DRIFT of class "render-exception".  The exit code is never changed by this engine.
"""
from __future__ import annotations

import concurrent.futures as cf
import hashlib
import json
import random
import re
import sys
import time
from pathlib import Path

import common
import ptree2
import transclusion as tr
from common import Outcome, Scratch, tlc

HANDLERS = ["none", "self", "tmark", "linktext", "htmlbold", "droparg"]
TRACE_CFG = "SPECIFICATION Spec\nINVARIANT Verdict\nCHECK_DEADLOCK FALSE\n"
MAX_REPLAYS = 4


def known_devs() -> list:
    """Open deviations of Transclusion.tla: the expansion is modelled as it is."""
    return sorted(common.known_for("C04"))


def gen_cfg(tier: str, part: int, parts: int) -> str:
    known = ", ".join('"%s"' % d for d in known_devs())
    return (f"SPECIFICATION Spec\nCONSTANTS\n  Tier = \"{tier}\"\n  Known = {{{known}}}\n  Part = {part}\n  Parts = {parts}\n"
            "INVARIANT GenInv\nINVARIANT Laws\nCHECK_DEADLOCK FALSE\n")


# ---------------------------------------------------------------------------
# concretisation: abstract value -> real value, handler name -> real handler
# ---------------------------------------------------------------------------
def build(x):
    """The real value (WikiNode / str / list) of an abstract one.  Nodes get the class the parser gives them."""
    from wikitextprocessor import NodeKind, WikiNode
    from wikitextprocessor import parser as wparser

    if "list" in x:
        return [build(y) for y in x["list"]]
    if "s" in x:
        return ptree2.concretise(x["s"])
    kind = NodeKind[x["kind"]]
    n = None
    try:
        if kind == NodeKind.TEMPLATE:
            n = wparser.TemplateNode(0, ("Template",))
        elif kind == NodeKind.HTML:
            n = wparser.HTMLNode(0)
        elif x["kind"].startswith("LEVEL"):
            n = wparser.LevelNode(kind, 0)
    except Exception:  # noqa: BLE001  (constructor signatures are internal: fall back to the base class)
        n = None
    if n is None:
        n = WikiNode(kind, 0)
    n.sarg = ptree2.concretise(x["sarg"])
    n.largs = [[build(y) for y in a] for a in x["largs"]]
    n.attrs = {a["n"]: a["v"] for a in x["attrs"]}
    n.children = [build(y) for y in x["children"]]
    n.definition = [build(y) for y in x["defn"][0]] if x["defn"] else None
    return n


def mk_handler(name: str):
    """The Python twin of Render.tla HandlerRet."""
    from wikitextprocessor import NodeKind

    if name == "none":
        return lambda n: None
    if name == "self":
        return lambda n: n
    if name == "tmark":
        return lambda n: "%T%" if n.kind == NodeKind.TEMPLATE else None
    if name == "linktext":
        return lambda n: ((list(n.largs[-1]) if n.largs else []) + list(n.children)) if n.kind == NodeKind.LINK else None
    if name == "htmlbold":
        def h(n):
            if n.kind == NodeKind.BOLD:
                return ["<b>"] + list(n.children) + ["</b>"]
            if n.kind == NodeKind.ITALIC:
                return ["<i>"] + list(n.children) + ["</i>"]
            return None
        return h
    if name == "droparg":
        return lambda n: "" if n.kind == NodeKind.TEMPLATE_ARG else None
    raise ValueError(name)


def chars(s: str) -> list:
    return ["SP" if ch == " " else "NL" if ch == "\n" else ch for ch in s]


def unchars(cs) -> str:
    return "".join(" " if c == "SP" else "\n" if c == "NL" else c for c in cs)


# libraries that stand for a hook passed through node_to_html / node_to_text to expand(): for the
# specification template t has the body "%F%" / "%P%"; on the real side NO template t is installed and
# template_fn answers for t, resp. `show` is installed and post_template_fn replaces the expansion of t
HOOK_LIBS = {
    "fn": {"installed": {}, "kw": {"template_fn": lambda name, ht: "%F%" if name == "t" else None}},
    "post": {"installed": None, "kw": {"post_template_fn": lambda name, ht, expanded: "%P%" if name == "t" else None}},
}


class Ctxs:
    """One real context per template library."""

    def __init__(self, d):
        self.d = d
        self.by_key = {}

    def get(self, libdef, lib=None):
        if lib in HOOK_LIBS:
            libdef = HOOK_LIBS[lib]["installed"] if HOOK_LIBS[lib]["installed"] is not None else V_LIBS["show"]
        key = common.json_key(libdef)
        if key not in self.by_key:
            ctx = ptree2.new_ctx(self.d, f"l{len(self.by_key)}")
            tr.install(ctx, libdef if isinstance(libdef, dict) else {})
            self.by_key[key] = ctx
        return self.by_key[key]

    def close(self):
        for ctx in self.by_key.values():
            try:
                ctx.close_db_conn()
            except Exception:  # noqa: BLE001
                pass


def real_calls(ctx, value, hname, lib=None):
    """(handled, html, text) of the real code; an exception is reported as {"exception": repr}."""
    h = mk_handler(hname)
    out = []
    for k, fn in enumerate((ctx.node_to_wikitext, ctx.node_to_html, ctx.node_to_text)):
        ctx.start_page("Pg")
        kw = HOOK_LIBS[lib]["kw"] if k > 0 and lib in HOOK_LIBS else {}
        try:
            out.append(fn(value, node_handler_fn=h, **kw))
        except Exception as e:  # noqa: BLE001
            out.append({"exception": repr(e)})
    return out


# ---------------------------------------------------------------------------
# reporting (DRIFT only)
# ---------------------------------------------------------------------------
class Report:
    def __init__(self, o: Outcome):
        self.o = o
        self.counts = {}
        self.saved = 0
        self.samples = []

    def drift(self, cls: str, case: dict, why: str):
        self.counts[cls] = self.counts.get(cls, 0) + 1
        item = {"class": cls, "why": why, **{k: v for k, v in case.items() if k not in ("x", "libdef")}}
        if self.counts[cls] <= 2 and self.saved < MAX_REPLAYS:
            # a replayable record next to the violation replays (./check C19 --replay <file>)
            blob = json.dumps({"property": self.o.pid, "why": why, "cls": cls, "case": dict(case, engine="render")}, indent=1, default=str)
            common.EVID.mkdir(exist_ok=True)
            common.REPLAYS.mkdir(exist_ok=True)
            path = common.REPLAYS / f"{self.o.pid}-render-{hashlib.sha1(blob.encode()).hexdigest()[:10]}.json"
            path.write_text(blob + "\n")
            item["replay"] = str(path)
            self.saved += 1
        if self.counts[cls] <= 2:
            self.samples.append(item)
            self.o.note_drift(item)
        else:
            self.o.drift_count += 1


def show_value(x) -> str:
    if "list" in x:
        return ptree2.show(x["list"])
    return ptree2.show(x)


# ---------------------------------------------------------------------------
# G
# ---------------------------------------------------------------------------
def audit_spelling(cases):
    """The spelling table of Render.tla must cover the word atoms of the universe: `text` is a
    sequence of single characters and spells the same string as `html` rewritten."""
    for c in cases:
        for a in c["text"]:
            if len(a) != 1 and a not in ("SP", "NL"):
                raise common.TLCError(f"Render.tla SpellTable lacks the word {a!r} (case {c['fam']})")


def run_g(o: Outcome, rep: Report, cases, info: dict, corrupt=None):
    """Every TLC case on the real code.  `corrupt` (selftest): function applied to the case list first."""
    audit_spelling(cases)
    if corrupt:
        corrupt(cases)
    n_exc = 0
    mism = {"handled": 0, "html": 0, "text": 0}
    fired = {}
    with Scratch("render-g-") as d:
        ctxs = Ctxs(d)
        try:
            for c in cases:
                ctx = ctxs.get(c["libdef"], c["lib"])
                value = build(c["x"])
                got = real_calls(ctx, value, c["h"], c["lib"])
                o.evaluations += 3
                exp = [ptree2.concretise(c["handled"])]
                names = ["handled"]
                if c["readable"]:
                    exp += [ptree2.concretise(c["html"]), unchars(c["text"])]
                    names += ["html", "text"]
                    for f in c["fired"]:
                        fired[f] = fired.get(f, 0) + 1
                    o.shape(("render", c["h"], c["lib"], exp[0]))
                base = {"kind": "G", "fam": c["fam"], "x": c["x"], "h": c["h"], "lib": c["lib"], "libdef": c["libdef"],
                        "value": show_value(c["x"])[:600]}
                for name, e, g in zip(names, exp, got):
                    if isinstance(g, dict):
                        n_exc += 1
                        rep.drift("render-exception", dict(base, call=name, exception=g["exception"]),
                                  f"node_to_{'wikitext' if name == 'handled' else name} raised {g["exception"]} on a value of the C19 grammar")
                    elif g != e:
                        mism[name] += 1
                        rep.drift("render " + name, dict(base, call=name, model=e, real=g),
                                  f"{name}: Render.tla gives {e!r}, the real code {g!r}")
                # the exceptions of the calls the model does not predict (unreadable text) still count
                for name, g in zip(["handled", "html", "text"][len(names):], got[len(names):]):
                    if isinstance(g, dict):
                        n_exc += 1
                        rep.drift("render-exception", dict(base, call=name, exception=g["exception"]),
                                  f"node_to_{name} raised {g["exception"]} on a value of the C19 grammar")
        finally:
            ctxs.close()
    o.traces += len(cases)
    info["G"] = {"cases": len(cases), "readable": sum(1 for c in cases if c["readable"]), "mismatches": mism,
                 "exceptions": n_exc, "rules_changing_the_text": dict(sorted(fired.items())),
                 "per_family": _count(c["fam"] for c in cases), "per_handler": _count(c["h"] for c in cases),
                 "per_library": _count(c["lib"] for c in cases)}
    return sum(mism.values()), n_exc


def _count(it):
    r = {}
    for k in it:
        r[k] = r.get(k, 0) + 1
    return dict(sorted(r.items()))


# ---------------------------------------------------------------------------
# V: seeded random driver over the C19 grammar (+ what to_text rewrites), and tag soups
# ---------------------------------------------------------------------------
WORDS = ["a1", "b1", "c1", "x1", "y1", "z1", "p1", "q1"]
CALLW = {"T", "N", "P", "Q", "A"}
TEXTY = ["<ref>r1</ref>", "<ref>r1 s1</ref>\n", "<br>", "<br/>", "<br />", "<hr>", "[[Category:Foo]]", "[[Category:Foo|k1]]", "<references/>",
         "[[l|t1]]", "[[l]]", "<b>t1</b>", "<BR>"]
TEXTY_ATTR = ['<ref name="n1">r1</ref>', '<ref name="n1"/>', '<br clear="all">', '<span id="x1">t1</span>', "<h2>t1</h2>", '<h3 id="x1">t1</h3>\n']


def rleaf(rng, cx):
    r = rng.random()
    if r < 0.12 and not (cx & {"L", "E", "R"}):
        return rng.choice(["x1 [[ y1", "x1]] y1", "x1 [[y1]] z1"])
    if r < 0.30:
        return rng.choice(TEXTY)
    if r < 0.38 and not (cx & CALLW):
        return rng.choice(TEXTY_ATTR)
    return " ".join(rng.choice(WORDS) for _ in range(rng.randint(1, 3)))


def wrappers(cx):
    ws = set(CALLW)
    if not (cx & CALLW):
        ws |= {w for w in ("B", "I") if w not in cx}
        if "E" not in cx:
            ws.add("H")
    if not (cx & {"L", "E"}):
        ws |= {"L", "E", "R"}
    return sorted(ws)


def rinline(rng, depth, cx):
    parts = []
    for _ in range(rng.randint(1, 3)):
        if depth <= 0 or rng.random() < 0.35:
            parts.append(rleaf(rng, cx))
            continue
        w = rng.choice(wrappers(cx))
        x = rinline(rng, depth - 1, cx | {w})
        if w in ("B", "I") and (x.startswith("'") or x.endswith("'")):
            x = "p1 " + x + " q1"
        parts.append({
            "B": "'''" + x + "'''", "I": "''" + x + "''", "H": '<span id="x1">' + x + "</span>",
            "L": "[[l|" + x + "]]", "R": "[[l]]s " + x, "E": "[http://e.x/p " + x.replace("\n", " ") + "]",
            "T": "{{t|" + x + "|z1}}", "N": "{{t|k=" + x + "}}",
            "P": rng.choice(["{{#if:" + x + "|y1}}", "{{#if:c1|" + x + "|n1}}", "{{#if:|y1|" + x + "}}"]),
            "Q": rng.choice(["{{#ifeq:a1|a1|" + x + "|n1}}", "{{#ifeq:" + x + "|b1|y1|n1}}"]),
            "A": rng.choice(["{{{1|" + x + "}}}", "{{{1}}}"]),
        }[w])
    return " ".join(parts).replace("\n ", "\n")


def rblock(rng, depth):
    x = rinline(rng, depth, set())
    one = x.replace("\n", " ")
    k = rng.randrange(10)
    if k <= 2:
        return x.rstrip("\n") + "\n"
    if k == 3:
        return "== " + rinline(rng, 1, set()).replace("\n", " ") + " ==\n" + one + "\n"
    if k == 4:
        return "* " + one + "\n* z1\n"
    if k == 5:
        return "# z1\n#* " + one + "\n"
    if k == 6:
        return "; t1 : " + one + "\n: " + rng.choice(WORDS) + "\n"
    if k == 7:
        return '{| id="x1"\n|+ ' + rng.choice(WORDS) + "\n|-\n| " + one + '\n! id="x1" | h1\n|}\n'
    if k == 8:
        return '<div class="a-b">' + one + "</div>\n"
    return ": " + one + "\n----\n"


def rdoc(rng, depth):
    return "".join(rblock(rng, depth) for _ in range(rng.randint(1, 3)))


def _T(*a):
    return {"k": "t", "s": list(a)}


def _P(name, dflt=None):
    return {"k": "p", "name": [name], "hasDef": dflt is not None, "def": [] if dflt is None else [_T(dflt)]}


_SHOW = [_T("("), _P("1"), _T(","), _P("k", "d"), _T(")")]
# template libraries of the V driver (Transclusion.tla syntax; TLC evaluates with the recorded library)
V_LIBS = {
    "show": {"t": [{"w": "plain", "c": _SHOW}]},
    "doc": {"t": [{"w": "noinclude", "c": [_T("doc")]}, {"w": "plain", "c": _SHOW}, {"w": "comment", "c": [_T("z")]}]},
    "only": {"t": [{"w": "plain", "c": [_T("o")]}, {"w": "onlyinclude", "c": [_P("1"), _T("!")]}, {"w": "plain", "c": [_T("u")]}]},
    "star": {"t": [{"w": "plain", "c": [_T("*"), _P("1")]}]},
    "tags": {"t": [{"w": "plain", "c": [_T("<", "b", ">"), _P("1"), _T("<", "/", "b", ">", "<", "ref", ">"), _P("k", "d"), _T("<", "/", "ref", ">", "NL")]}]},
    "deep": {"t": [{"w": "plain", "c": [_T("("), {"k": "c", "name": "u", "args": [{"named": False, "key": [], "val": [_P("1")]}]}, _T(")")]}],
             "u": [{"w": "plain", "c": [_T("<"), _P("1", "e"), _T(">", "SP")]}]},
    "none": {"u": [{"w": "plain", "c": [_T("u")]}]},
    # stand-ins for the hooks (HOOK_LIBS): what the specification is told the library is
    "fn": {"t": [{"w": "plain", "c": [_T("%", "F", "%")]}]},
    "post": {"t": [{"w": "plain", "c": [_T("%", "P", "%")]}]},
}

SOUP = ["<", ">", "/", " ", "\n", "ref", "Ref", "br", "hr", "h2", "H3", "div1", "div", "b", "a1", "x", "[[", "]]", "[", "]", "|",
        "Category:", "category:", "l", "//e.x", "http:", "https:", "mailto:", "<ref>", "</ref>", "<br>", "<hr/>", "</b>", "\n\n", "=", '"']
# the strings of the ASSUMEs of MC_Render.tla (model-side observations) go through the real code too
FIXED_SOUPS = ["a < b > c", "a<ref name=x/>c a<ref>R</ref>c", "a<references/>c</ref>d", "a</>c a<>c", "a[[category:C]]c[[l]]d", "a<BR>c<br clear=all>d<div>e</div>f",
               "a<h2>b</h2>\nc<H3 id=x>d<div1>e", "a<br>b<br/>c<br />\n\nd<hr>e<hr/>\nf", "[[File:l|thumb|a1 [[l|b1]] c1]]", "[[l|a [[l|t]]]]",
               "[//e.x  ] [//e.x] [https://e.x t u] [mailto://e.x t]", "a< /b>  c</ b>  d", "<<b>b> <>x> </</a>>", "a\n\n\n\nb \n\n\n c\n", "[[ Category:C|k]]\n\n\n[[Category:C<b>]]"]


def rsoup(rng):
    return "".join(rng.choice(SOUP) for _ in range(rng.randint(2, 14)))


def record_v(seed_: int, ndocs: int, nsoups: int, libdefs: dict):
    """Real code on random inputs -> records for Trace_Render (+ presentation fields)."""
    rng = random.Random(seed_)
    recs = []
    n_parse_exc = 0
    with Scratch("render-v-") as d:
        ctxs = Ctxs(d)
        try:
            libnames = sorted(libdefs)
            for k in range(ndocs + nsoups + len(FIXED_SOUPS)):
                soup = k >= ndocs
                if soup:
                    text = FIXED_SOUPS[k - ndocs - nsoups] if k >= ndocs + nsoups else rsoup(rng)
                    lib, hname = "show", "none"
                else:
                    text = rdoc(rng, rng.choice([2, 3, 3, 4]))
                    lib = rng.choice(libnames)
                    hname = rng.choice(HANDLERS)
                ctx = ctxs.get(libdefs[lib], lib)
                if soup:
                    value = text
                    ax = {"s": ptree2.atoms(text)}
                else:
                    try:
                        value = ptree2.parse(ctx, text)
                    except Exception:  # noqa: BLE001  (C01's business)
                        n_parse_exc += 1
                        continue
                    ax = ptree2.node(value)
                got = real_calls(ctx, value, hname, lib)
                recs.append({"kind": "soup" if soup else "V", "source": text, "x": ax, "h": hname, "lib": lib, "libdef": libdefs[lib], "got": got})
        finally:
            ctxs.close()
    return recs, n_parse_exc


def trace_records(recs, timeout=1500, cov=False):
    """recs without exceptions -> TLC verdict."""
    batch = {"known": known_devs(), "cov": cov,
             "recs": [{"x": r["x"], "h": r["h"], "lib": r["libdef"], "handled": r["got"][0], "html": r["got"][1],
                       "htmlc": chars(r["got"][1]), "textc": chars(r["got"][2])} for r in recs]}
    with Scratch("render-t-") as d:
        tf = d / "batch.json"
        tf.write_text(json.dumps(batch))
        r = tlc("Trace_Render", "t.cfg", cfg_text=TRACE_CFG, workers=1, timeout=timeout, env={"TRACE_FILE": str(tf)})
    v = r.tagged("VERDICT")
    if not v or v[0]["consumed"] != len(recs):
        raise common.TLCError("Trace_Render did not consume its batch")
    return r, v[0]


def split_exceptions(recs):
    ok, exc = [], []
    for r in recs:
        (exc if any(isinstance(g, dict) for g in r["got"]) else ok).append(r)
    return ok, exc


def trace_parallel(ok, nbatch: int, cov: bool):
    """Trace_Render on `ok`, cut into nbatch batches validated by as many TLC runs at the same time.
    -> (TLCResult-like totals, bad list with global indices, readable, fired)"""
    nbatch = max(1, min(nbatch, len(ok)))
    size = (len(ok) + nbatch - 1) // nbatch
    cuts = [(k, ok[k:k + size]) for k in range(0, len(ok), size)]
    with cf.ThreadPoolExecutor(max_workers=min(4, len(cuts))) as ex:
        outs = list(ex.map(lambda kc: trace_records(kc[1], cov=cov), cuts))
    tot = common.TLCResult("", 0, 0.0)
    bad, readable, fired = [], 0, set()
    for (k, _), (res, v) in zip(cuts, outs):
        tot.distinct += res.distinct
        tot.generated += res.generated
        tot.depth = max(tot.depth, res.depth)
        tot.wall = max(tot.wall, res.wall)
        readable += v["readable"]
        fired |= set(v["fired"])
        bad += [dict(b, i=b["i"] + k) for b in v["bad"]]
    return tot, bad, readable, fired


def v_pipeline(seed_: int, ndocs: int, nsoups: int, nbatch: int, cov: bool, corrupt=None):
    """Runs in its own thread: record the real code, let TLC judge.  Touches no Outcome."""
    recs, npe = record_v(seed_, ndocs, nsoups, V_LIBS)
    ok, exc = split_exceptions(recs)
    if corrupt:
        corrupt(ok)
    tot, bad, readable, fired = trace_parallel(ok, nbatch, cov)
    return {"recs": recs, "ok": ok, "exc": exc, "npe": npe, "tlc": tot, "bad": bad, "readable": readable, "fired": fired}


def absorb_v(o: Outcome, rep: Report, vp: dict, info: dict):
    recs, ok = vp["recs"], vp["ok"]
    o.evaluations += 3 * len(recs)
    n_exc = 0
    for r in vp["exc"]:
        for n, g in zip(["wikitext", "html", "text"], r["got"]):
            if isinstance(g, dict):
                n_exc += 1
                rep.drift("render-exception", {"kind": r["kind"], "source": r["source"], "h": r["h"], "lib": r["lib"], "libdef": r["libdef"],
                                               "call": n, "exception": g["exception"]},
                          f"node_to_{n} raised {g['exception']} on a parsed document of the C19 grammar")
    o.add_tlc("Trace_Render (all batches)", vp["tlc"])
    o.traces += len(ok)
    mism = {"handled": 0, "html": 0, "text": 0}
    for b in vp["bad"]:
        r = ok[b["i"] - 1]
        cl = b["clause"]
        model = unchars(b["expected"]) if cl == "text" else ptree2.concretise(b["expected"])
        real = r["got"][{"handled": 0, "html": 1, "text": 2}[cl]]
        mism[cl] += 1
        rep.drift("render " + cl, {"kind": r["kind"], "source": r["source"], "h": r["h"], "lib": r["lib"], "libdef": r["libdef"], "call": cl,
                                   "model": model, "real": real, **({"html": r["got"][1]} if cl == "text" else {})},
                  f"{cl}: Render.tla gives {model!r}, the real code {real!r}")
    for r in ok:
        o.shape(("render-v", r["h"], r["lib"], r["got"][2]))
    info["V"] = {"documents": sum(1 for r in recs if r["kind"] == "V"), "soups": sum(1 for r in recs if r["kind"] == "soup"),
                 "validated": len(ok), "readable": vp["readable"], "mismatches": mism, "exceptions": n_exc, "parse_exceptions_skipped": vp["npe"],
                 "rules_changing_the_text": sorted(vp["fired"]), "per_handler": _count(r["h"] for r in recs),
                 "per_library": _count(r["lib"] for r in recs if r["kind"] == "V")}
    if ok:
        mid = next((r for r in ok if r["kind"] == "V" and r["h"] != "none" and "{{" in r["source"] and len(r["source"]) < 200), ok[0])
        o.sample({"render_document": mid["source"], "handler": mid["h"], "library": mid["lib"],
                  "to_wikitext": mid["got"][0], "to_html": mid["got"][1], "to_text": mid["got"][2]}, cap=8)
    return sum(mism.values()), n_exc


# ---------------------------------------------------------------------------
# engine
# ---------------------------------------------------------------------------
def _mc(thorough: bool):
    return tlc("MC_Render", "MC_Render_T.cfg" if thorough else "MC_Render_Q.cfg", workers=8 if thorough else 2, timeout=2400)


def _demo():
    return tlc("MC_Render", "Demo_Render_nested.cfg", workers=1, timeout=900, check=False)


def _gen(tier_letter, part, parts):
    return tlc("Gen_Render", "g.cfg", cfg_text=gen_cfg(tier_letter, part, parts), workers=1, timeout=2400)


def libdefs_of(cases) -> dict:
    return {c["lib"]: c["libdef"] for c in cases}


def extend(o: Outcome, tier: str, pid: str) -> None:
    """Adds the render engine's runs to the Outcome of check `pid` (never calls finish(), never reports a violation)."""
    t0 = time.time()
    thorough = tier == "thorough"
    common.use_repo()
    rep = Report(o)
    info: dict = {}
    parts = 10 if thorough else 1     # thorough: one TLC run per family of Gen_Render.FamT
    with cf.ThreadPoolExecutor(max_workers=6 if thorough else 4) as ex:     # at most six JVMs at a time
        f_mc = ex.submit(_mc, thorough)
        # (the quick tier starts three JVMs: laws, cases, trace; the vacuity guard runs in the thorough tier)
        f_demo = ex.submit(_demo) if thorough else None
        f_v = ex.submit(v_pipeline, common.seed() * 7919 + 19, 1200 if thorough else 50, 2500 if thorough else 100,
                        8 if thorough else 1, thorough)
        f_gen = [ex.submit(_gen, "T" if thorough else "Q", p, parts) for p in range(parts)]
        cases = []
        gen = common.TLCResult("", 0, 0.0)
        for f in f_gen:
            r = f.result()
            cases += r.cases
            gen.distinct += r.distinct
            gen.generated += r.generated
            gen.wall = max(gen.wall, r.wall)
        if not cases:
            raise common.TLCError("Gen_Render printed no case")
        o.add_tlc(f"Gen_Render[{'T' if thorough else 'Q'}] laws+cases x{parts}", gen)
        g_mis, g_exc = run_g(o, rep, cases, info)
        v_mis, v_exc = absorb_v(o, rep, f_v.result(), info)
        mc = f_mc.result()
        demo = f_demo.result() if f_demo else None
    o.add_tlc("MC_Render (to_text laws)", mc)
    m = None
    if demo is not None:
        o.add_tlc("Demo_Render_nested (counterexample expected)", demo)
        if "IdemTagFree" not in demo.invariant_violated:
            raise common.TLCError("Demo_Render_nested lost its counterexample (vacuity guard)")
        m = re.search(r"(?s)/\\ str = (<<.*?>>)", demo.out)
    info["M"] = {"strings": (mc.tagged("COUNT") or [{}])[0], "laws": ["NoTag", "Stripped", "NoTripleNewline", "RefDropped", "IdemFlat",
                                                                     "ASSUME Breaks", "ASSUME NotBreaks", "ASSUME Observations"],
                 "demo_not_idempotent_on": unchars(json.loads("[" + m.group(1)[2:-2] + "]")) if m else None}
    info["drift_by_class"] = dict(sorted(rep.counts.items()))
    info["exceptions"] = g_exc + v_exc
    info["mismatches"] = g_mis + v_mis
    info["engine_wall_s"] = round(time.time() - t0, 1)
    o.extra["render"] = info
    o.rule = (o.rule + " || " if o.rule else "") + (
        "render engine: G = every (value, handler, library) case of Gen_Render (C19 grammar: inline wrappers x block contexts, "
        "outer blocks, empty-part calls, a family carrying what to_text rewrites; handlers none / self / tmark / linktext / htmlbold / "
        "droparg where they answer; 5 libraries where a template is called), distinct by (handler, library, emitted wikitext); "
        "V = seeded random documents of the same grammar (depth 2-4) parsed by the real parser + random tag soups, distinct by "
        "(handler, library, to_text output)")
    o.assumptions = list(o.assumptions) + [
        "render engine: template expansion inside to_html is the as-is reference of C04 (Transclusion.tla with the open deviations); "
        "texts whose calls are outside Render.tla's reading (other parser functions, computed names, names holding '=') are checked for "
        "to_wikitext(handler) and the to_text rewriting only; ASCII text",
    ]
    if rep.counts:
        print(f"DRIFT-RENDER: property={pid} " + ", ".join(f"{k}: {v}" for k, v in sorted(rep.counts.items()))
              + (f"  [exceptions escaping node_to_html / node_to_text: {g_exc + v_exc}]" if g_exc + v_exc else ""))
        for s in rep.samples[:4]:
            print(f"  DRIFT class={s['class']}: {s['why'][:300]}" + (f"  replay={s['replay']}" if "replay" in s else ""))


# ---------------------------------------------------------------------------
# replay / selftest
# ---------------------------------------------------------------------------
def _as_case(case):
    if isinstance(case, (str, Path)):
        v = json.loads(Path(case).read_text())
        return v["case"], v.get("why", "")
    if "case" in case:
        return case["case"], case.get("why", "")
    return case, ""


def replay(case) -> int:
    """Re-runs a reported render case on the current tree and lets TLC judge it again; 1 = still differing."""
    c, why = _as_case(case)
    common.use_repo()
    print("why:", why)
    libdef = c.get("libdef") or {}
    with Scratch("render-r-") as d:
        ctxs = Ctxs(d)
        try:
            ctx = ctxs.get(libdef, c.get("lib"))
            if c.get("kind") == "G":
                value, ax = build(c["x"]), c["x"]
            elif c.get("kind") == "soup":
                value, ax = c["source"], {"s": ptree2.atoms(c["source"])}
            else:
                value = ptree2.parse(ctx, c["source"])
                ax = ptree2.node(value)
            got = real_calls(ctx, value, c.get("h", "none"), c.get("lib"))
        finally:
            ctxs.close()
    for n, g in zip(["to_wikitext", "to_html", "to_text"], got):
        print(f"{n:12}: {g!r}")
    if any(isinstance(g, dict) for g in got):
        return 1
    _, v = trace_records([{"x": ax, "h": c.get("h", "none"), "libdef": libdef, "got": got}])
    for b in v["bad"]:
        exp = unchars(b["expected"]) if b["clause"] == "text" else ptree2.concretise(b["expected"])
        print(f"still differing, {b['clause']}: Render.tla gives {exp!r}")
    if not v["bad"]:
        print("the real code agrees with Render.tla on this case now")
    return 1 if v["bad"] else 0


def selftest() -> int:
    """Binding demo: intact cases / records are accepted; ONE corrupted expected string (G) and ONE corrupted
    observed string (V) are reported, by the comparator resp. by TLC."""
    common.use_repo()
    ok = True
    r = _gen("Q", 0, 12)
    cases = r.cases
    print(f"G: {len(cases)} cases from TLC")
    for label, corrupt in (("intact", None),
                           ("one expected to_text string corrupted", lambda cs: next(c for c in cs if c["readable"] and c["text"])["text"].append("!")),
                           ("one expected handled wikitext corrupted", lambda cs: next((c for c in cs if c["h"] not in ("none", "self")), cs[0])["handled"].insert(0, "x1"))):
        o = Outcome("C19", "quick")
        rep = Report(o)
        rep.saved = MAX_REPLAYS  # no files from the selftest
        mis, exc = run_g(o, rep, json.loads(json.dumps(cases)), {}, corrupt=corrupt)
        print(f"  {label}: {mis} mismatch(es) {dict(rep.counts)}")
        ok &= (mis == 0) if corrupt is None else (mis == 1)

    def c_text(rs):
        rs[0]["got"][2] = rs[0]["got"][2] + " x"

    def c_html(rs):
        k = next(i for i, r in enumerate(rs) if r["kind"] == "V")
        rs[k]["got"][1] = "y" + rs[k]["got"][1]

    for label, corrupt, want in (("intact", None, {}), ("observed to_text of one record changed", c_text, {"render text": 1}),
                                 ("observed to_html of one record changed", c_html, None)):
        o = Outcome("C19", "quick")
        rep = Report(o)
        rep.saved = MAX_REPLAYS
        mis, exc = absorb_v(o, rep, v_pipeline(5, 12, 12, 1, False, corrupt=corrupt), {})
        print(f"V {label}: TLC rejects {mis} clause(s) {dict(rep.counts)}")
        if want is not None:
            ok &= rep.counts == want
        else:
            # the html of the record changed: its to_text no longer follows from it, and (when readable) the html clause fails
            ok &= mis >= 1 and "render html" in rep.counts
    print("selftest", "ok" if ok else "FAILED")
    return 0 if ok else 1


if __name__ == "__main__":
    if "--selftest" in sys.argv:
        sys.exit(selftest())
    tier = "thorough" if "thorough" in sys.argv else "quick"
    o = Outcome("C19", tier)
    import tempfile
    ev = Path(tempfile.mkdtemp(prefix="render-evidence-"))
    common.EVID, common.REPLAYS = ev, ev / "replays"
    try:
        extend(o, tier, "C19")
        print(json.dumps(o.extra["render"], indent=1)[:6000])
        o.finish()
    finally:
        import shutil
        shutil.rmtree(ev, ignore_errors=True)
