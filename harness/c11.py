"""C11 — restoring the page database from its backup is crash-safe.

M  TLC: MC_Backup_ideal (the repaired design: side files removed on restore, backup
        written under a temporary name): after a kill at any step of any flow, in any
        of up to 3-4 consecutive process runs, a new open yields exactly the content the
        statement demands.  Demo_Backup_* : with the deviations of the unrepaired code
        switched on TLC produces the counterexamples (vacuity guard).
G  TLC Gen_Backup_* enumerates every (flow, crash step) x (flow, crash step) behaviour
        with the file state predicted after each run and the content predicted for a new
        open.  The harness runs the REAL flows (Wtp(), process_dump(skip_extract_dump),
        analyze_and_overwrite_pages, backup_db, close_db_conn) in a child process under
        sys.settrace and kills it (os._exit(137)) at every executed line of the package
        (quick: level 2 with a stride + every line around each file-state change),
        observes the files, reopens with a new Wtp(db_path) in another process, reads
        all pages + PRAGMA integrity_check.  Kill points are mapped to model states by
        the observed file state, never by line numbers.
V  The sequence of file states observed along each real execution is validated by TLC
        against Trace_Backup, which also prints, per observed state, what the statement
        demands and what the model predicts for a kill there.
J  The journal dimension (Backup.tla: journal mode in every file header, the rollback journal
        as a file, writes that spill before their commit, other start states than the
        library's own closed database): Gen_Backup_J_* / MC_Backup_ideal_J / Demo_Backup_modekept;
        the harness starts from a missing path, an existing empty file and a rollback-mode
        database, runs one dedicated flow whose last overwrite (a few pages of ~0.75 MB) does
        not fit SQLite's page cache, and observes the header's journal mode and <db>-journal.
"""
from __future__ import annotations

import hashlib
import json
import os
import shutil
import sqlite3
import sys
import tempfile
from pathlib import Path

import common
from common import Outcome, tlc, pmap, Scratch

PID = "C11"
WD = 99
TORN = 777
DEVS = ["StaleWalKept", "BackupNotAtomic", "JournalModeKept"]
ORDER = ["ideal", "modekept", "stalewal", "notatomic", "asis"]  # most ideal first
VARIANTS = {  # name -> (deviation list, Gen cfg)
    "ideal": ([], "Gen_Backup_ideal.cfg"),
    # from the library's own database this variant never leaves WAL mode (it is the ideal one there): its
    # table is generated for the other start kinds only (JVARIANTS)
    "modekept": (["JournalModeKept"], None),
    "stalewal": (["StaleWalKept"], "Gen_Backup_stalewal.cfg"),
    "notatomic": (["BackupNotAtomic"], "Gen_Backup_notatomic.cfg"),
    "asis": (["StaleWalKept", "BackupNotAtomic"], "Gen_Backup_asis.cfg"),
}
FLOWDEF = {
    "BOC": ["backup", "write", "close"],
    "OC": ["write", "close"],
    "BC": ["backup", "close"],
    "C": ["close"],
    # a second backup in the same session: the previous, completed backup must survive until
    # the new one is complete
    "BOBC": ["backup", "write", "backup", "close"],
    # a first backup taken while committed pages still sit in the write-ahead log
    "OBC": ["write", "backup", "close"],
    # journal dimension: overwrite, backup, overwrite, an overwrite too large for SQLite's page cache
    # (it spills before its commit), close
    "OBOVC": ["write", "backup", "write", "bigwrite", "close"],
}
JFLOW = "OBOVC"
# start kinds of the journal dimension (Backup!InitOf) and the generators of their tables
JKINDS = ["zero", "basedel", "absent"]
JVARIANTS = {"ideal": "Gen_Backup_J_ideal.cfg", "modekept": "Gen_Backup_J_modekept.cfg"}
DBNAME = "pages.db"
DEFAULT_TEMPLATES = {"Template:!", "Template:=", "Template:((", "Template:))"}

# ---------------------------------------------------------------------------
# content: abstract set <-> concrete pages
# ---------------------------------------------------------------------------
BASE = {
    ("Base", 0): ("base page", "wikitext"),
    ("P", 0): ("v0", "wikitext"),
    ("Template:T", 10): ("t0", "wikitext"),
    ("Module:M", 828): ("return {v=0}", "Scribunto"),
}


def override_pages(g: int) -> dict:
    """Pages written by overwrite number g (run 1 -> g=1, run 2 -> g=3)."""
    d = {("P", 0): (f"v{g}", "wikitext"), (f"N{g}", 0): (f"new in {g}", "wikitext")}
    if g % 4 == 1:
        d[("Template:T", 10)] = (f"t{g}", "wikitext")
    else:  # written from the old folder format, which always stores model "wikitext"
        d[("Module:M", 828)] = (f"return {{v={g}}}", "wikitext")
    return d


GENS = [1, 3]
# journal dimension: overwrite numbers of its own (Backup!GenId: run 1 -> 11, 12, 13; run 2 -> 14, 15, 16);
# the third overwrite of a run is the big one
JGENS = [11, 12, 13, 14, 15, 16]
BIG_PAGES, BIG_LEN = 4, 750_000  # 3 MB: more than the page cache (2 MB), fewer than 1000 WAL frames


def big_body(g: int, i: int) -> str:
    unit = f"overwrite {g} big page {i}; "
    return (unit * (BIG_LEN // len(unit) + 1))[:BIG_LEN]


def jpages(g: int) -> dict:
    d = override_pages(g)
    if g % 3 == 1 and g > 10:  # 13, 16
        for i in range(BIG_PAGES):
            d[(f"Big{i}", 0)] = (big_body(g, i), "wikitext")
    return d


def _short(body):
    """Large bodies are compared by digest."""
    if body is not None and len(body) > 2000:
        return f"#{len(body)}:{hashlib.sha1(body.encode()).hexdigest()}"
    return body


_SHORT: dict = {}


def short_pages(g: int) -> dict:
    if g not in _SHORT:
        _SHORT[g] = {k: (_short(b), m) for k, (b, m) in (jpages(g) if g > 10 else override_pages(g)).items()}
    return _SHORT[g]


def concrete(S) -> dict:
    pages: dict = {}
    if 0 in S:
        pages.update(BASE)
    for g in sorted(x for x in S if x not in (0, WD)):
        pages.update(short_pages(g))
    return pages


def _all_contents():
    res = {}
    import itertools

    for n in range(len(GENS) + 2):
        for sub in itertools.combinations([0] + GENS, n):
            res[json.dumps(sorted(concrete(sub).items()))] = sorted(sub)
    for n in range(len(JGENS) + 2):
        for sub in itertools.combinations([0] + JGENS, n):
            res.setdefault(json.dumps(sorted(concrete(sub).items())), sorted(sub))
    return res


CONTENTS = _all_contents()


def decode(rows) -> list:
    """rows: [(title, ns, body, model)] -> abstract content (sorted list) or [TORN]."""
    d = {}
    for t, ns, body, model in rows:
        if t in DEFAULT_TEMPLATES:
            continue
        d[(t, ns)] = (_short(body), model)
    return CONTENTS.get(json.dumps(sorted(d.items())), [TORN])


def page_versions(rows) -> list:
    """For a page table that is no union of complete overwrites: which overwrite numbers do its pages
    come from (0 = base pages, -1 = a page of no version at all)?"""
    seen = set()
    for t, ns, body, model in rows:
        if t in DEFAULT_TEMPLATES:
            continue
        v = (_short(body), model)
        gs = [0] if BASE.get((t, ns)) == v else []
        gs += [g for g in GENS + JGENS if short_pages(g).get((t, ns)) == v]
        seen.add(max(gs) if gs else -1)
    return sorted(seen)


def write_overrides(root: Path) -> dict:
    """Override sources in both formats the library reads."""
    ov = {}
    (root / "ov").mkdir()
    for g in GENS + JGENS:
        pages = jpages(g) if g > 10 else override_pages(g)
        if g % 4 == 1:  # JSON file, contains a template (analyze_and_overwrite_pages branch 1)
            p = root / "ov" / f"{g}.json"
            p.write_text(json.dumps({t: {"namespace_id": ns, "body": b, "model": m} for (t, ns), (b, m) in pages.items()}))
        else:  # old folder format "TITLE: ..." without template (branch 2)
            p = root / "ov" / f"{g}"
            p.mkdir()
            for i, ((t, ns), (b, m)) in enumerate(pages.items()):
                (p / f"f{i}.txt").write_text(f"TITLE: {t}\n{b}")
        ov[g] = str(p)
    return ov


# ---------------------------------------------------------------------------
# the shape of the database path (spec/BackupPaths.tla)
# ---------------------------------------------------------------------------
UTF8 = {"JAVA_TOOL_OPTIONS": "-Dfile.encoding=UTF-8 -Dstdout.encoding=UTF-8 -Dsun.stdout.encoding=UTF-8"}
SIB_PAGE = ("Sibling page", 0, "committed in the write-ahead log of the sibling", "wikitext")


def path_shapes(o: Outcome | None, thorough: bool) -> list:
    """TLC: the explored path shapes with the names of their files and their siblings (SHAPE cases),
    the laws N2-N5 checked on them; the two demo configurations must show the counterexample of a
    computation that reads the name as a pattern (vacuity guard)."""
    jobs = [("Paths", "BackupPaths", "BackupPaths_all.cfg" if thorough else "BackupPaths_quick.cfg", dict(workers=1, timeout=300, env=UTF8)),
            ("Demo_BackupPaths_restoreglob", "BackupPaths", "Demo_BackupPaths_restoreglob.cfg", dict(workers=1, check=False, env=UTF8)),
            ("Demo_BackupPaths_closeglob", "BackupPaths", "Demo_BackupPaths_closeglob.cfg", dict(workers=1, check=False, env=UTF8)),
            ("Demo_BackupPaths_tempbysuffix", "BackupPaths", "Demo_BackupPaths_tempbysuffix.cfg", dict(workers=1, check=False, env=UTF8))]
    res = tlc_many(jobs)
    shapes = sorted(res["Paths"].tagged("SHAPE"), key=lambda c: c["id"])
    if o is not None:
        for name, *_ in jobs:
            o.add_tlc(name, res[name])
        for name in ("Demo_BackupPaths_restoreglob", "Demo_BackupPaths_closeglob", "Demo_BackupPaths_tempbysuffix"):
            o.extra.setdefault("demo_counterexample_found", {})[name] = bool(res[name].invariant_violated)
            if not res[name].invariant_violated:
                raise common.TLCError(f"{name} no longer shows its counterexample (a name read as a pattern / a temp name that is the backup name; vacuity guard)")
    if not shapes:
        raise common.TLCError("BackupPaths printed no shape")
    for sh in shapes:
        names = list(sh["files"].values()) + [x for q in sh["sibs"] for x in q.values()]
        if len(set(names)) != len(names) or any("/" in n or not n for n in names):
            raise RuntimeError("BackupPaths: names of a shape are not distinct file names: " + json.dumps(sh))
    return shapes


def shape_desc(sh: dict) -> str:
    return (f"database path shape '{sh['id']}': " + ("relative path " if sh["rel"] else "")
            + repr((sh["dir"] + "/" if sh["dir"] else "") + sh["files"]["main"]) + f" ({sh['what']})")


def shape_dir(base: Path, sh: dict | None) -> Path:
    return base / sh["dir"] if sh and sh["dir"] else base


def shape_db(base: Path, sh: dict | None) -> Path:
    return shape_dir(base, sh) / (sh["files"]["main"] if sh else DBNAME)


def build_sibling_seed(root: Path, s0: Path) -> Path:
    """A database of another owner, left by a killed process: main file with the base pages + one more
    page that is committed in its own -wal (+ -shm).  Made with sqlite3 alone."""
    d = root / "SIB"
    d.mkdir()
    shutil.copy(s0 / DBNAME, d / "x")
    pid = os.fork()
    if pid == 0:
        try:
            con = sqlite3.connect(str(d / "x"))
            con.execute("PRAGMA journal_mode=WAL").fetchall()
            con.execute("INSERT INTO pages(title, namespace_id, body, model) VALUES (?, ?, ?, ?)", SIB_PAGE)
            con.commit()
            os._exit(0)
        except BaseException:
            os._exit(3)
    _, st = os.waitpid(pid, 0)
    if os.waitstatus_to_exitcode(st) != 0 or not (d / "x-wal").exists() or (d / "x-wal").stat().st_size == 0:
        raise RuntimeError("could not build the sibling database")
    return d


def build_shape(root: Path, sh: dict, sib_seed: Path) -> Path:
    """Start state of a shape: the base database built by the library under that name, the siblings beside it."""
    base = root / ("SH_" + sh["id"])
    d = shape_dir(base, sh)
    build_base(d, sh["files"]["main"], sh["rel"])
    for q in sh["sibs"]:
        shutil.copy(sib_seed / "x", d / q["main"])
        shutil.copy(sib_seed / "x-wal", d / q["wal"])
        shutil.copy(sib_seed / "x-shm", d / q["shm"])
    return base


_PROBES: list = []


def probe_tempdir_close(root: Path, sh: dict, sib_seed: Path) -> dict:
    """BackupPaths N5: close_db_conn() removes the files of a database that lies directly in the temporary
    directory.  The shape's directory (database, backup, siblings = BackupPaths!DirBefore) is made the temporary
    directory of a child process (tempfile.tempdir), which opens, backs up, commits and closes."""
    top = root / ("TC_" + sh["id"])
    shutil.copytree(root / ("SH_" + sh["id"]), top)
    d = shape_dir(top, sh)
    r, w = os.pipe()
    pid = os.fork()
    if pid == 0:
        try:
            os.close(r)
            _quiet()
            tempfile.tempdir = str(d)
            from wikitextprocessor import Wtp

            if sh["rel"]:
                os.chdir(d)
            ctx = Wtp(db_path=sh["files"]["main"] if sh["rel"] else str(d / sh["files"]["main"]), quiet=True)
            ctx.backup_db()
            ctx.add_page("Probe", 0, body="x")
            ctx.db_conn.commit()
            before = sorted(p.name for p in d.iterdir())
            err = None
            try:
                ctx.close_db_conn()
            except Exception as e:  # noqa: BLE001
                err = repr(e)
            os.write(w, json.dumps({"before": before, "after": sorted(p.name for p in d.iterdir()), "error": err}).encode())
        finally:
            os._exit(0)
    os.close(w)
    data = b""
    while True:
        b = os.read(r, 65536)
        if not b:
            break
        data += b
    os.close(r)
    os.waitpid(pid, 0)
    shutil.rmtree(top, ignore_errors=True)
    res = json.loads(data.decode())
    res["removed"] = sorted(set(res["before"]) - set(res["after"]))
    res["shape"] = sh["id"]
    return res


def sibling_state(d: Path, sh: dict, scratch: Path) -> dict:
    """-> {} when every sibling file is as it was built; else sibling name -> what happened."""
    out = {}
    ref = _G.get("sib_ref")
    for q in sh["sibs"]:
        diff = []
        for role in ("main", "wal", "shm"):
            f = d / q[role]
            if not f.exists():
                diff.append(f"{q[role]} removed")
            elif ref and hashlib.sha1(f.read_bytes()).hexdigest() != ref[role]:
                diff.append(f"{q[role]} changed")
        if diff:
            # what a reader of the sibling database would see now (copies)
            rows = None
            if (d / q["main"]).exists():
                shutil.rmtree(scratch, ignore_errors=True)
                scratch.mkdir()
                shutil.copy(d / q["main"], scratch / "q")
                if (d / q["wal"]).exists():
                    shutil.copy(d / q["wal"], scratch / "q-wal")
                try:
                    con = sqlite3.connect(str(scratch / "q"))
                    rows = sorted(r[0] for r in con.execute("SELECT title FROM pages"))
                    con.close()
                except sqlite3.DatabaseError:
                    rows = None
            lost = rows is None or SIB_PAGE[0] not in rows or "Base" not in rows
            out[q["main"]] = {"files": diff, "content_lost": lost}
    return out


# ---------------------------------------------------------------------------
# observing the files from outside (copies only; the originals are not touched)
# ---------------------------------------------------------------------------
def _read_db(path: Path):
    """-> (st, content) of a database file (with whatever -wal lies beside it)."""
    try:
        con = sqlite3.connect(str(path))
        try:
            tabs = {r[0] for r in con.execute("SELECT name FROM sqlite_master WHERE type='table'")}
            rows = []
            if "pages" in tabs:
                rows = [(r[0], r[1], r[2], r[3]) for r in con.execute("SELECT title, namespace_id, body, model FROM pages")]
            c = decode(rows)
            if "wikidata_items" in tabs and c != [TORN]:
                c = sorted(c + [WD])
            return "db", c
        finally:
            con.close()
    except sqlite3.DatabaseError:
        return "corrupt", []


JOURNAL_MAGIC = bytes.fromhex("d9d505f920a163d7")


def _header_mode(path: Path) -> str:
    """Journal mode stored in the database header (file format write/read version, bytes 18-19)."""
    with open(path, "rb") as f:
        h = f.read(20)
    if len(h) < 20:
        return "?"
    return {(1, 1): "del", (2, 2): "wal"}.get((h[18], h[19]), "?")


def _journal_state(path: Path) -> str:
    """absent / cold (header not synced yet: SQLite ignores the file) / hot."""
    if not path.exists():
        return "absent"
    with open(path, "rb") as f:
        return "hot" if f.read(8) == JOURNAL_MAGIC else "cold"


def _file_state(path: Path, scratch: Path, with_wal: Path | None = None, with_jrn: Path | None = None):
    if not path.exists():
        return {"st": "absent", "c": [], "m": "-"}
    if path.stat().st_size == 0:
        return {"st": "zero", "c": [], "m": "-"}
    shutil.rmtree(scratch, ignore_errors=True)
    scratch.mkdir()
    shutil.copy(path, scratch / "x.db")
    if with_wal is not None and with_wal.exists():
        shutil.copy(with_wal, scratch / "x.db-wal")
    if with_jrn is not None and with_jrn.exists():
        # main file + its rollback journal are one thing (SQLite rolls the copy back when the journal is hot)
        shutil.copy(with_jrn, scratch / "x.db-journal")
    mode = _header_mode(path)
    st, c = _read_db(scratch / "x.db")
    return {"st": st, "c": c, "m": mode if st == "db" else "-"}


def observe(d: Path, scratch: Path, sh: dict | None = None) -> dict:
    """sh: a path shape of BackupPaths - the file names are the ones TLC computed for it (law N1)."""
    if sh is None:
        main = d / DBNAME
        wal = d / (DBNAME + "-wal")
        shm = d / (DBNAME + "-shm")
        jrn = d / (DBNAME + "-journal")
        bak = main.with_stem(main.stem + "_backup")
        known = {main.name, wal.name, shm.name, jrn.name, bak.name}
    else:
        f = sh["files"]
        main, wal, shm, jrn, bak = (d / f[x] for x in ("main", "wal", "shm", "jrn", "bak"))
        known = {main.name, wal.name, shm.name, jrn.name, bak.name} | {x for q in sh["sibs"] for x in q.values()}
    others = sorted(p for p in d.iterdir() if p.name not in known)
    m = _file_state(main, scratch, with_jrn=jrn)
    if m["st"] == "db":
        vis = _file_state(main, scratch, with_wal=wal, with_jrn=jrn)["c"]
    else:
        vis = []
    if not others:
        tmp = {"st": "absent", "c": [], "m": "-"}
    elif len(others) == 1:
        tmp = _file_state(others[0], scratch)
    else:
        tmp = {"st": "multi", "c": [], "m": "-"}
    res = {
        "main": m,
        "wal": "absent" if not wal.exists() else ("empty" if wal.stat().st_size == 0 else "data"),
        "vis": vis,
        "shm": "present" if shm.exists() else "absent",
        "jrn": _journal_state(jrn),
        "bak": _file_state(bak, scratch),
        "tmp": tmp,
    }
    if sh is not None:
        sib = sibling_state(d, sh, scratch)
        if sib:
            res["sib"] = sib
        if len(others) == 1 and others[0].name != sh["files"]["tmp"]:
            res["tmpname"] = others[0].name
    return res


def okey(o: dict) -> str:
    return json.dumps(
        [o["main"]["st"], sorted(o["main"]["c"]), o["wal"], sorted(o["vis"]), o["shm"],
         o["bak"]["st"], sorted(o["bak"]["c"]), o["tmp"]["st"], sorted(o["tmp"]["c"]),
         o["main"]["m"], o["bak"]["m"], o["tmp"]["m"], o["jrn"]]
    )


def dirhash(d: Path) -> str:
    h = hashlib.sha1()
    for p in sorted(d.iterdir()):
        h.update(p.name.encode())
        h.update(b"\0")
        h.update(p.read_bytes())
    return h.hexdigest()


def dirsig(d: Path) -> str:
    """Change detector for the line-by-line run of a flow that writes megabytes: content for small
    files, (size, mtime) for large ones.  (A missed change only costs kill points around it: the
    sweeps refine every gap whose ends differ in observed file state anyway.)"""
    h = hashlib.sha1()
    for p in sorted(d.iterdir()):
        h.update(p.name.encode())
        h.update(b"\0")
        st = p.stat()
        if st.st_size > 262144:
            h.update(f"{st.st_size}:{st.st_mtime_ns}".encode())
        else:
            h.update(p.read_bytes())
    return h.hexdigest()


# ---------------------------------------------------------------------------
# the real flows, run in a child process and killed at the k-th executed line
# ---------------------------------------------------------------------------
def _quiet():
    import logging

    logging.disable(logging.CRITICAL)


# library calls of a real flow -> number of model calls ("backup"/"write"/"close") each one performs
FLOW_CALLS = {"BOC": [2, 1], "OC": [1, 1], "BC": [1, 1], "C": [1], "BOBC": [1, 1, 1, 1], "OBC": [1, 1, 1],
              "OBOVC": [1, 1, 1, 1, 1]}


def ov_paths(ov: dict, flow: str, gen: int):
    """Override source(s) of a flow whose first overwrite has number gen (one per overwrite call)."""
    n = sum(1 for c in FLOWDEF[flow] if c in ("write", "bigwrite"))
    return [ov[gen + i] for i in range(max(n, 1))]


def real_flow(flow: str, db: Path, ov, mark=lambda: None) -> None:
    """mark() is called when the context is open and after every library call that returned
    (progress marks: how far the process got, independent of the file states).
    ov: override source of the flow's overwrite, or the list of them (one per overwrite call)."""
    ovs = [ov] if isinstance(ov, str) else list(ov)
    ov = ovs[0]
    from wikitextprocessor import Wtp
    from wikitextprocessor.dumpparser import analyze_and_overwrite_pages, process_dump

    w = Wtp(db_path=str(db), quiet=True)
    mark()
    if flow == "BOC":
        process_dump(w, "", {0, 10, 828}, overwrite_folders=[Path(ov)], skip_extract_dump=True)
        mark()
    elif flow == "OC":
        analyze_and_overwrite_pages(w, [Path(ov)], False, None)
        mark()
    elif flow == "BC":
        w.backup_db()
        mark()
    elif flow == "BOBC":
        w.backup_db()
        mark()
        analyze_and_overwrite_pages(w, [Path(ov)], False, None)
        mark()
        w.backup_db()
        mark()
    elif flow == "OBC":
        analyze_and_overwrite_pages(w, [Path(ov)], False, None)
        mark()
        w.backup_db()
        mark()
    elif flow == "OBOVC":
        analyze_and_overwrite_pages(w, [Path(ovs[0])], False, None)
        mark()
        w.backup_db()
        mark()
        analyze_and_overwrite_pages(w, [Path(ovs[1])], False, None)
        mark()
        analyze_and_overwrite_pages(w, [Path(ovs[2])], False, None)  # the big one
        mark()
    elif flow != "C":
        raise ValueError(flow)
    w.close_db_conn()
    mark()


def _pkg_dir() -> str:
    import wikitextprocessor

    return os.path.dirname(os.path.abspath(wikitextprocessor.__file__)) + os.sep


def fork_flow(flow: str, db: Path, ov, k: int, rel: bool = False):
    """Run the flow in a forked child; kill it before the k-th executed line of the
    package.  k <= 0: never kill; the child then reports the number of executed lines
    and the line indices before which the bytes of the database directory had changed
    (the step boundaries; found by looking at the files, not at line numbers).
    rel: the process runs in the directory of the database and names it by a relative path."""
    r, w = os.pipe()
    pid = os.fork()
    if pid == 0:
        try:
            os.close(r)
            _quiet()
            if rel:
                os.chdir(db.parent)
                db = Path(db.name)
            pkg = _pkg_dir()
            cnt = [0]
            dh = globals()["dirsig" if flow == JFLOW else "dirhash"]
            last = [dh(db.parent) if k <= 0 else None]
            changes = []

            def local(frame, event, arg):
                if event == "line":
                    cnt[0] += 1
                    if cnt[0] == k:
                        os._exit(137)
                    if k <= 0:
                        h = dh(db.parent)
                        if h != last[0]:
                            last[0] = h
                            changes.append(cnt[0])
                return local

            def glob(frame, event, arg):
                return local if frame.f_code.co_filename.startswith(pkg) else None

            marks_at = []

            def mark():
                t = sys.gettrace()
                sys.settrace(None)
                marks_at.append(cnt[0])
                os.write(w, b"P\n")
                sys.settrace(t)

            sys.settrace(glob)
            real_flow(flow, db, ov, mark)
            sys.settrace(None)
            if k <= 0 and dh(db.parent) != last[0]:
                changes.append(cnt[0] + 1)
            os.write(w, json.dumps({"lines": cnt[0], "changes": changes, "marks_at": marks_at}).encode())
            os._exit(0)
        except BaseException as e:  # noqa  (the flow raised: the process dies here, no cleanup)
            try:
                sys.settrace(None)
                os.write(w, json.dumps({"lines": cnt[0], "changes": changes, "error": repr(e)[:300]}).encode())
            finally:
                os._exit(3)
    os.close(w)
    data = b""
    while True:
        b = os.read(r, 65536)
        if not b:
            break
        data += b
    os.close(r)
    _, st = os.waitpid(pid, 0)
    lines = data.decode().split("\n")
    marks = sum(1 for x in lines if x == "P")
    return os.waitstatus_to_exitcode(st), "".join(x for x in lines if x != "P"), marks


def fork_reopen(db: Path, rel: bool = False) -> dict:
    """A new process opens the database path (unmodified Wtp) and reads everything."""
    r, w = os.pipe()
    pid = os.fork()
    if pid == 0:
        try:
            os.close(r)
            _quiet()
            if rel:
                os.chdir(db.parent)
                db = Path(db.name)
            from wikitextprocessor import Wtp

            res = {}
            try:
                ctx = Wtp(db_path=str(db), quiet=True)
                rows = [(p.title, p.namespace_id, p.body, p.model) for p in ctx.get_all_pages()]
                res["content"] = decode(rows)
                if res["content"] == [TORN]:
                    res["page_versions"] = page_versions(rows)
                res["npages"] = len(rows)
                res["integrity"] = [x[0] for x in ctx.db_conn.execute("PRAGMA integrity_check")]
                res["error"] = None
            except Exception as e:  # the open itself failing is a failure of the property
                res = {"content": [TORN], "npages": -1, "integrity": [], "error": repr(e)}
            os.write(w, json.dumps(res).encode())
        finally:
            os._exit(0)
    os.close(w)
    data = b""
    while True:
        b = os.read(r, 65536)
        if not b:
            break
        data += b
    os.close(r)
    os.waitpid(pid, 0)
    return json.loads(data.decode())


def build_jstarts(root: Path, s0: Path) -> dict:
    """Start states of the journal dimension (Backup!InitOf): an existing zero-length file, a path that
    does not exist, the base database with 'rollback journal' in its header (as another tool or an
    older version would have left it)."""
    z, a, dl = root / "SZ", root / "SA", root / "SD"
    z.mkdir()
    (z / DBNAME).touch()
    a.mkdir()
    shutil.copytree(s0, dl)
    con = sqlite3.connect(str(dl / DBNAME))
    con.execute("PRAGMA journal_mode=DELETE").fetchall()
    con.close()
    if _header_mode(dl / DBNAME) != "del" or sorted(p.name for p in dl.iterdir()) != [DBNAME]:
        raise RuntimeError("could not build the rollback-mode start state")
    return {"zero": z, "absent": a, "basedel": dl}


def build_base(d: Path, name: str = DBNAME, rel: bool = False) -> None:
    """S0: a cleanly closed database with the base pages (built by a child process)."""
    d.mkdir(parents=True)
    pid = os.fork()
    if pid == 0:
        try:
            _quiet()
            from wikitextprocessor import Wtp
            from wikitextprocessor.dumpparser import add_default_templates

            if rel:
                os.chdir(d)
            w = Wtp(db_path=name if rel else str(d / name), quiet=True)
            for (t, ns), (b, m) in BASE.items():
                w.add_page(t, ns, body=b, model=m)
            add_default_templates(w)
            w.close_db_conn()
            os._exit(0)
        except BaseException:
            import traceback

            traceback.print_exc()
            os._exit(3)
    _, st = os.waitpid(pid, 0)
    if os.waitstatus_to_exitcode(st) != 0:
        raise RuntimeError("could not build the base database")


_G: dict = {}


def exec_tasks(chunk):
    """chunk: [(start_id, flow, gen, k, keep)] -> results.  keep: directory to keep
    the killed state in (for level-2 start states) or None."""
    common.use_repo()
    import wikitextprocessor.wikidata  # noqa: F401  (imported before forking: stable line counts)

    root = Path(_G["root"])
    starts = _G["starts"]
    ov = _G["ov"]
    res = []
    cache: dict = {}
    wd = Path(tempfile.mkdtemp(prefix="c11w-", dir=str(root / "work")))
    try:
        for sid, flow, gen, k, keep in chunk:
            st = starts[sid]
            sh = st.get("shape")
            rel = bool(sh and sh["rel"])
            top = wd / "d"
            shutil.rmtree(top, ignore_errors=True)
            shutil.copytree(st["dir"], top)
            work = shape_dir(top, sh)
            rc, msg, marks = fork_flow(flow, shape_db(top, sh), ov_paths(ov, flow, gen), k, rel)
            r = {"sid": sid, "flow": flow, "k": k, "rc": rc, "msg": "", "marks": marks}
            if rc not in (0, 3, 137):
                raise RuntimeError(f"child running flow {flow} ended with status {rc}")
            if rc == 3 or k <= 0:
                info = json.loads(msg)
                r["msg"] = info.get("error", "")
                if k <= 0:
                    r.update(lines=info["lines"], changes=info["changes"], marks_at=info.get("marks_at", []))
            h = dirhash(work)
            if st.get("hash") == h and st.get("result"):
                cache[h] = st["result"]
            if h in cache and not keep:
                # byte-identical to a state already examined: the reopen is a function of the bytes
                c = cache[h]
                r.update(obs=c["obs"], reopen=c["reopen"], robs=c["robs"], same=True)
            else:
                r["obs"] = observe(work, wd / "s", sh)
                if keep:
                    shutil.rmtree(keep, ignore_errors=True)
                    shutil.copytree(top, keep)
                r["reopen"] = fork_reopen(shape_db(top, sh), rel)
                r["robs"] = observe(work, wd / "s", sh)
                cache[h] = {"obs": r["obs"], "reopen": r["reopen"], "robs": r["robs"]}
            res.append(r)
    finally:
        shutil.rmtree(wd, ignore_errors=True)
    return res


def start_result(root: Path, starts, ov, sid) -> None:
    """Observation + reopen result of an untouched start state (reused for every kill
    point that leaves the directory byte-identical)."""
    _G.update(root=str(root), starts=starts, ov=ov)
    wd = Path(tempfile.mkdtemp(prefix="c11w-", dir=str(root / "work")))
    try:
        sh = starts[sid].get("shape")
        top = wd / "d"
        shutil.copytree(starts[sid]["dir"], top)
        work = shape_dir(top, sh)
        obs = observe(work, wd / "s", sh)
        re = fork_reopen(shape_db(top, sh), bool(sh and sh["rel"]))
        starts[sid]["hash"] = dirhash(shape_dir(Path(starts[sid]["dir"]), sh))
        starts[sid]["result"] = {"obs": obs, "reopen": re, "robs": observe(work, wd / "s", sh)}
    finally:
        shutil.rmtree(wd, ignore_errors=True)


def count_lines(root: Path, starts, ov, sid, flow, gen):
    _G.update(root=str(root), starts=starts, ov=ov)
    r = exec_tasks([(sid, flow, gen, 0, None)])[0]
    return r["lines"], r["changes"]


# ---------------------------------------------------------------------------
# sweeps
# ---------------------------------------------------------------------------
class Sweep:
    """All kill points of one flow from one start state."""

    def __init__(self, sid, flow, gen, K, changes=(), stride=None, marks_at=()):
        self.sid, self.flow, self.gen, self.K = sid, flow, gen, K
        self.changes = list(changes)  # line indices before which the directory bytes had changed
        self.stride = stride          # own stride (None: the one of the run)
        self.marks_at = list(marks_at)  # line counts at the progress marks (open done, call 1 returned, ...)
        self.res: dict[int, dict] = {}

    def seq(self):
        """Deduplicated sequence of observed file states in execution order and, per
        kill point, the index (1-based) of its state in that sequence."""
        seq, idx = [], {}
        for k in sorted(self.res):
            key = okey(self.res[k]["obs"])
            if not seq or okey(seq[-1]) != key:
                seq.append(self.res[k]["obs"])
            idx[k] = len(seq)
        return seq, idx


def run_sweeps(root, starts, ov, sweeps: list[Sweep], stride: int):
    """Kill every sweep at (stride == 1: every line) / (a stride, then every line in
    each gap whose ends differ in file state).  k = K + 1 is the kill after the last
    line (process exit without cleanup)."""
    _G.update(root=str(root), starts=starts, ov=ov)
    tasks = []
    for i, sw in enumerate(sweeps):
        st_ = sw.stride or stride
        if isinstance(st_, tuple):  # (stride while the context is being opened, stride of the calls after it)
            m0 = sw.marks_at[0] if sw.marks_at else 0
            ks = set(list(range(1, m0 + 1, st_[0])) + list(range(m0 + 1, sw.K + 2, st_[1])) + [sw.K, sw.K + 1])
        else:
            ks = set(list(range(1, sw.K + 2, st_)) + [sw.K, sw.K + 1])
        for c in sw.changes:  # both sides of every step boundary
            ks.update(x for x in (c - 1, c, c + 1) if 1 <= x <= sw.K + 1)
        ks = sorted(ks)
        tasks += [(i, k) for k in ks]

    def run(tl):
        # the costly tasks first (the flow that writes megabytes): the parallel map hands out chunks in order
        tl.sort(key=lambda ik: 0 if sweeps[ik[0]].flow == JFLOW else 1)
        out = pmap(exec_tasks, [(sweeps[i].sid, sweeps[i].flow, sweeps[i].gen, k, None) for i, k in tl])
        for (i, k), r in zip(tl, out):
            sweeps[i].res[k] = r

    run(tasks)
    if stride > 1 or any(sw.stride and sw.stride != 1 for sw in sweeps):
        while True:
            fill = []
            for i, sw in enumerate(sweeps):
                ks = sorted(sw.res)
                for a, b in zip(ks, ks[1:]):
                    if b - a > 1 and okey(sw.res[a]["obs"]) != okey(sw.res[b]["obs"]):
                        fill += [(i, k) for k in range(a + 1, b)]
            if not fill:
                break
            run(fill)


# ---------------------------------------------------------------------------
# TLC side
# ---------------------------------------------------------------------------
def tlc_many(jobs: list):
    """[(name, module, cfg, kwargs)] -> {name: TLCResult}; independent TLC runs side by side."""
    from concurrent.futures import ThreadPoolExecutor

    with ThreadPoolExecutor(max_workers=min(8, len(jobs))) as ex:
        futs = [(name, ex.submit(tlc, mod, cfg, **kw)) for name, mod, cfg, kw in jobs]
        return {name: f.result() for name, f in futs}


def _table(r):
    t: dict = {}
    for c in r.cases:
        key = tuple((run["flow"], okey(run["obs"])) for run in c["runs"])
        t.setdefault((c["start"], key), []).append(c)
    return t


def gen_tables(o: Outcome, journal: bool = True):
    """kind of start state -> variant -> {chain key -> [case]}; chain key = ((flow, obskey), ...)."""
    jobs = [("Gen_" + name, "Gen_Backup", cfg, dict(workers=1, timeout=900)) for name, (devs, cfg) in VARIANTS.items() if cfg]
    if journal:
        jobs += [("Gen_J_" + name, "Gen_Backup", cfg, dict(workers=1, timeout=900)) for name, cfg in JVARIANTS.items()]
    res = tlc_many(jobs)
    tabs: dict = {"base": {}}
    for kind in JKINDS:
        tabs[kind] = {v: {} for v in VARIANTS}
    for name, _mod, _cfg, _kw in jobs:
        r = res[name]
        o.add_tlc(name, r)
        for (start, key), cases in _table(r).items():
            v = name[6:] if name.startswith("Gen_J_") else name[4:]
            tabs.setdefault(start, {}).setdefault(v, {})[key] = cases
    for v in VARIANTS:
        tabs["base"].setdefault(v, {})
    return tabs


def validate_traces_all(o: Outcome, traces: list, variants: list, prefix: str = "Trace_"):
    """Every variant of the model against the same traces (independent TLC runs, side by side)."""
    from concurrent.futures import ThreadPoolExecutor

    with ThreadPoolExecutor(max_workers=min(6, len(variants))) as ex:
        futs = [(v, ex.submit(validate_traces, None, traces, v, prefix + v)) for v in variants]
        out = {}
        for v, f in futs:
            r, done, pred = f.result()
            o.add_tlc(prefix + v, r)
            out[v] = (done, pred)
    return out


def validate_traces(o: Outcome | None, traces: list, variant: str, name: str):
    """-> (done: {tid: [..]}, pred: {(tid, oi): [..]})  (o is None: -> (TLCResult, done, pred))"""
    with Scratch("c11t-") as d:
        tf = d / "trace.json"
        tf.write_text(json.dumps({"dev": VARIANTS[variant][0], "flowdef": FLOWDEF, "traces": traces}))
        cfg = "SPECIFICATION TSpec\nINVARIANT Verdict\nCHECK_DEADLOCK FALSE\n"
        r = tlc("Trace_Backup", "trace.cfg", cfg_text=cfg, workers=1, env={"TRACE_FILE": str(tf)}, timeout=1800)
    if o is not None:
        o.add_tlc(name, r)
    done: dict = {}
    pred: dict = {}
    for x in r.tagged("DONE"):
        done.setdefault(x["tid"], []).append(x)
        pred.setdefault((x["tid"], "done"), []).append(x)
    for x in r.tagged("PRED"):
        pred.setdefault((x["tid"], x["oi"]), []).append(x)
    if o is None:
        return r, done, pred
    return done, pred


def make_trace(tid, prefix_runs, sw: Sweep, kind: str = "base"):
    seq, idx = sw.seq()
    last_k = max(sw.res)
    killed = sw.res[last_k]["rc"] != 0  # killed, or died from an exception of the flow
    runs = prefix_runs + [{"flow": sw.flow, "obs": seq, "killed": bool(killed)}]
    runs = [dict(r_, obs=[{f: v for f, v in ob.items() if f not in ("sib", "tmpname")} for ob in r_["obs"]]) for r_ in runs]
    return {"tid": tid, "start": kind, "runs": runs}, idx


# ---------------------------------------------------------------------------
# judging one real kill point
# ---------------------------------------------------------------------------
def pages_of(c):
    return sorted(x for x in c if x != WD)


def judge(o: Outcome, case: dict, real: dict, cands: list, tabs: dict, chain_key, tree: str | None):
    """real: reopen result; cands: [{expected, pred, sound}] from TLC for the model
    states the observed file state corresponds to (any of them is acceptable)."""
    rc = pages_of(real["content"])
    integ_ok = real["integrity"] == ["ok"] and real["error"] is None
    o.evaluations += 1
    if not cands:
        return "nomatch"
    if any(sorted(c["expected"]) == rc for c in cands) and integ_ok:
        if not any(sorted(c["pred"]) == rc for c in cands):
            o.note_drift({"case": case, "why": "content is what the statement demands but not what the model predicts"})
        return "ok"
    exp = sorted(cands[0]["expected"])
    why = (
        f"a new Wtp(db_path) after the kill yields content {describe(real['content'], real.get('page_versions'))}"
        f"{'' if integ_ok else ' (integrity_check: ' + str(real['integrity'] or real['error']) + ')'}; "
        f"the statement demands {describe(exp)}" + side_files_note(case.get("files")) + path_note(case)
    )
    # which deviations of the model explain it?  smallest Dev whose model has this
    # chain of observed file states and predicts exactly the real content
    explained = None
    for v in ORDER:
        for c in tabs.get(v, {}).get(chain_key, []):
            if sorted(c["pred"]) == rc and sorted(c["expected"]) != rc:
                explained = VARIANTS[v][0]
                break
            if v == "modekept" and not c["sound"] and sorted(c["expected"]) != rc:
                # the model only says "pre-images of another database are written over the restored
                # file": any content but the demanded one is explained by it
                explained = VARIANTS[v][0]
                break
        if explained is not None:
            break
    case = dict(case, reopen=real, expected=exp)
    if explained:
        o.classify(case, why, explained, cls="+".join(explained))
    else:
        o.violation(case, why, cls="unexplained:" + case["flows"])
    return "bad"


def path_note(case: dict) -> str:
    """The shape of the database path, and which files of the database lay in its directory when the process
    died (by the names BackupPaths computes for this path)."""
    if not case.get("path"):
        return ""
    ob = case.get("files") or {}
    present = [n for n, v in (("-wal", ob.get("wal")), ("-shm", ob.get("shm")), ("-journal", ob.get("jrn")))
               if v not in (None, "absent")]
    if (ob.get("bak") or {}).get("st", "absent") != "absent":
        present.append("the backup")
    return (f" | {case['path']}: the expected content does not depend on the name; beside the database lay "
            + (", ".join(present) or "no side file") + " of its own (BackupPaths N4: the restore removes exactly the -wal and -shm "
            "of this database before the backup is renamed over it)")


def judge_siblings(o: Outcome, case: dict, r: dict, sh: dict) -> None:
    """Law N3/N4 of BackupPaths: a flow on one database touches no file of a sibling database.  A sibling that
    lost committed content contradicts the statement for the sibling's path (opening it no longer yields its
    last committed content); a touched file that costs no content is drift."""
    for when, ob in (("when the process died", r["obs"]), ("after the next open of the database path", r.get("robs") or {})):
        for qname, info in (ob.get("sib") or {}).items():
            o.extra["path_shapes"]["sibling_files_touched"] += 1
            what = (f"{when}, file(s) of the sibling database {qname!r} in the same directory were touched: "
                    + ", ".join(info["files"]))
            if info["content_lost"]:
                o.violation(dict(case, sibling=qname, sibling_files=info["files"]),
                            what + f" - opening {qname!r} no longer yields its last committed content (its pages were committed "
                            "in its own write-ahead log); only the files BackupPaths!FileSet of the database itself may be touched"
                            + path_note(case), cls="sibling:" + case["flows"])
            else:
                o.note_drift({"case": case, "why": what + " (no committed content of the sibling lost)"})
            return
    if r["obs"].get("tmpname") or (r.get("robs") or {}).get("tmpname"):
        o.extra["path_shapes"]["temp_name_differs_from_model"] += 1


def coarse_candidates(tabs: dict, chain_prefix, flow: str, marks: int):
    """Cases of the ideal model whose earlier runs have exactly the observed file states and whose last
    run is `flow`, ended at a position compatible with the progress marks of the real process
    (marks = 0: still opening; otherwise the library call number `marks` was running - or, when all
    calls had returned, the process was done)."""
    calls = FLOW_CALLS[flow]
    out = []
    for key, cases in tabs.get("ideal", {}).items():
        if len(key) != len(chain_prefix) + 1 or tuple(key[:-1]) != tuple(chain_prefix) or key[-1][0] != flow:
            continue
        for c in cases:
            last = c["runs"][-1]
            st, stop = last["started"], last["stop"]
            opening = stop in ("O1", "Ow", "Os", "O2", "O3", "O4", "O5", "O6")
            if marks == 0:
                ok = opening
            elif marks > len(calls):
                ok = stop == "done"
            else:
                a = sum(calls[: marks - 1]) + 1      # first model call of the running library call
                b = sum(calls[:marks])               # last one
                ok = (not opening) and ((a <= st <= b) or (st == a - 1 and stop == "open")) and stop != "done"
                if marks == len(calls) and stop == "done":
                    ok = True                        # killed at the very end of close: may count as finished
            if ok:
                out.append(c)
    return out


def side_files_note(obs) -> str:
    """What lay beside the database when the process died, where it is not what a WAL database leaves."""
    if not obs:
        return ""
    notes = []
    if obs.get("jrn", "absent") != "absent":
        notes.append(f"a {obs['jrn']} rollback journal {DBNAME}-journal lay beside the database")
    if obs["main"].get("m") == "del":
        notes.append("the database header says rollback-journal mode, not WAL")
    return ("; when the process died " + " and ".join(notes)) if notes else ""


def describe(c, versions=None):
    c = list(c)
    if TORN in c:
        if versions:
            return "<no complete page set: pages from " + ", ".join(
                "no version at all" if x < 0 else "the base pages" if x == 0 else f"overwrite #{x}" for x in versions) + ">"
        return "<no complete page set>"
    p = pages_of(c)
    if not p:
        return "{} (no pages at all)"
    return "{" + ", ".join("base pages" if x == 0 else f"overwrite #{x}" for x in p) + "}"


# ---------------------------------------------------------------------------
# quick strides of the journal-dimension sweeps (while the context is opened, during the calls after it);
# every line around each change of the files is killed in addition, every gap whose ends differ is filled
JSTRIDE1, JSTRIDE2, JSTRIDE_OPEN = (96, 16), (192, 48), 32


# path shapes: the flow of process_dump (backup, overwrite, close) on every shape from its clean database,
# then the plain reopen (= the restore) from every distinct state a kill of it leaves
SHAPE_FLOW1, SHAPE_FLOW2 = "BOC", "C"
SHAPE_STRIDE1, SHAPE_STRIDE2 = 16, 32
SHAPE_STRIDE_T = (4, 12)


def is_shape_sid(sid) -> bool:
    return isinstance(sid, str) and sid.startswith("sh:")


def real_sweeps(thorough: bool, o: Outcome | None = None, flows1=None, shapes=None):
    """Phase A (before any TLC output is loaded: the process must stay small, it forks a
    lot): level-1 and level-2 kill sweeps of the real flows."""
    common.use_repo()
    with Scratch("c11-") as root:
        (root / "work").mkdir()
        (root / "states").mkdir()
        ov = write_overrides(root)
        build_base(root / "S0")
        starts = {0: {"dir": str(root / "S0"), "chain": [], "runs": [], "kind": "base"}}
        start_result(root, starts, ov, 0)
        base_key = okey(starts[0]["result"]["obs"])
        flows = list(flows1 or FLOWDEF)
        if not flows1:
            flows.remove(JFLOW)
        # ---------------- level 1: every line of every flow from the clean database
        plan1 = [(0, f, GENS[0], None) for f in flows]
        only_shapes = bool(os.environ.get("C11_ONLY_SHAPES")) and not flows1
        if only_shapes:  # measuring / debugging the path-shape dimension alone
            plan1 = []
        if shapes and not flows1:
            sib_seed = build_sibling_seed(root, root / "S0")
            _G["sib_ref"] = {role: hashlib.sha1((sib_seed / f).read_bytes()).hexdigest()
                             for role, f in (("main", "x"), ("wal", "x-wal"), ("shm", "x-shm"))}
            for sh in shapes:
                sid = "sh:" + sh["id"]
                starts[sid] = {"dir": str(build_shape(root, sh, sib_seed)), "chain": [], "runs": [], "kind": "base", "shape": sh}
                start_result(root, starts, ov, sid)
                if okey(starts[sid]["result"]["obs"]) != base_key:
                    raise RuntimeError("start state of path shape differs from the base database: " + json.dumps(starts[sid]["result"]["obs"]))
                # (thorough: more shapes and a finer stride, not every line - every line around each change of
                # the files is killed anyway, and every gap whose ends differ in file state is filled)
                plan1.append((sid, SHAPE_FLOW1, GENS[0], SHAPE_STRIDE_T[0] if thorough else SHAPE_STRIDE1))
                _PROBES.append(probe_tempdir_close(root, sh, sib_seed))
        if not flows1 and not only_shapes and not os.environ.get("C11_TIMING_NOJ"):
            # journal dimension: the dedicated flow from an existing empty file and from a rollback-mode
            # database; the plain open of a path that does not exist yet
            for kind, d in build_jstarts(root, root / "S0").items():
                sid = {"zero": "Z", "basedel": "D", "absent": "A"}[kind]
                starts[sid] = {"dir": str(d), "chain": [], "runs": [], "kind": kind}
                start_result(root, starts, ov, sid)
            js = None if thorough else JSTRIDE1
            plan1 += [("Z", JFLOW, JGENS[0], js), ("D", JFLOW, JGENS[0], js), ("A", "C", JGENS[0], None if thorough else JSTRIDE_OPEN)]
        _G.update(root=str(root), starts=starts, ov=ov)
        counts = pmap(exec_tasks, [(sid, f, g, 0, None) for sid, f, g, _ in plan1])
        sweeps1 = [Sweep(sid, f, g, c["lines"], c["changes"], stride=s_, marks_at=c["marks_at"])
                   for (sid, f, g, s_), c in zip(plan1, counts)]
        run_sweeps(root, starts, ov, sweeps1, 1 if thorough or flows1 else 4)
        if flows1:
            return starts, sweeps1, [], base_key
        # ---------------- level 2: start from every distinct state a first run can leave
        reps: dict = {}
        for sw in sweeps1:
            if sw.sid not in (0, "A") and not is_shape_sid(sw.sid):
                continue
            seq, idx = sw.seq()
            own = okey(starts[sw.sid]["result"]["obs"])
            for k in sorted(sw.res):
                ok_ = okey(sw.res[k]["obs"])
                key = (sw.sid, sw.flow, ok_) if thorough and not is_shape_sid(sw.sid) else (sw.sid, "*", ok_)
                if key not in reps and ok_ != own:
                    reps[key] = (sw, k, idx[k], seq)
        keep_tasks = []
        nb = nj = 0
        for key, (sw, k, oi, seq) in sorted(reps.items(), key=lambda kv: (str(kv[1][0].sid), kv[1][0].flow, kv[1][1])):
            if sw.sid == 0:
                nb += 1
                n = nb
            elif is_shape_sid(sw.sid):
                n = f"{sw.sid}#{len(keep_tasks)}"
            else:
                nj += 1
                n = f"A{nj}"
            keep_tasks.append((n, sw, k, oi, seq, root / "states" / f"st{len(keep_tasks)}"))
        _G.update(root=str(root), starts=starts, ov=ov)
        kept = pmap(exec_tasks, [(sw.sid, sw.flow, sw.gen, k, str(d)) for (n, sw, k, oi, seq, d) in keep_tasks])
        for (n, sw, k, oi, seq, d), r in zip(keep_tasks, kept):
            if okey(r["obs"]) != okey(sw.res[k]["obs"]):
                raise RuntimeError("kill point not reproducible: " + json.dumps([sw.flow, k, r["obs"], sw.res[k]["obs"]]))
            starts[n] = {
                "dir": str(d), "hash": dirhash(shape_dir(d, starts[sw.sid].get("shape"))), "result": r, "kind": starts[sw.sid]["kind"],
                "chain": [(sw.flow, okey(r["obs"]))],
                "runs": [{"flow": sw.flow, "obs": seq[:oi], "killed": r["rc"] != 0}],
            }
            if starts[sw.sid].get("shape"):
                starts[n]["shape"] = starts[sw.sid]["shape"]
        flows2 = flows if thorough else ["BOC", "C", "OC"]
        js = None if thorough else JSTRIDE2
        plan2 = [(n, f, GENS[1], None) for n in sorted(x for x in starts if isinstance(x, int) and x != 0) for f in flows2]
        plan2 += [(n, JFLOW, JGENS[3], js) for n in sorted(x for x in starts if isinstance(x, str) and x[1:].isdigit())]
        plan2 += [(n, SHAPE_FLOW2, GENS[1], SHAPE_STRIDE_T[1] if thorough else SHAPE_STRIDE2) for n in sorted(x for x in starts if is_shape_sid(x) and "#" in x)]
        counts = pmap(exec_tasks, [(n, f, g, 0, None) for n, f, g, _ in plan2])
        sweeps2 = []
        for (n, f, g, s_), c in zip(plan2, counts):
            sweeps2.append(Sweep(n, f, g, c["lines"], c["changes"], stride=s_, marks_at=c["marks_at"]))
        run_sweeps(root, starts, ov, sweeps2, 1 if thorough else 24)
        for st in starts.values():
            st.pop("dir", None)
        return starts, sweeps1, sweeps2, base_key


def run(tier: str) -> int:
    o = Outcome(PID, tier)
    thorough = tier == "thorough"
    o.rule = (
        "a case = (start state reached by a killed/complete first flow, flow, kill point); kill points are every "
        "executed line of the package in the child process (level 1 and thorough level 2) or a stride plus every "
        "line between two stride points whose file states differ (quick level 2), plus the exit after the last line; "
        "distinct = distinct (chain of flows, chain of observed file states); non-trivial = some file differs from "
        "the clean initial database | journal dimension: the same from three more start states (existing empty file, "
        "rollback-mode database, missing path) with one dedicated flow (overwrite, backup, overwrite, an overwrite "
        "larger than SQLite's page cache, close; quick: a stride + every line around each file-state change) and, from "
        "every state a killed first open of a missing path leaves, that flow again"
    )
    o.assumptions = [
        "kill = process exit without cleanup at Python line granularity (no power loss, no torn sector writes)",
        "database small enough that SQLite does not auto-checkpoint during a flow (the big overwrite: "
        "3 MB = more than the default page cache, fewer than 1000 WAL frames)",
        "SQLite as shipped with /venv python; TLC 1.8",
    ]
    # ---- real executions first (the forking process must stay small)
    import time
    ph, t_ph = {}, [time.time()]

    def phase(name):
        ph[name] = round(time.time() - t_ph[0], 1)
        t_ph[0] = time.time()

    o.extra["phase_s"] = ph
    kinds: dict = {}
    o.extra["drift_kinds"] = kinds
    _nd = o.note_drift

    def note_drift(item):
        w_ = str(item.get("why") or item.get("what") or "?") if isinstance(item, dict) else str(item)
        kinds[w_[:60]] = kinds.get(w_[:60], 0) + 1
        _nd(item)

    o.note_drift = note_drift
    shapes = path_shapes(o, thorough)
    phase("tlc_paths")
    starts, sweeps1, sweeps2, base_key = real_sweeps(thorough, o, shapes=shapes)
    phase("real_sweeps")
    kind_of = lambda sw: starts[sw.sid]["kind"]  # noqa: E731
    shape_of = lambda sw: starts[sw.sid].get("shape")  # noqa: E731
    flows2 = sorted({sw.flow for sw in sweeps2 if kind_of(sw) == "base" and not shape_of(sw)}) or ["BOC", "C", "OC"]
    o.extra["kill_points_level1"] = {(sw.flow if kind_of(sw) == "base" else kind_of(sw) + ":" + sw.flow): len(sw.res)
                                     for sw in sweeps1 if not shape_of(sw)}
    base2 = [sw for sw in sweeps2 if kind_of(sw) == "base" and not shape_of(sw)]
    o.extra["path_shapes"] = {
        "shapes": {sh["id"]: {"path": ("(relative) " if sh["rel"] else "") + (sh["dir"] + "/" if sh["dir"] else "") + sh["files"]["main"],
                              "files": sh["files"], "siblings": [q["main"] for q in sh["sibs"]],
                              "excluded_by_the_naming_scheme": sh["colliding"]} for sh in shapes},
        "level1_kill_points": {shape_of(sw)["id"] + ":" + sw.flow: len(sw.res) for sw in sweeps1 if shape_of(sw)},
        "level2": {"start_states": len([sw for sw in sweeps2 if shape_of(sw)]),
                   "kill_points": sum(len(sw.res) for sw in sweeps2 if shape_of(sw))},
        "sibling_files_touched": 0, "temp_name_differs_from_model": 0,
    }
    # N5 (outside the statement: a database of the temporary directory is deleted by its close on purpose; what else
    # goes with it is reported as drift, with the prediction of the model variant "CloseByGlob")
    by_id = {sh["id"]: sh for sh in shapes}
    o.extra["path_shapes"]["tempdir_close"] = {}
    for pr in _PROBES:
        sh = by_id[pr["shape"]]
        own, asis = sorted(sh["closeown"]), sorted(sh["globclose"])
        verdict = ("exactly its own files" if pr["removed"] == own else
                   "what the name read as a pattern matches (BackupPaths deviation CloseByGlob)" if pr["removed"] == asis else "something else")
        lost = sorted(q["main"] for q in sh["sibs"] if q["main"] in pr["removed"])
        o.extra["path_shapes"]["tempdir_close"][sh["id"]] = {"removed": pr["removed"], "verdict": verdict, "sibling_databases_deleted": lost,
                                                              "own_files_left": sorted(set(own) - set(pr["removed"]))}
        o.evaluations += 1
        if pr["removed"] != own:
            o.note_drift({"why": "close_db_conn() of a database lying directly in the temporary directory removed " + verdict
                          + f": removed {pr['removed']}, its own files are {own}"
                          + (f"; the sibling database(s) {lost} are deleted with everything committed in them" if lost else ""),
                          "path": shape_desc(sh), "model": "BackupPaths N5 / Demo_BackupPaths_closeglob.cfg"})
    o.extra["level2"] = {"start_states": sum(1 for x in starts if isinstance(x, int) and x != 0), "sweeps": len(base2),
                         "kill_points": sum(len(sw.res) for sw in base2)}
    j2 = [sw for sw in sweeps2 if kind_of(sw) != "base"]
    o.extra["journal_dimension"] = {
        "level1_kill_points": {kind_of(sw) + ":" + sw.flow: len(sw.res) for sw in sweeps1 if kind_of(sw) != "base"},
        "level2": {"start_states": len(j2), "kill_points": sum(len(sw.res) for sw in j2)},
    }
    # ---- M  (independent TLC runs side by side)
    demos = (("Demo_Backup_stalewal.cfg", "stale -wal"), ("Demo_Backup_notatomic.cfg", "non-atomic backup"), ("Demo_Backup_asis.cfg", "as-is"),
             ("Demo_Backup_modekept.cfg", "journal mode kept / rollback journal survives the restore"))
    jobs = [("MC_ideal", "MC_Backup", "MC_Backup_ideal_T.cfg" if thorough else "MC_Backup_ideal.cfg", dict(workers=16, timeout=1800, coverage=True)),
            ("MC_ideal_J", "MC_Backup", "MC_Backup_ideal_J.cfg", dict(workers=8, timeout=1800, coverage=True))]
    jobs += [(demo[:-4], "MC_Backup", demo, dict(workers=4, check=False)) for demo, _ in demos]
    jobs += [("Demo_Backup_asis_cov", "MC_Backup", "Demo_Backup_asis.cfg", dict(workers=4, check=False, coverage=True, extra=["-continue"]))]
    mres = tlc_many(jobs)
    r = mres["MC_ideal"]
    o.add_tlc("MC_ideal", r)
    o.add_tlc("MC_ideal_J", mres["MC_ideal_J"])
    cov = {k: v[1] for k, v in r.coverage_actions().items()}
    for k, v in mres["MC_ideal_J"].coverage_actions().items():  # journal dimension: V1, V2, the other start kinds
        cov[k] = cov.get(k, 0) + v[1]
    for demo, inv in demos:
        d = mres[demo[:-4]]
        o.add_tlc(demo[:-4], d)
        o.extra.setdefault("demo_counterexample_found", {})[demo[:-4]] = bool(d.invariant_violated)
        if not d.invariant_violated:
            raise common.TLCError(f"{demo} no longer shows the {inv} counterexample (vacuity guard)")
    d = mres["Demo_Backup_asis_cov"]
    cov["B1"] = d.coverage_actions().get("B1", (0, 0))[1]  # B1 exists only in the unrepaired design
    o.extra["action_coverage"] = cov
    never = [a for a, n in cov.items() if n == 0]
    if never:
        o.extra["vacuity_warning"] = never
    phase("tlc_mc_demos")
    tabs = gen_tables(o)
    phase("tlc_gen")
    # ---- V: which variant of the model is this tree?  (file-state sequences validated by TLC)
    traces, idxs = [], []
    for sw in sweeps1 + sweeps2:
        tr, idx = make_trace(len(traces) + 1, starts[sw.sid]["runs"], sw, kind_of(sw))
        traces.append(tr)
        idxs.append(idx)
    allpreds = validate_traces_all(o, traces, ORDER)
    accepted = {v: len(allpreds[v][0]) for v in ORDER}
    phase("tlc_trace")
    best = max(accepted.values())
    tree = next(v for v in ORDER if accepted[v] == best)
    done, preds = allpreds[tree]
    o.extra["traces_accepted_by_variant"] = accepted
    o.extra["tree_matches_model_variant"] = tree
    o.traces += len(traces)
    rejected = [t for t in traces if t["tid"] not in done]
    o.extra["traces_rejected"] = len(rejected)
    for tr in rejected[:3]:
        o.note_drift({"why": f"observed file-state sequence is not a behaviour of the model (variant {tree})",
                      "start": tr["start"], "flows": [r["flow"] for r in tr["runs"]], "obs": tr["runs"][-1]["obs"][:8]})
    # ---- judge every kill point
    reached = set()
    stats = {"ok": 0, "bad": 0, "nomatch": 0}
    for sw, idx, tr in zip(sweeps1 + sweeps2, idxs, traces):
        tid = tr["tid"]
        kind = kind_of(sw)
        ktabs = tabs[kind]
        chain_prefix = starts[sw.sid]["chain"]
        last_oi = max(idx.values())
        for k in sorted(sw.res):
            r = sw.res[k]
            chain_key = tuple(chain_prefix) + ((sw.flow, okey(r["obs"])),)
            reached.add((kind, chain_key))
            case = {"level": len(chain_key), "flows": "+".join([c[0] for c in chain_prefix] + [sw.flow]), "start": starts[sw.sid]["runs"],
                    "flow": sw.flow, "kill_line_index": k, "of": sw.K, "files": r["obs"]}
            if kind != "base":
                case.update(start_kind=kind, gen=sw.gen)
            sh = shape_of(sw)
            if sh:
                case.update(shape=sh["id"], path=shape_desc(sh))
            if r["rc"] == 3:  # the flow raised: judged like a kill at that point
                o.extra.setdefault("flows_that_raised", {}).setdefault(case["flows"], r["msg"])
            cands = list(preds.get((tid, idx[k]), []))
            if idx[k] == last_oi:  # last file state: the process may have finished
                cands += preds.get((tid, "done"), [])
            if not cands:  # fall back to the generated tables (by observed state)
                for v in [tree] + ORDER:
                    cands = ktabs.get(v, {}).get(chain_key, [])
                    if cands:
                        break
                if cands:
                    o.note_drift({"case": case, "why": "file state matched through the generated table only"})
            res = judge(o, case, r["reopen"], cands, ktabs, chain_key, tree)
            stats[res] += 1
            if res == "nomatch":
                o.note_drift({"case": case, "why": "observed file state corresponds to no model state"})
                real = r["reopen"]
                if TORN in real["content"] or real["integrity"] != ["ok"]:
                    o.violation(dict(case, reopen=real), "reopen does not yield a complete, sound database: " + str(real)
                                + " = " + describe(real["content"], real.get("page_versions")) + side_files_note(r["obs"]), cls="torn")
                else:
                    # the files are in no state of the model: judge by the position of the process alone
                    # (progress marks), against everything the statement allows at that position
                    cc = coarse_candidates(ktabs, chain_prefix, sw.flow, r.get("marks", 0))
                    allowed = {tuple(sorted(c["expected"])) for c in cc}
                    stats["coarse"] = stats.get("coarse", 0) + 1
                    if allowed and tuple(pages_of(real["content"])) not in allowed:
                        o.violation(dict(case, reopen=real, progress_marks=r.get("marks"), allowed=[list(a) for a in sorted(allowed)]),
                                    f"a new Wtp(db_path) after the kill yields content {describe(real['content'])}; at this point of the flow "
                                    f"({r.get('marks')} library call(s) begun/returned) the statement allows only "
                                    + " or ".join(describe(a) for a in sorted(allowed)) + side_files_note(r["obs"]), cls="coarse:" + case["flows"])
            if sh:
                judge_siblings(o, case, r, sh)
            if kind != "base":
                o.shape((kind,) + chain_key)
            elif sh:
                o.shape(("path:" + sh["id"],) + chain_key)
            elif okey(r["obs"]) != base_key:
                o.shape(chain_key)
            # conformance of the file state after the reopen (outside the property: drift)
            if not r.get("same"):
                rob = {okey(c["robs"]) for c in ktabs.get(tree, {}).get(chain_key, [])}
                if rob and okey(r["robs"]) not in rob:
                    o.note_drift({"case": case, "why": "file state after the reopen differs from the model", "got": r["robs"]})
    # ---- G coverage: which generated cases did a real kill point realise?
    executed_prefix = {tuple(st["chain"]) for st in starts.values() if st["kind"] == "base"}
    want = [k for k in tabs["base"][tree] if tuple(k[:-1]) in executed_prefix and (len(k) == 1 or k[-1][0] in flows2)]
    hit = [k for k in want if ("base", k) in reached]
    o.extra["generated_cases"] = {"variant": tree, "wanted": len(want), "realised_by_a_kill_point": len(hit)}
    missing = [k for k in want if ("base", k) not in reached]
    if missing:
        o.extra["generated_cases"]["unreached_example"] = [[f, json.loads(ok_)] for f, ok_ in missing[0]]
    # journal dimension: generated cases of the sweeps that were executed (start kind, flow chain)
    jexec = {(kind_of(sw), tuple(starts[sw.sid]["chain"]), sw.flow) for sw in sweeps1 + sweeps2 if kind_of(sw) != "base"}
    jtree = tree if tree in JVARIANTS else "ideal"
    jwant = [(kd, k) for kd in JKINDS for k in tabs[kd].get(jtree, {}) if (kd, tuple(k[:-1]), k[-1][0]) in jexec]
    jhit = [x for x in jwant if x in reached]
    o.extra["journal_dimension"]["generated_cases"] = {"variant": jtree, "wanted": len(jwant), "realised_by_a_kill_point": len(jhit)}
    jmiss = [x for x in jwant if x not in reached]
    if jmiss:
        o.extra["journal_dimension"]["generated_cases"]["unreached_example"] = [jmiss[0][0]] + [[f, json.loads(ok_)] for f, ok_ in jmiss[0][1]]
    o.extra["judged"] = stats
    sw = sweeps1[0]
    ks = sorted(sw.res)
    kk = ks[len(ks) * 9 // 10]
    o.sample({"flow": sw.flow, "kill": kk, "files": sw.res[kk]["obs"], "reopen": sw.res[kk]["reopen"]})
    if sweeps2:
        sw = sweeps2[len(sweeps2) // 2]
        ks = sorted(sw.res)
        o.sample({"start": starts[sw.sid]["chain"][0][0], "flow": sw.flow, "kill": ks[-3], "files": sw.res[ks[-3]]["obs"], "reopen": sw.res[ks[-3]]["reopen"]})
    o.exhaustive = thorough
    phase("judge")
    # the pipeline around the backup (spec/Pipeline.tla, clause P2: the backup precedes every override)
    import pipeline
    common.with_engine(o, "pipeline", lambda: pipeline.extend(o, tier, "C11"))
    phase("pipeline_engine")
    return o.finish()


# ---------------------------------------------------------------------------
def replay(path: str) -> int:
    v = json.loads(Path(path).read_text())
    case = v["case"]
    if case.get("engine") == "pipeline":
        import pipeline
        return pipeline.replay(path)
    print("why:", v["why"])
    common.use_repo()
    with Scratch("c11r-") as root:
        (root / "work").mkdir()
        ov = write_overrides(root)
        build_base(root / "S0")
        d = root / "S0"
        kind = case.get("start_kind", "base")
        g1 = GENS[0]
        if kind != "base":  # journal dimension: another kind of initial state, overwrite numbers of its own
            d = build_jstarts(root, root / "S0")[kind]
            g1 = JGENS[0]
            print(f"initial state: {kind}: {sorted(p.name for p in d.iterdir())}")
        sh = None
        if case.get("shape"):  # path-shape dimension: the database under the name TLC computed, its siblings beside it
            sh = next(x for t in (False, True) for x in path_shapes(None, t) if x["id"] == case["shape"])
            sib_seed = build_sibling_seed(root, root / "S0")
            _G["sib_ref"] = {role: hashlib.sha1((sib_seed / f).read_bytes()).hexdigest()
                             for role, f in (("main", "x"), ("wal", "x-wal"), ("shm", "x-shm"))}
            d = build_shape(root, sh, sib_seed)
            print(shape_desc(sh), "; files:", sh["files"], "; siblings:", [q["main"] for q in sh["sibs"]])
        rel = bool(sh and sh["rel"])
        chain = list(case.get("start") or [])
        with Scratch("c11o-") as sc:
            # re-create the start state: kill the first flow where its file state equals the recorded one
            if chain:
                f1 = chain[0]["flow"]
                target = okey(chain[0]["obs"][-1])
                _G.update(root=str(root), starts={0: {"dir": str(d), "shape": sh}}, ov=ov)
                K = exec_tasks([(0, f1, g1, 0, None)])[0]["lines"]
                for k in range(1, K + 2):
                    r = exec_tasks([(0, f1, g1, k, str(root / "S1"))])[0]
                    if okey(r["obs"]) == target:
                        d = root / "S1"
                        print(f"start state: flow {f1} killed at line index {k}: {r['obs']}")
                        break
                else:
                    print("could not re-create the start state")
                    return 2
            work = root / "w"
            shutil.copytree(d, work)
            gen = case.get("gen") or (GENS[1] if chain else GENS[0])
            rc, msg, _marks = fork_flow(case["flow"], shape_db(work, sh), ov_paths(ov, case["flow"], gen), case["kill_line_index"], rel)
            print(f"flow {case['flow']} killed at line index {case['kill_line_index']} (exit {rc})")
            print("files:", {p.name: p.stat().st_size for p in sorted(shape_dir(work, sh).iterdir())})
            print("observed:", observe(shape_dir(work, sh), sc / "s", sh))
            re = fork_reopen(shape_db(work, sh), rel)
            print("reopen:", re, "=", describe(re["content"], re.get("page_versions")))
            if case.get("sibling"):
                sib = observe(shape_dir(work, sh), sc / "s", sh).get("sib") or {}
                print("sibling databases after the reopen:", sib or "untouched")
                return 1 if any(x["content_lost"] for x in sib.values()) else 0
            print("demanded:", describe(case["expected"]) if "expected" in case else case.get("allowed"))
            if "expected" not in case:  # judged by progress marks only: the recorded set of allowed contents
                okc = [sorted(a) for a in case.get("allowed", [])]
                return 1 if (okc and pages_of(re["content"]) not in okc) or TORN in re["content"] or re["integrity"] != ["ok"] else 0
            return 1 if pages_of(re["content"]) != sorted(case["expected"]) or re["integrity"] != ["ok"] else 0


def selftest() -> int:
    """Binding demo: (1) a corrupted observed file-state sequence is rejected by TLC;
    (2) a corrupted reopen result is judged a violation."""
    o = Outcome(PID, "quick")
    starts, sweeps1, _, _ = real_sweeps(False, None, flows1=["BOC"])
    sw = sweeps1[0]
    tabs = gen_tables(o, journal=False)["base"]
    tr, idx = make_trace(1, [], sw)
    tree = pred = None
    for v in ORDER:
        done, pred = validate_traces(o, [tr], v, "st")
        if done:
            tree = v
            break
    print("unmodified trace accepted by variant:", tree, "; file states:", len(tr["runs"][0]["obs"]))
    bad = json.loads(json.dumps(tr))
    obs = bad["runs"][0]["obs"]
    obs[-2], obs[-3] = obs[-3], obs[-2]  # swap two observed file states
    done_bad, _ = validate_traces(o, [bad], tree, "st_bad")
    print("trace with two file states swapped accepted:", bool(done_bad))
    # corrupted reopen result: pretend a later overwrite is visible after the reopen
    k = sorted(sw.res)[len(sw.res) // 2]
    real = dict(sw.res[k]["reopen"], content=[0, 3, WD])
    o2 = Outcome(PID, "quick")
    res_ok = judge(o2, {"flows": "BOC"}, sw.res[k]["reopen"], pred.get((1, idx[k]), []), tabs, ((sw.flow, okey(sw.res[k]["obs"])),), tree)
    res = judge(o2, {"flows": "BOC"}, real, pred.get((1, idx[k]), []), tabs, ((sw.flow, okey(sw.res[k]["obs"])),), tree)
    print("real reopen result judged:", res_ok, "; corrupted reopen content judged:", res)
    return 0 if (tree and not done_bad and res == "bad" and res_ok == "ok") else 1
