"""C02 — section, list and rule structure follows the nesting model.

M  TLC checks on every document of the bounded universes that the relations read off
   the tree of the transcribed parser machine (spec/Parser.tla, with the rule fix)
   equal the declarative nesting relations of spec/ParserRef.tla.
G  every TLC-enumerated document, with the relations the model demands, is concretised
   (unique marker word per line; filler slots filled from a balanced-markup catalogue),
   parsed by the real ctx.parse(); the real relations are read off the real tree by
   locating each line's marker word (parent chains only) and compared with TLC's.
   The machine's full tree is compared too (filler-free variant) -- DRIFT only.
   Universes S1/S2 (S3 thorough) carry STRUCTURED fillers enumerated by TLC itself: nested links /
   template calls / argument references / external links whose arguments span several lines and
   continue with text that means something at a line start; they are spelled piece by piece.
   Universes QI / QFI (TI, TI5 thorough): the INDENTED LINE (a preformatted block -- the one balanced filler block that
   is still open when the next line arrives) is a line type of the model; it stands directly before / after headings,
   list lines and rules, with and without a section open (first heading of the document).  The relation `par` (the
   parent NODE of every section / list / preformatted block) says that sections are nested in sections and in nothing
   else.  Universe QO (TO): unbalanced openers ('' ''' <span> <div> {|) left open before the next line -- outside
   the property, the machine's relations are the expectation, DRIFT only.
   Universe QSP (TSP thorough; round 8): constructs that SPAN LINES -- a list / paragraph / indented line opens <pre>,
   <div>, <span> or <ref> after its word, the closer stands on a LATER line (closer first or word first, with or without
   a continuation line in between), followed by every sequence of <= 2 (3) ordinary structure lines.  Whatever happens
   to the construct itself is outside the statement (the statement accepts both readings: it ends / it continues the
   list item it was opened in; the machine's relations are the exact expectation, DRIFT); the lines AFTER the closer
   are ordinary lines: their sections / items are statement-backed.  The machine's persistent MODE (pre_parse, the
   begline counter) obeys the law "all constructs closed => initial mode" (ModeOK, every universe).
   Universe QW (round 9): the WHITE SPACE AROUND THE TOKENS of a structure line -- after the closing '=' run of a heading
   (nothing, blank, TAB, blank+TAB, CR, form feed, vertical tab, U+00A0, U+3000), between the '=' runs and the title,
   after a list marker (none, blank, TAB, two blanks), at the end of list / paragraph lines, after '----' -- as SPELLING
   VARIANTS of the line types (line field ws; ParserRefDoc!HeadWs / BlankWs state as data which characters the tokenizer
   takes as white space there; 14 spelling schemes of Gen_ParserRef!WsSchemes x every document of <= 3 lines).  The
   relations demanded are those of the canonical spelling.  Strict set (blank, TAB, CR) = statement-backed; the
   characters only Python's white-space class knows = DRIFT.  V spells 30 % of its documents with random strict white space.
V  seeded random longer documents (<= 10 headings, <= 12 list lines, depth <= 4, rules,
   paragraphs, blanks, fillers) are parsed by the real code, the extracted relations are
   recorded and validated by TLC against ParserRef (Trace_ParserRef).
"""
from __future__ import annotations

import json
import random
import re
from concurrent.futures import ThreadPoolExecutor
from pathlib import Path

import common
import parsetree as pt
from common import Outcome, Scratch, pmap, tlc

PID = "C02"
DEV = "HlineClosesLevel1"

# ---------------------------------------------------------------------------
# balanced-markup filler catalogue
# ---------------------------------------------------------------------------
# inline fillers: no newline, balanced, may stand in a heading title, a list item or a paragraph
INLINE = [
    "foo bar",
    "''italic''",
    "'''bold'''",
    "'''''both'''''",
    "''it '''bo''' it''",
    "[[link]]",
    "[[target|shown text]]",
    "[[File:x.png|thumb|a caption]]",
    "{{tpl|arg}}",
    "{{tpl|k=v|''x''}}",
    "{{{param|dflt}}}",
    "{{#if:c|y|n}}",
    "<span>html</span>",
    "<span class=\"c\">a ''b'' c</span>",
    "<ref>note</ref>",
    "<ref name=\"n\" />",
    "<br>",
    "<sup>2</sup>",
    "<math>x^2</math>",
    "[http://x.org y z]",
    "http://x.org/p",
    "<nowiki>''n'' == * # </nowiki>",
    "<nowiki/>",
    "<!-- comment -->",
    "__NOTOC__",
    "&amp; &nbsp;",
    "a:b",
    "x|y",
    "1 = 2",
    "a * b # c ; d",
    "it's",
    "<pre>pre x</pre>",
    "<div>div</div>",
    "<<country>>",
    "<unknown>u</unknown>",
    "- -- ---",
]
# fillers that are only safe after the marker word (at a line start they are a different construct)
AFTER_ONLY = {"<!-- comment -->", "a * b # c ; d", "- -- ---", "a:b", "x|y", "1 = 2"}
# block fillers: whole lines, only as a block following / preceding a paragraph word
BLOCK = [
    "{|\n|-\n| c1 || c2\n|}",
    "{| class=\"t\"\n|+ cap\n! h1 !! h2\n|-\n| a=b | c1\n|}",
    "<div>\ninner\n</div>",
    "<pre>\n== no ==\n* no\n</pre>",
    "<nowiki>\n== no ==\n* no\n</nowiki>",
    "<!--\n== no ==\n* no\n-->",
    " indented line",
    "{{tpl|\n* x\n|y=\n# z\n}}",
    "<ul>\n<li>html item</li>\n</ul>",
    "<blockquote>\nq\n</blockquote>",
]
NONE = ""


# constructs that span lines (ParserRefDoc!SpanKinds): opener after the word of a list / paragraph / indented line
# (field o), closer on a later line of type C (b: the closer stands first)
SPANS = {"PRE": ("<pre>", "</pre>"), "DIV": ("<div>", "</div>"), "SPAN": ("<span>", "</span>"), "REF": ("<ref>", "</ref>")}


def span_open(ln) -> str:
    return " " + SPANS[ln["o"]][0] + "x" if "o" in ln else ""


def span_line(ln, w) -> str:
    """The spelling of a continuation (X) / closer (C) line."""
    if ln["t"] == "X":
        return w
    return SPANS[ln["c"]][1] + " " + w if ln["b"] else w + SPANS[ln["c"]][1]


# (round 9) white space around the tokens of a structure line: the characters of the atoms of ParserRefDoc (WsStrict /
# WsExotic); a line with the field ws is spelled with them, a line without it has the canonical spelling
WS_CHARS = {"SP": " ", "TAB": "\t", "CR": "\r", "FF": "\f", "VT": "\v", "NBSP": "\u00a0", "IDSP": "\u3000"}
WS_STRICT = ("SP", "TAB", "CR")
WS_NAMES = {"SP": "a blank", "TAB": "a TAB", "CR": "a carriage return (CRLF text)", "FF": "a form feed", "VT": "a vertical tab",
            "NBSP": "U+00A0", "IDSP": "U+3000"}


def ws_of(ln):
    """(a, b, e): the white space after the opening '=' run / list marker, before the closing '=' run, at the line end."""
    ws = ln.get("ws")
    if ws is None:
        return " ", " ", ""
    return tuple("".join(WS_CHARS[x] for x in ws.get(k, ())) for k in ("a", "b", "e"))


def spell(doc, fill) -> str:
    """doc: list of line records; fill: {line index (0-based): (filler, before?)}."""
    out = []
    for i, ln in enumerate(doc):
        w = f"w{i + 1}"
        f, before, *inline = fill.get(i, (NONE, False))
        t = ln["t"]
        if t in ("X", "C"):
            out.append(span_line(ln, w))
        elif "o" in ln:
            out.append({"L": "".join(ln.get("p", ())) + " ", "P": "", "I": " "}[t] + w + span_open(ln))
        elif t in ("H", "L"):
            body = w if not f else (f"{f} {w}" if before else f"{w} {f}")
            a, b, e = ws_of(ln)
            if t == "H":
                out.append("=" * ln["l"] + a + body + b + "=" * ln["l"] + e)
            else:
                out.append("".join(ln["p"]) + a + body + e)
        elif t == "P":
            if not inline and (f and "\n" in f or f.startswith(" ")):
                out.append(f + "\n" + w if before else w + "\n" + f)
            else:
                out.append((w if not f else (f"{f} {w}" if before else f"{w} {f}")) + ws_of(ln)[2])
        elif t == "I":
            out.append(" " + (w if not f else (f"{f} {w}" if before else f"{w} {f}")))
        elif t == "O":
            out.append(OPENERS[ln["c"]] + w)
        elif t == "R":
            out.append("----" + ws_of(ln)[2])
        else:
            out.append("")
    return "\n".join(out) + "\n"


# unbalanced openers of the universe O (ParserRefDoc!OpenToks): the construct is left open at the end of the line
OPENERS = {"IT": "''", "BO": "'''", "SPAN": "<span>", "DIV": "<div>", "TBL": "{|\n|"}


def spell_plain(doc) -> str:
    """The spelling the machine's token sequence describes exactly (full-tree comparison)."""
    out = []
    for i, ln in enumerate(doc):
        w = f"w{i + 1}"
        t = ln["t"]
        out.append(
            "=" * ln["l"] + w + "=" * ln["l"] if t == "H"
            else "".join(ln["p"]) + " " + w + span_open(ln) if t == "L"
            else w + span_open(ln) if t == "P" else " " + w + span_open(ln) if t == "I" else OPENERS[ln["c"]] + w if t == "O"
            else span_line(ln, w) if t in ("X", "C")
            else "----" if t == "R" else ""
        )
    return "\n".join(out) + "\n"


# ---------------------------------------------------------------------------
# structured fillers (enumerated by TLC: Gen_ParserRef universes S1/S2/S3; random ones for V)
# ---------------------------------------------------------------------------
S_OPEN = {"T": "{{", "A": "{{{", "L": "[[", "E": "["}
S_CLOSE = {"T": "}}", "A": "}}}", "L": "]]", "E": "]"}
S_ATOM = {"url": "http://x.org"}


def render_piece(p) -> str:
    """The wikitext of one piece of the model: a token of Parser.tla or a nested filler."""
    k = p["k"]
    if k == "TXT":
        return "".join(S_ATOM.get(a, a) for a in p["a"])
    if k == "SP":
        return " " * p["n"]
    if k == "NL":
        return "\n"
    if k == "LP":
        return "".join(p["p"])
    if k == "FILL":
        return S_OPEN[p["m"]] + "|".join("".join(render_piece(q) for q in arg) for arg in p["args"]) + S_CLOSE[p["m"]]
    raise ValueError(f"unknown piece {p!r}")


def spell_s(sdoc) -> str:
    """Spelling of a document whose lines may carry a structured filler (field s; z = a word follows it):
    exactly the token sequence ParserRefDoc!Tokens describes."""
    out = []
    for i, ln in enumerate(sdoc):
        w = f"w{i + 1}"
        t = ln["t"]
        body = w
        if "s" in ln:
            body += " " + render_piece(ln["s"]) + (" z" if ln["z"] else "")
        elif ln.get("f"):
            raise ValueError("opaque filler flag in a structured document")
        if t == "H":
            out.append("=" * ln["l"] + " " + body + " " + "=" * ln["l"])
        elif t == "L":
            out.append("".join(ln["p"]) + " " + body)
        elif t == "P":
            out.append(body)
        elif t == "I":
            out.append(" " + body)
        elif t == "R":
            out.append("----")
        else:
            out.append("")
    return "\n".join(out) + "\n"


def filler_depth(p) -> int:
    return 1 + max([filler_depth(q) for arg in p["args"] for q in arg if q["k"] == "FILL"], default=0)


def filler_shape(p):
    """(kinds outermost first, newline inside?, depth) of a structured filler."""
    kinds, nl = [], False

    def walk(q):
        nonlocal nl
        kinds.append(q["m"])
        for arg in q["args"]:
            for r in arg:
                if r["k"] == "NL":
                    nl = True
                elif r["k"] == "FILL":
                    walk(r)
    walk(p)
    return "".join(kinds), nl, filler_depth(p)


def random_filler(rng, depth):
    """A random structured filler (the piece vocabulary of Gen_ParserRef) of nesting depth <= depth."""
    m = rng.choice("TTAALE")
    multi = m != "E"        # the bracket syntax of an external link ends at a newline
    wd = lambda a: {"k": "TXT", "a": [a]}
    sp, nl = {"k": "SP", "n": 1}, {"k": "NL"}

    def gen_arg():
        arg, last_word = [], False
        for _ in range(rng.randint(0, 4)):
            c = rng.random()
            if c < 0.3:
                if depth > 1:
                    inner = random_filler(rng, depth - 1)
                    if not (m in "LE" and inner["m"] in "LE"):      # links do not nest in links
                        arg.append(inner)
                        last_word = False
            elif c < 0.5:
                if not last_word:                                   # two words in a row would be one token
                    arg.append(wd("x"))
                    last_word = True
            elif not multi:
                pass
            elif c < 0.7:
                arg.append(nl)
                last_word = False
            elif c < 0.85:
                arg += [nl, {"k": "LP", "p": [rng.choice("*#")]}, sp, wd("y")]
                last_word = True
            else:
                arg += [nl, sp, wd("y")]
                last_word = True
        return arg

    if m == "E":
        return {"k": "FILL", "m": m, "args": [[wd("url"), sp] + (gen_arg() or [wd("x")])]}
    head = {"T": "t", "A": "1", "L": "l"}[m]
    return {"k": "FILL", "m": m, "args": [[wd(head)]] + [gen_arg() for _ in range(rng.randint(1, 3))]}


def slots(doc):
    """Lines that may carry a catalogue filler (the lines of a spanning construct carry none)."""
    return [i for i, ln in enumerate(doc) if ln["t"] in ("H", "L", "P", "I") and "o" not in ln]


def pick(rng, ln):
    """A random (filler, before) for a line."""
    if ln["t"] == "P" and rng.random() < 0.3:
        return rng.choice(BLOCK), rng.random() < 0.3
    f = rng.choice(INLINE)
    return f, (f not in AFTER_ONLY and rng.random() < 0.3)


# ---------------------------------------------------------------------------
# relations of a real tree (parent chains of the marker words, nothing else)
# ---------------------------------------------------------------------------
WORD_RE = re.compile(r"\bw(\d+)\b")
LEVELS = {"LEVEL1", "LEVEL2", "LEVEL3", "LEVEL4", "LEVEL5", "LEVEL6"}
NOOWN = {"k": "-", "w": "-", "m": []}
WORDED = ("H", "L", "P", "I", "O", "X", "C")      # line types that carry a marker word (ParserRef!Worded)
PARALIKE = ("P", "O", "X", "C")                   # ... whose word is plain content of the open section (ParserRef!ParaLike)


def rule_parents(root) -> list:
    """Kinds of the parents of the HLINE nodes in document order (title arguments before the content)."""
    from wikitextprocessor.parser import WikiNode
    out = []

    def walk(n):
        for lst in [a for a in n.largs if isinstance(a, list)] + [n.children]:
            for c in lst:
                if isinstance(c, WikiNode):
                    if c.kind.name == "HLINE":
                        out.append(n.kind.name)
                    else:
                        walk(c)
    walk(root)
    return out


def relations(root, doc) -> dict:
    rp = rule_parents(root)
    nrules = sum(1 for ln in doc if ln["t"] == "R")
    wp = pt.word_paths(root, re.compile(r"\bw\d+\b"))
    paths, counts = wp["paths"], wp["kind_counts"]
    n = len(doc)
    chain = {}
    for i in range(n):
        occ = paths.get(f"w{i + 1}", [])
        if doc[i]["t"] in WORDED and len(occ) == 1:
            chain[i] = occ[0]
    own_id = {i: c[-1][0] for i, c in chain.items()}
    up_id = {i: (c[-2][0] if len(c) >= 2 else -1) for i, c in chain.items()}

    def line_of(node_id, t):
        js = [j for j in chain if doc[j]["t"] == t and own_id[j] == node_id]
        return max(js) + 1 if js else 0

    def nearest(c, upto, kinds):
        for e in reversed(c[:upto]):
            if e[1] in kinds:
                return e
        return None

    def anc(c, k):
        """kind of the k-th enclosing node above the one that holds the word"""
        return c[-1 - k][1] if c is not None and len(c) > k else "NONE"

    own, sec, item, lst, par = [], [], [], [], []
    for i in range(n):
        t = doc[i]["t"]
        c = chain.get(i)
        # the parent node of the structure the line creates: of the section node (H), of the list (L), of the
        # preformatted block (I)
        par.append(anc(c, 1) if t in ("H", "I") else anc(c, 2) if t == "L"
                   else (rp[sum(1 for ln in doc[:i + 1] if ln["t"] == "R") - 1] if len(rp) == nrules else "NONE") if t == "R" else "-")
        if t not in WORDED:
            own.append(dict(NOOWN)); sec.append(0); item.append(0); lst.append(0)
            continue
        if c is None:
            own.append({"k": "BAD", "w": "-", "m": []}); sec.append(0); item.append(0); lst.append(0)
            continue
        e = c[-1]
        if t in PARALIKE:
            own.append(dict(NOOWN))
        else:
            m = list(e[2]) if e[1] in ("LIST", "LIST_ITEM") else ([e[2]] if e[2] else [])
            own.append({"k": e[1], "w": e[3], "m": m})
        x = nearest(c, len(c) - 1 if t == "H" else len(c), LEVELS)
        sec.append(line_of(x[0], "H") if x else 0)
        if t == "L":
            y = nearest(c, len(c) - 1, {"LIST_ITEM"})
            item.append(line_of(y[0], "L") if y else 0)
            lst.append(min(j for j in chain if doc[j]["t"] == "L" and up_id[j] == up_id[i]) + 1)
        else:
            item.append(0); lst.append(0)
    return {
        "own": own, "sec": sec, "item": item, "lst": lst, "par": par,
        "nsec": sum(counts.get(k, 0) for k in LEVELS),
        "nitem": counts.get("LIST_ITEM", 0),
        "nlist": counts.get("LIST", 0),
    }


def strip_attrs(t):
    if "s" in t:
        return t
    return {"kind": t["kind"], "sarg": t["sarg"], "largs": [[strip_attrs(c) for c in a] for a in t["largs"]],
            "children": [strip_attrs(c) for c in t["children"]]}


def core(rel, doc):
    """The projection of a relation record the property STATEMENT constrains.  Beyond the statement (DRIFT when only
    that differs): that an indented line becomes a PREFORMATTED node (`own` of I lines) and where the list of a list
    line / the block of an indented line / the node of a rule hangs (`par` of L, I and R lines; their containing section `sec` IS constrained:
    all content up to the next heading is inside that section).  `par` of a heading line is constrained: the parent of
    its section node is the node of its parent section (the root when there is none) and nothing else."""
    r = dict(rel)
    r["par"] = [p if ln["t"] == "H" else "-" for p, ln in zip(rel["par"], doc)]
    r["own"] = [dict(NOOWN) if ln["t"] == "I" else o for o, ln in zip(rel["own"], doc)]
    return r


def line_text(ln, i):
    w = f"w{i + 1}"
    t = ln["t"]
    if "ws" in ln:
        return spell([{"t": "B"}] * i + [ln], {}).split("\n")[i]
    return ("=" * ln["l"] + " " + w + " " + "=" * ln["l"] if t == "H" else "".join(ln["p"]) + " " + w + span_open(ln) if t == "L"
            else " " + w + span_open(ln) if t == "I" else OPENERS[ln["c"]] + w if t == "O" else w + span_open(ln) if t == "P"
            else span_line(ln, w) if t in ("X", "C") else "----" if t == "R" else "")


def par_why(doc, exp, got, text="") -> str:
    """Names what a difference in `par` means: which line's node hangs below which kind of node."""
    out = []
    phys = text.split("\n")
    for i, ln in enumerate(doc):
        e, g = exp["par"][i], got["par"][i]
        if e == g:
            continue
        before = "no section is open yet (first heading of the document)" if not any(x["t"] == "H" for x in doc[:i]) \
            else "a section is open"
        # the physical line in front of this one (it may belong to a filler block)
        k = next((j for j, x in enumerate(phys) if re.search(rf"\bw{i + 1}\b", x)), None)
        if k:
            pl = phys[k - 1]
            prevd = (f"the indented line {pl!r} (an open preformatted block)" if pl.startswith(" ") and pl.strip()
                     else f"the list line {pl!r} (an open list item)" if pl[:1] in ("*", "#")
                     else "a blank line" if not pl.strip() else f"the line {pl!r}")
        else:
            prev = doc[i - 1]["t"] if i else "-"
            prevd = {"I": "an indented line (an open preformatted block)", "L": "a list line (an open list item)",
                     "O": "a line that leaves a construct open", "P": "a paragraph line", "H": "a heading line",
                     "R": "a rule", "B": "a blank line", "-": "nothing", "X": "a line inside a construct that spans lines",
                     "C": "the line that closes a construct that spans lines"}[prev]
        what = {"H": f"the section node of heading line {i + 1} ({line_text(ln, i)!r})",
                "L": f"the list of list line {i + 1} ({line_text(ln, i)!r})",
                "I": f"the preformatted block of indented line {i + 1}",
                "R": f"the rule node of rule line {i + 1}"}.get(ln["t"], f"line {i + 1}")
        out.append(f"{what} is a child of a {g} node, the nesting model demands {e} "
                   f"(the line directly follows {prevd}; {before}): a block that was still open when the line arrived "
                   f"has not been closed and swallows the new node and everything after it")
    return " -- " + "; ".join(out[:2]) if out else ""


NEST_WHY = ("; TLC: the observed relations are exactly those of the model machine whose heading loop (subtitle_start_fn) pops "
            "only while a SECTION is open (deviation TitleLoopNeedsSection: before the first heading nothing is closed)")


def diff_class(exp, got):
    for k in ("nsec", "nitem", "nlist", "own", "sec", "item", "lst", "par"):
        if exp[k] != got[k]:
            return k
    return "?"


# ---------------------------------------------------------------------------
# G
# ---------------------------------------------------------------------------

def run_chunk(chunk):
    """chunk: list of (case index, doc, [(variant name, text)], want_tree)"""
    common.use_repo()
    res = []
    with Scratch("c02-") as d:
        ctx = pt.new_ctx(d)
        try:
            for idx, doc, variants, want_tree in chunk:
                for name, text in variants:
                    root, err, flags = pt.parse(ctx, text)
                    if root is None:
                        res.append((idx, name, text, None, err, None))
                        continue
                    rel = relations(root, doc)
                    tree = None
                    if want_tree and name == "plain":
                        tree = pt.dump_atoms(root)
                        tree.pop("attrs", None)
                    res.append((idx, name, text, rel, None, tree))
        finally:
            ctx.close_db_conn()
    return res


def judge(o: Outcome, case, name, text, rel, err, origin):
    """Compare real relations with the model's; returns True if they agree."""
    o.evaluations += 1
    exp = case["rel"]
    if err is not None:
        if case.get("ext"):
            o.note_drift({"origin": origin, "text": text, "doc": case["doc"], "error": err,
                          "note": "unbalanced opener: outside the property"})
            return False
        o.violation({"origin": origin, "text": text, "doc": case["doc"], "error": err},
                    f"parse() raised {err} on a heading/list/rule document", cls="exception")
        return False
    if rel == exp:
        return True
    doc = case["doc"]
    if case.get("span"):
        return judge_span(o, case, name, text, rel, origin)
    if case.get("ext"):
        # a document with an unbalanced opener: the expectation is the machine's, not the statement's
        o.note_drift({"origin": origin, "text": text, "doc": doc, "machine_relations": exp, "real_relations": rel,
                      "differs_in": diff_class(exp, rel), "note": "unbalanced opener: outside the property"})
        return False
    cexp, crel = core(exp, doc), core(rel, doc)
    if cexp == crel:
        # only what the model says beyond the statement differs
        cls = diff_class(exp, rel)
        o.note_drift({"origin": origin, "text": text, "doc": doc, "differs_in": cls, "expected": exp[cls], "got": rel[cls],
                      "note": "beyond the statement" + (par_why(doc, exp, rel, text) if cls == "par" else "")})
        return False
    cls = diff_class(cexp, crel)
    if case.get("wsx") or ws_exotic(doc):
        # white space that only Python's \s knows (form feed, vertical tab, U+00A0, U+3000): MediaWiki itself does not
        # trim it -- the tokenizer fact ParserRefDoc!HeadWs says more than the statement
        o.note_drift({"origin": origin, "text": text, "doc": doc, "differs_in": cls, "expected": cexp[cls], "got": crel[cls],
                      "note": "white space outside the strict set (blank, TAB, CR) around the tokens of a heading line: "
                              "beyond the statement" + ws_why(doc, rel)})
        return False
    c = {"origin": origin, "variant": name, "text": text, "doc": doc,
         "expected": exp, "got": rel, "differs_in": cls}
    why = (f"parse({text!r}): relation '{cls}' extracted from the real tree is {crel[cls]!r}; "
           f"the nesting model demands {cexp[cls]!r}")
    if cls == "par":
        why += par_why(doc, cexp, crel, text)
    if has_ws(doc):
        why += ws_why(doc, rel)
    if case.get("nest"):
        why += NEST_WHY
    if case.get("asis") is not None and rel == case["asis"]:
        o.classify(c, why, [DEV], cls="hline-level1")
    elif "sdoc" in case:
        c["sdoc"] = case["sdoc"]
        o.violation(c, why + ("" if case.get("nest") else struct_why(case["sdoc"], case.get("flag"))), cls=origin + ":struct:" + cls)
    else:
        o.violation(c, why, cls=origin + (":ws:" if has_ws(doc) else ":") + cls)
    return False


def judge_span(o: Outcome, case, name, text, rel, origin):
    """A document with a construct that spans lines: `rel` differs from the machine's relations.  The statement accepts
    both readings of the construct (case["acc"]); inside them it is DRIFT."""
    doc, exp = case["doc"], case["rel"]
    crel = core(rel, doc)
    cacc = [core(a, doc) for a in case["acc"]]
    if crel in cacc:
        cls = diff_class(exp, rel)
        o.note_drift({"origin": origin, "text": text, "doc": doc, "differs_in": cls, "expected": exp[cls], "got": rel[cls],
                      "note": "a construct that spans lines: the model machine reads it differently; both readings are "
                              "within the statement" + (par_why(doc, exp, rel, text) if cls == "par" else "")})
        return False
    cexp = core(exp, doc) if core(exp, doc) in cacc else cacc[0]
    cls = diff_class(cexp, crel)
    c = {"origin": origin, "variant": name, "text": text, "doc": doc, "expected": exp, "accepted": case["acc"], "got": rel,
         "differs_in": cls}
    why = (f"parse({text!r}): relation '{cls}' extracted from the real tree is {crel[cls]!r}; "
           f"the nesting model demands {cexp[cls]!r}")
    if cls == "par":
        why += par_why(doc, cexp, crel, text)
    if has_ws(doc) and ws_why(doc, rel).startswith((" -- heading", " -- list")):
        # a structure line with a white-space spelling stayed plain text: that, not the spanning construct, is the problem
        o.violation(c, why + ws_why(doc, rel), cls=origin + ":ws:" + cls)
        return False
    o.violation(c, why + span_why(doc, rel, case.get("mode")), cls=origin + ":span:" + cls)
    return False


def span_why(doc, rel, mode) -> str:
    """Names the spanning construct, the first ordinary line after its closer that lost its node, and (mode: decided by
    TLC, Trace_ParserRef) whether the observed relations are those of the machine with PreModeLeftOnStrayEnd."""
    i = next((k for k, ln in enumerate(doc) if "o" in ln), None)
    if i is None:
        return ""
    j = next((k for k in range(i + 1, len(doc)) if doc[k]["t"] == "C"), None)
    if j is None:
        return ""
    kind = doc[i]["o"]
    where = {"L": "a list item", "P": "a paragraph", "I": "an indented line"}[doc[i]["t"]]
    lost = [k for k in range(j + 1, len(doc)) if doc[k]["t"] in ("H", "L")
            and rel["own"][k].get("k") not in (LEVELS | {"LIST_ITEM"})]
    msg = (f" -- line {i + 1} ({line_text(doc[i], i)!r}) opens {SPANS[kind][0]} inside {where}, it is closed on line {j + 1} "
           f"({line_text(doc[j], j)!r}): a balanced filler that spans lines; the lines after the closer are ordinary "
           f"lines, the parser must be back in its initial mode there (pre_parse off, line-start handling on) whatever "
           f"closed the construct's node")
    if lost:
        k = lost[0]
        msg += (f"; {'heading' if doc[k]['t'] == 'H' else 'list'} line {k + 1} ({line_text(doc[k], k)!r}) and "
                f"{len(lost) - 1} more structure line(s) after the closer did not become a "
                f"{'section' if doc[k]['t'] == 'H' else 'list item'} node (plain text)")
    if mode:
        msg += ("; TLC: the observed relations are exactly those of the model machine whose </pre> leaves the "
                "non-interpreting mode only together with a PRE node on top of the stack (deviation PreModeLeftOnStrayEnd: "
                "the PRE node was closed with the list item at the start of the next line, ctx.pre_parse stays set for "
                "the rest of the document)")
    elif mode is not None:
        msg += "; TLC: not explained by the model deviation PreModeLeftOnStrayEnd"
    return msg


def struct_why(sdoc, flag) -> str:
    """What the structured filler of the document is, and (flag: decided by TLC, Trace_ParserRef) whether the
    observed relations are those of the model machine with the deviation BeglineFlagNotCounted."""
    parts = []
    for i, ln in enumerate(sdoc):
        if "s" in ln:
            kinds, nl, depth = filler_shape(ln["s"])
            parts.append(f"line {i + 1} carries the balanced filler {render_piece(ln['s'])!r} (constructs {kinds}, nesting depth "
                         f"{depth}{', spans several lines' if nl else ''})")
    if not parts:
        return ""
    msg = " -- " + "; ".join(parts) + ": a filler is opaque, the line-start handling (list closing, list markers, leading " \
          "blanks) must stay switched off until its OUTERMOST construct is closed"
    if flag:
        msg += ("; TLC: the observed relations are exactly those of the model machine whose begline switch comes back "
                "when an INNER construct is left (deviation BeglineFlagNotCounted: ctx.begline_disabled does not count its nesting)")
    elif flag is not None:
        msg += "; TLC: not explained by the model deviation BeglineFlagNotCounted"
    return msg


def ws_names(atoms) -> str:
    return " + ".join(WS_NAMES[x] for x in atoms) if atoms else "nothing"


def ws_why(doc, rel) -> str:
    """Names the structure lines with a white-space spelling that did not become the node of their line type."""
    out = []
    for i, ln in enumerate(doc):
        ws = ln.get("ws")
        if ws is None:
            continue
        k = rel["own"][i].get("k")
        if ln["t"] == "H" and not (k == f"LEVEL{ln['l']}" and rel["own"][i].get("w") == "largs"):
            out.append(f"heading line {i + 1} ({line_text(ln, i)!r}: {ws_names(ws['e'])} after the closing '=' run, "
                       f"{ws_names(ws['a'])} / {ws_names(ws['b'])} around the title) did not become a section node -- it was "
                       f"left as plain text, so every line up to the next recognised heading (list lines, paragraphs, deeper "
                       f"headings) is in the wrong section: the tokenizer's heading-line recogniser does not accept this white "
                       f"space; a heading line is a heading whatever white space surrounds its tokens (ParserRefDoc!HeadWs)")
        elif ln["t"] == "L" and k != "LIST_ITEM":
            out.append(f"list line {i + 1} ({line_text(ln, i)!r}: {ws_names(ws['a'])} after the marker, {ws_names(ws['e'])} at the "
                       f"end of the line) did not become a list item")
    if not out:
        spelled = [f"line {i + 1} {line_text(ln, i)!r}" for i, ln in enumerate(doc) if "ws" in ln and ln["ws"] != {"a": ["SP"] if ln["t"] in "HL" else [], "b": ["SP"] if ln["t"] == "H" else [], "e": []}]
        return (" -- the document differs from its canonical spelling only in the white space around the tokens of "
                + ", ".join(spelled[:3]) + ": the relations must not depend on it") if spelled else ""
    return " -- " + "; ".join(out[:2]) + (f" (and {len(out) - 2} more)" if len(out) > 2 else "")


def has_ws(doc) -> bool:
    return any("ws" in ln for ln in doc)


def ws_exotic(doc) -> bool:
    return any(x not in WS_STRICT for ln in doc for v in ln.get("ws", {}).values() for x in v)


def variants_for(rng, doc, n_random, all_fillers):
    if has_ws(doc):
        # (round 9) spelling variants: the document as its ws fields spell it, filler-free and with random fillers
        # (the canonical spelling of the same document is a case of the other universes)
        v = [("ws", spell(doc, {}))]
        sl = slots(doc)
        for r in range(n_random if sl else 0):
            v.append((f"wsmix{r}", spell(doc, {i: pick(rng, doc[i]) for i in sl if rng.random() < 0.8})))
        return v
    v = [("plain", spell_plain(doc))]
    sl = slots(doc)
    if not sl:
        return v
    for r in range(n_random):
        fill = {i: pick(rng, doc[i]) for i in sl if rng.random() < 0.8}
        v.append((f"mix{r}", spell(doc, fill)))
    if all_fillers:
        for f in INLINE:
            v.append(("all:" + f, spell(doc, {i: (f, False) for i in sl})))
            if f not in AFTER_ONLY:
                v.append(("allB:" + f, spell(doc, {i: (f, True) for i in sl})))
        ps = [i for i in sl if doc[i]["t"] == "P"]
        if ps:
            for f in BLOCK:
                v.append(("blk:" + f, spell(doc, {i: (f, False) for i in ps})))
                v.append(("blkB:" + f, spell(doc, {i: (f, True) for i in ps})))
    return v


def diagnose(o: Outcome, cases, results, cap=400):
    """Cases whose real relations differ from the model's are handed to TLC (Trace_ParserRef) once more, which says
    whether a model machine with a deviation produces exactly the observed relations: BeglineFlagNotCounted (documents
    with a structured filler) or TitleLoopNeedsSection (the heading loop needs an open section)."""
    todo, seen = [], set()
    for idx, name, text, rel, err, tree in results:
        c = cases[idx]
        if rel is None or rel == c["rel"] or c.get("ext") or (rel == c.get("asis")):
            continue
        if name == "struct":
            todo.append((idx, c["sdoc"], rel))
        elif (idx, common.json_key(rel)) not in seen:      # the variants of a document mostly agree
            seen.add((idx, common.json_key(rel)))
            todo.append((idx, c["doc"], rel))
    todo = sorted(todo, key=lambda t: len(json.dumps(t[1])))[:cap]      # the smallest ones are reported
    if not todo:
        return
    r, bad = validate_batch([{"doc": doc, "obs": rel} for idx, doc, rel in todo])
    o.add_tlc("Trace_ParserRef(diagnosis)", r)
    for b in bad:
        idx, doc, rel = todo[b["i"] - 1]
        if "sdoc" in cases[idx]:
            cases[idx]["flag"] = bool(b["flag"])
        if b["nest"]:
            cases[idx].setdefault("nest_rels", []).append(rel)
        if cases[idx].get("span"):
            cases[idx].setdefault("mode_rels", {})[common.json_key(rel)] = bool(b["mode"])


def run_g(o: Outcome, cfgs, n_random, tier):
    with ThreadPoolExecutor(len(cfgs)) as ex:
        rs = list(ex.map(lambda c: tlc("Gen_ParserRef", c, workers=1, timeout=3000), cfgs))
    cases = []
    for cfg, r in zip(cfgs, rs):
        o.add_tlc(cfg, r)
        allf = "_QF" in cfg
        for c in r.cases:
            c["allf"] = allf
            cases.append(c)
    rng = random.Random(common.seed() * 7919 + 2)
    work = []
    shapes = {}
    for idx, c in enumerate(cases):
        if not c["doc"]:
            continue
        if "sdoc" in c:
            # structured universes: the document is spelled exactly as the model's token sequence says
            work.append((idx, c["doc"], [("struct", spell_s(c["sdoc"]))], False))
            for ln in c["sdoc"]:
                if "s" in ln:
                    k = "%s nl=%d depth=%d" % filler_shape(ln["s"])
                    shapes[k] = shapes.get(k, 0) + 1
        else:
            # (a document with an unbalanced opener is parsed as the machine's token sequence spells it: a filler
            # would interact with the open construct)
            work.append((idx, c["doc"], variants_for(rng, c["doc"], 0 if c.get("ext") else n_random, c["allf"]),
                         not c["allf"] and "tree" in c))
    results = pmap(run_chunk, work)
    diagnose(o, cases, results)
    o.extra["structured_filler_shapes"] = dict(sorted(shapes.items()))
    drift_seen = 0
    for idx, name, text, rel, err, tree in results:
        c = cases[idx]
        c["nest"] = rel is not None and rel in c.get("nest_rels", ())
        if c.get("span"):
            c["mode"] = c.get("mode_rels", {}).get(common.json_key(rel)) if rel is not None else None
        ok = judge(o, c, name, text, rel, err, "G")
        o.shape(("rel", common.json_key(c["rel"])))
        if tree is not None and ok:
            want = [strip_attrs(c["tree"])]
            if "treeA" in c:
                want.append(strip_attrs(c["treeA"]))
            if tree not in want:
                o.note_drift({"text": text, "machine_tree": want[0], "real_tree": tree})
    o.traces += len(cases)
    # (the model has one action, AddLine(l); TLC's -coverage runs out of memory on the functional
    # Parser.tla, so coverage is reported per line type)
    per_line = {}
    for c in cases:
        for t in {ln["t"] + (str(ln["l"]) if ln["t"] == "H" else str(len(ln["p"])) if ln["t"] == "L" else ln.get("c", "")) for ln in c["doc"]}:
            per_line[t] = per_line.get(t, 0) + 1
    o.extra["action_coverage"] = {"AddLine": len(cases), "documents_containing_line_type": per_line}
    mid = cases[len(cases) // 2]
    o.sample({"doc": mid["doc"], "text": spell_plain(mid["doc"]), "relations": mid["rel"]})
    return cases


# ---------------------------------------------------------------------------
# V
# ---------------------------------------------------------------------------

def random_doc(rng):
    nh = rng.randint(0, 10)
    nl = rng.randint(0, 12)
    nother = rng.randint(0, 8)
    kinds = ["H"] * nh + ["L"] * nl + [rng.choice("RPPBII") for _ in range(nother)]
    rng.shuffle(kinds)
    if rng.random() < 0.15:
        kinds.insert(0, "I")        # an open preformatted block in front of whatever comes first
    # list lines tend to come in runs
    if rng.random() < 0.6:
        kinds.sort(key=lambda k: rng.random() + (0.0 if k != "L" else 0.0))
    doc = []
    last_p = None
    for k in kinds:
        if k == "H":
            doc.append({"t": "H", "l": rng.choice([1, 2, 2, 3, 3, 4, 5, 6])})
            last_p = None
        elif k == "L":
            if last_p and rng.random() < 0.7:
                # related marker: same, one deeper, a prefix, or changed last char
                c = rng.random()
                p = list(last_p)
                if c < 0.3:
                    pass
                elif c < 0.55 and len(p) < 4:
                    p.append(rng.choice("*#"))
                elif c < 0.8 and len(p) > 1:
                    p = p[: rng.randint(1, len(p) - 1)]
                else:
                    p[-1] = "*" if p[-1] == "#" else "#"
            else:
                p = [rng.choice("*#") for _ in range(rng.randint(1, 4))]
            doc.append({"t": "L", "p": p})
            last_p = p
        else:
            doc.append({"t": k})
            last_p = None
    return doc


def add_span(rng, doc):
    """One construct that spans lines: a random list / paragraph / indented line opens it, 0-2 continuation lines and
    the closer line follow it directly."""
    cand = [i for i, ln in enumerate(doc) if ln["t"] in ("L", "P", "I")]
    if not cand:
        return doc
    i = rng.choice(cand)
    kind = rng.choice(sorted(SPANS))
    doc = [dict(ln) for ln in doc]
    doc[i]["o"] = kind
    doc[i + 1:i + 1] = [{"t": "X"}] * rng.choice((0, 0, 1, 2)) + [{"t": "C", "c": kind, "b": rng.random() < 0.4}]
    return doc


def run_v_chunk(chunk):
    common.use_repo()
    res = []
    with Scratch("c02v-") as d:
        ctx = pt.new_ctx(d)
        try:
            for idx, doc, text in chunk:
                root, err, flags = pt.parse(ctx, text)
                res.append((idx, relations(root, doc) if root is not None else None, err))
        finally:
            ctx.close_db_conn()
    return res


def validate_batch(batch):
    with Scratch("c02t-") as d:
        tf = d / "batch.json"
        tf.write_text(json.dumps(batch))
        cfg = "SPECIFICATION Spec\nINVARIANT Verdict\nCHECK_DEADLOCK FALSE\n"
        r = tlc("Trace_ParserRef", "t.cfg", cfg_text=cfg, workers=1, env={"TRACE_FILE": str(tf)}, timeout=3000)
    v = r.tagged("VERDICT")
    if not v or v[0]["consumed"] != len(batch):
        raise common.TLCError("trace validation incomplete")
    return r, v[0]["bad"]


def random_ws(rng, doc):
    """(round 9) A random white-space spelling (strict set only) for the heading / list / rule / paragraph lines."""
    trail = lambda chars, hi: [rng.choice(chars) for _ in range(rng.choice((0, 1, 1, 2)[:hi + 2]))]
    out = []
    for ln in doc:
        ln = dict(ln)
        if ln["t"] in ("H", "L", "R", "P") and "o" not in ln and rng.random() < 0.7:
            if ln["t"] == "H":
                e = rng.choice((["CR"], ["SP", "CR"])) if rng.random() < 0.2 else trail(("SP", "TAB"), 2)
                ln["ws"] = {"a": trail(("SP", "TAB"), 2), "b": trail(("SP", "TAB"), 2), "e": e}
            else:
                ln["ws"] = {"a": trail(("SP", "TAB"), 2) if ln["t"] == "L" else [], "b": [], "e": trail(("SP", "TAB"), 2)}
        out.append(ln)
    return out


def run_v(o: Outcome, n):
    rng = random.Random(common.seed() * 104729 + 202)
    rng_ws = random.Random(common.seed() * 104729 + 909)
    items = []
    for idx in range(n):
        doc = random_doc(rng)
        if not doc:
            doc = [{"t": "P"}]
        if rng.random() < 0.25:
            doc = add_span(rng, doc)
        if rng_ws.random() < 0.3:
            doc = random_ws(rng_ws, doc)
        fill = {i: pick(rng, doc[i]) for i in slots(doc) if rng.random() < 0.5}
        if rng.random() < 0.35:
            # one or two lines carry a random STRUCTURED filler (nesting depth <= 3, may span lines) after their word;
            # the recorded document keeps the structure (fields s, z) so that TLC can replay it through the machine
            doc = [dict(ln) for ln in doc]
            sl = slots(doc)
            for i in rng.sample(sl, min(len(sl), rng.randint(1, 2))):
                doc[i]["s"] = random_filler(rng, rng.randint(1, 3))
                doc[i]["z"] = rng.random() < 0.5
                fill[i] = (render_piece(doc[i]["s"]) + (" z" if doc[i]["z"] else ""), False, True)
        items.append((idx, doc, spell(doc, fill)))
    res = {idx: (rel, err) for idx, rel, err in pmap(run_v_chunk, items)}
    batch, index = [], []
    for idx, doc, text in items:
        rel, err = res[idx]
        o.evaluations += 1
        if rel is None:
            o.violation({"origin": "V", "text": text, "doc": doc, "error": err},
                        f"parse() raised {err} on a heading/list/rule document", cls="exception")
            continue
        batch.append({"doc": doc, "obs": rel})
        index.append(idx)
    # several TLC processes side by side
    nparts = 8
    parts = [list(range(k, len(batch), nparts)) for k in range(nparts)]
    parts = [p for p in parts if p]
    with ThreadPoolExecutor(len(parts)) as ex:
        outs = list(ex.map(lambda p: validate_batch([batch[j] for j in p]), parts))
    for p, (r, bad) in zip(parts, outs):
        o.add_tlc("Trace_ParserRef", r)
        o.traces += len(p)
        for b in bad:
            j = p[b["i"] - 1]
            idx = index[j]
            _, doc, text = items[idx]
            case = {"doc": doc, "rel": b["expected"], "asis": batch[j]["obs"] if b["asis"] else None, "nest": bool(b["nest"]),
                    "acc": b["acc"], "mode": bool(b["mode"])}
            if any("s" in ln for ln in doc):
                case["sdoc"], case["flag"] = doc, bool(b["flag"])
            judge_v(o, case, text, batch[j]["obs"])
    for bt in batch:
        o.shape(("vrel", common.json_key(bt["obs"])))
    if items:
        o.sample({"random_doc": items[0][1], "text": items[0][2], "observed": res[0][0]})


def judge_v(o, case, text, rel):
    exp, doc = case["rel"], case["doc"]
    pdoc = [{k: v for k, v in ln.items() if k not in ("s", "z")} for ln in doc]
    if any("o" in ln for ln in pdoc):
        judge_span(o, dict(case, doc=pdoc), "V", text, rel, "V")
        return
    cexp, crel = core(exp, pdoc), core(rel, pdoc)
    if cexp == crel:
        cls = diff_class(exp, rel)
        o.note_drift({"origin": "V", "text": text, "doc": doc, "differs_in": cls, "expected": exp[cls], "got": rel[cls],
                      "note": "beyond the statement" + (par_why(pdoc, exp, rel, text) if cls == "par" else "")})
        return
    cls = diff_class(cexp, crel)
    c = {"origin": "V", "text": text, "doc": doc, "expected": exp, "got": rel, "differs_in": cls}
    why = (f"parse({text!r}): relation '{cls}' extracted from the real tree is {crel[cls]!r}; "
           f"the nesting model demands {cexp[cls]!r}")
    if cls == "par":
        why += par_why(pdoc, cexp, crel, text)
    if has_ws(pdoc):
        why += ws_why(pdoc, rel)
    if case.get("nest"):
        why += NEST_WHY
    if case["asis"] is not None:
        o.classify(c, why, [DEV], cls="hline-level1")
    elif "sdoc" in case:
        o.violation(c, why + ("" if case.get("nest") else struct_why(case["sdoc"], case["flag"])), cls="V:struct:" + cls)
    else:
        o.violation(c, why, cls="V:" + cls)


# ---------------------------------------------------------------------------

def run(tier: str) -> int:
    o = Outcome(PID, tier)
    thorough = tier == "thorough"
    o.rule = ("G: every document (sequence of heading / list / rule / paragraph / blank lines) reachable in the "
              "universes of Gen_ParserRef is one case; each is parsed filler-free, with random filler assignments "
              "and (universe F) with every catalogue filler in every slot; V: seeded random long documents "
              "validated by Trace_ParserRef. Universes I / FI (thorough also I5, I with 5 lines): the indented line (an open "
              "preformatted block) as a line type in every document of <= 4 lines over {H1..H3, indented, *, **, rule, paragraph, "
              "blank} and with every catalogue filler (FI, <= 3 lines); relation par = kind of the parent node of every section "
              "node / list / preformatted block. Universe O: unbalanced openers (italic, bold, span, div, table cell) left open in "
              "documents of <= 3 (4) lines, expectation = the machine's relations, DRIFT only. Universes S1/S2 (S3 thorough): documents with one STRUCTURED filler enumerated by "
              "TLC (outer construct T/A/L x inner construct T/A/L/E, single- or multi-line, x every body of <= 2 (3) elements "
              "over {inner construct, word, newline, newline+list marker, newline+blank, argument separator}, depth 3 in S3; "
              "S1 = every filler in 10 document frames, S2 = 12 representative fillers in every document of <= 3 lines), "
              "spelled piece by piece; Universe SP (SP3 thorough): constructs that span lines - {none, H2, *} . opener line (*, **, #, "
              "paragraph, indented x <pre>, <div>, <span>, <ref> opened after the word) . {no, one} continuation line . closer "
              "line (closer first / word first) . every sequence of <= 2 (3) lines over {H2, H3, *, **, (#,) rule, paragraph}; "
              "expectation = the machine's relations, the statement accepts both readings of the construct (RefAccept), the "
              "machine's persistent mode obeys ModeOK; V puts one such construct (0-2 continuation lines) into 25 % of its "
              "documents; V also puts random structured fillers (depth <= 3) into 35 % of its documents. "
              "Universe W (round 9): every document of <= 3 lines over {H2, H3, H4, *, **, #, rule, paragraph} x 14 white-space "
              "spelling schemes (after the end token of a heading: nothing / blank / TAB / blank+TAB / CR / FF / VT / U+00A0 / "
              "U+3000, mixed by line; between the '=' runs and the title; after a list marker; at the end of list / paragraph "
              "lines; after ----), expectation = the relations of the canonical spelling; V spells 30 % of its documents with "
              "random blanks / TABs / CR around the tokens. "
              "distinct_nontrivial counts distinct relation records (own, sec, item, "
              "lst, counts) demanded / observed.")
    o.assumptions = [
        "marker words w<i> identify lines; fillers never contain such a word",
        "statement-backed (VIOLATION): own/sec/item/lst/counts of heading, list and paragraph lines, sec of indented lines, par of "
        "heading lines (a section node is a child of its parent section's node or of the root); beyond the statement (DRIFT): "
        "own of indented lines, par of list, indented and rule lines, everything in documents with an unbalanced opener",
        "inline fillers stand after (or, where that does not change the construct, before) the marker word; "
        "block fillers only next to paragraph words",
        "relations are read off the real tree from parent chains of the marker words (harness/parsetree.word_paths)",
        "a construct that spans lines (<pre>, <div>, <span>, <ref> opened after the word of a list / paragraph / indented line, "
        "closed on a later line) is one balanced filler; its own lines carry no catalogue filler; whether it continues or ends "
        "the list item it was opened in is outside the statement (both readings accepted, the machine's is the DRIFT "
        "expectation); every line after the closer is an ordinary line (statement-backed as everywhere else)",
        "white space around the tokens of a structure line (field ws) is a spelling variant: the relations do not depend on it; "
        "which characters count is a tokenizer fact stated as data in ParserRefDoc (HeadWs = Python's \\s after the end token of a "
        "heading and around its title; blank / TAB elsewhere); blank, TAB and CR are statement-backed (VIOLATION), form feed, "
        "vertical tab, U+00A0 and U+3000 are DRIFT (MediaWiki does not trim them)",
        "structured fillers stand after the marker word; inside them only words, blanks, newlines, * / # at a line start, "
        "the argument separator and further constructs occur (no rule, heading or table syntax); links are not nested in links",
    ]
    if thorough:
        cfgs = ["Gen_ParserRef_TH.cfg", "Gen_ParserRef_TL.cfg", "Gen_ParserRef_TM.cfg", "Gen_ParserRef_TM6.cfg", "Gen_ParserRef_QM.cfg",
                "Gen_ParserRef_QF.cfg", "Gen_ParserRef_QS1.cfg", "Gen_ParserRef_QS2.cfg", "Gen_ParserRef_TS3.cfg",
                "Gen_ParserRef_QI.cfg", "Gen_ParserRef_TI.cfg", "Gen_ParserRef_TI5.cfg", "Gen_ParserRef_QFI.cfg", "Gen_ParserRef_TO.cfg",
                "Gen_ParserRef_TSP.cfg", "Gen_ParserRef_QW.cfg"]
    else:
        cfgs = ["Gen_ParserRef_QH.cfg", "Gen_ParserRef_QL.cfg", "Gen_ParserRef_QM.cfg", "Gen_ParserRef_QF.cfg",
                "Gen_ParserRef_QS1.cfg", "Gen_ParserRef_QS2.cfg",
                "Gen_ParserRef_QI.cfg", "Gen_ParserRef_QFI.cfg", "Gen_ParserRef_QO.cfg", "Gen_ParserRef_QSP.cfg",
                "Gen_ParserRef_QW.cfg"]
    # the Demo for the structured fillers (runs beside G): TLC itself finds a counterexample on a machine whose
    # begline switch does not count its nesting
    with ThreadPoolExecutor(3) as ex:
        # the Demo for the constructs that span lines: TLC itself finds a balanced document ('* w1 <pre>x' / 'w2</pre>')
        # after which a machine whose </pre> clears pre mode only together with a PRE node is not in its initial mode
        demo3 = ex.submit(tlc, "Gen_ParserRef", "Demo_ParserRef_premode.cfg", workers=1, check=False)
        demo = ex.submit(tlc, "Gen_ParserRef", "Demo_ParserRef_begline.cfg", workers=1, check=False)
        # the Demo for the open-block dimension: TLC itself finds a counterexample (an indented line directly before the
        # first heading) on a machine whose heading loop pops only while a section is open
        demo2 = ex.submit(tlc, "Gen_ParserRef", "Demo_ParserRef_firsthead.cfg", workers=1, check=False)
        run_g(o, cfgs, 2 if thorough else 1, tier)
        rb = demo.result()
        rn = demo2.result()
        rm = demo3.result()
    o.exhaustive = True
    # the Demo: TLC itself finds the rule/LEVEL1 counterexample on the as-is machine
    r = tlc("Gen_ParserRef", "Demo_ParserRef_hline.cfg", workers=1, check=False)
    o.extra["demo_hline_asis_counterexample_found"] = "AsIsOK" in r.invariant_violated
    if "AsIsOK" not in r.invariant_violated:
        raise common.TLCError("Demo_ParserRef_hline did not produce the expected counterexample")
    o.extra["demo_begline_flag_counterexample_found"] = "FlagOK" in rb.invariant_violated
    if "FlagOK" not in rb.invariant_violated:
        raise common.TLCError("Demo_ParserRef_begline did not produce the expected counterexample")
    o.extra["demo_firsthead_counterexample_found"] = "NestOK" in rn.invariant_violated
    if "NestOK" not in rn.invariant_violated:
        raise common.TLCError("Demo_ParserRef_firsthead did not produce the expected counterexample")
    o.extra["demo_premode_counterexample_found"] = "ModeLawDev" in rm.invariant_violated
    if "ModeLawDev" not in rm.invariant_violated:
        raise common.TLCError("Demo_ParserRef_premode did not produce the expected counterexample")
    run_v(o, 60000 if thorough else 4000)
    return o.finish()


def replay(path: str) -> int:
    v = json.loads(Path(path).read_text())
    c = v["case"]
    common.use_repo()
    with Scratch("c02r-") as d:
        ctx = pt.new_ctx(d)
        root, err, flags = pt.parse(ctx, c["text"])
        rel = relations(root, c["doc"]) if root is not None else None
        ctx.close_db_conn()
    print("text    :", repr(c["text"]))
    print("expected:", json.dumps(c.get("expected")))
    print("got now :", json.dumps(rel) if rel is not None else err)
    return 0 if rel is not None and rel == c.get("expected") else 1


def selftest() -> int:
    """A recorded relation is corrupted; Trace_ParserRef must reject exactly that case (once for a plain document,
    once for a document whose list line carries a nested multi-line structured filler)."""
    common.use_repo()
    doc = [{"t": "H", "l": 2}, {"t": "L", "p": ["*"]}, {"t": "L", "p": ["*", "#"]}, {"t": "H", "l": 3}, {"t": "P"}]
    wd = lambda a: {"k": "TXT", "a": [a]}
    inner = {"k": "FILL", "m": "L", "args": [[wd("l")], [wd("u")]]}
    sdoc = [dict(ln) for ln in doc]
    sdoc[1].update(s={"k": "FILL", "m": "T", "args": [[wd("t")], [inner, {"k": "NL"}], [wd("x")]]}, z=True)
    bad_counts = []
    with Scratch("c02s-") as d:
        ctx = pt.new_ctx(d)
        for dd, text in ((doc, spell(doc, {})), (sdoc, spell_s(sdoc))):
            root, err, _ = pt.parse(ctx, text)
            rel = relations(root, dd)
            for corrupt in (False, True):
                obs = json.loads(json.dumps(rel))
                if corrupt:
                    obs["item"][2] = 0          # pretend the nested item is not nested
                _, bad = validate_batch([{"doc": dd, "obs": obs}])
                bad_counts.append(len(bad))
        # an indented line directly before the first heading: the recorded parent of the section node is changed from
        # ROOT to PREFORMATTED -> rejected, and TLC recognises the machine whose heading loop needs an open section
        idoc = [{"t": "I"}, {"t": "H", "l": 2}, {"t": "P"}]
        root, err, _ = pt.parse(ctx, spell(idoc, {}))
        rel = relations(root, idoc)
        _, bad0 = validate_batch([{"doc": idoc, "obs": rel}])
        obs = json.loads(json.dumps(rel))
        obs["par"][1] = "PREFORMATTED"
        _, bad1 = validate_batch([{"doc": idoc, "obs": obs}])
        nest = [len(bad0), len(bad1), bool(bad1 and bad1[0]["nest"])]
        # a construct that spans lines: the list item after the closer is recorded as plain text -> rejected, outside both
        # readings the statement accepts
        pdoc = [{"t": "H", "l": 2}, {"t": "L", "p": ["*"], "o": "PRE"}, {"t": "C", "c": "PRE", "b": False},
                {"t": "L", "p": ["*"]}, {"t": "H", "l": 3}]
        root, err, _ = pt.parse(ctx, spell(pdoc, {}))
        rel = relations(root, pdoc)
        _, bad0 = validate_batch([{"doc": pdoc, "obs": rel}])
        obs = json.loads(json.dumps(rel))
        obs["own"][3] = dict(NOOWN)
        obs["nitem"] -= 1
        _, bad1 = validate_batch([{"doc": pdoc, "obs": obs}])
        span = [len(bad0), len(bad1), bool(bad1 and all(core(a, pdoc) != core(obs, pdoc) for a in bad1[0]["acc"]))]
        # (round 9) a white-space spelling: the heading line ends with a TAB, the list marker is followed by nothing; the
        # record "the heading line stayed plain text" is rejected
        wdoc = [{"t": "H", "l": 2, "ws": {"a": ["SP"], "b": [], "e": ["SP", "TAB"]}},
                {"t": "L", "p": ["*"], "ws": {"a": [], "b": [], "e": ["TAB"]}}, {"t": "H", "l": 3, "ws": {"a": [], "b": [], "e": ["CR"]}}]
        root, err, _ = pt.parse(ctx, spell(wdoc, {}))
        rel = relations(root, wdoc)
        _, bad0 = validate_batch([{"doc": wdoc, "obs": rel}])
        obs = json.loads(json.dumps(rel))
        obs["own"][0] = dict(NOOWN); obs["sec"][1] = 0; obs["sec"][2] = 0; obs["nsec"] = 1; obs["par"][1] = "ROOT"; obs["par"][0] = "-"
        _, bad1 = validate_batch([{"doc": wdoc, "obs": obs}])
        wsr = [len(bad0), len(bad1)]
        ctx.close_db_conn()
    print("white-space spelling (intact, heading line recorded as plain text):", wsr)
    if wsr != [0, 1]:
        return 1
    print("bad counts (intact, corrupted; plain, structured):", bad_counts, "; open block before the first heading "
          "(intact, corrupted parent, recognised as TitleLoopNeedsSection):", nest, "; construct that spans lines "
          "(intact, item after the closer lost, outside both accepted readings):", span)
    return 0 if bad_counts == [0, 1, 0, 1] and nest == [0, 1, True] and span == [0, 1, True] else 1
