"""Helpers shared by the parser-function checks (c18.py, c05b.py): creating
contexts of the working tree, concretising #expr token lists, abstracting what
the real code returned."""
from __future__ import annotations

import re
import shutil
import signal
import tempfile
from fractions import Fraction
from pathlib import Path

import common

def tlc(module, cfg, *, check=True, **kw):
    """common.tlc, repeated when the TLC process was terminated from outside
    (other checks running on the same machine clean up with `pkill -f tlc2.TLC`)."""
    import sys
    import time

    for attempt in range(4):
        r = common.tlc(module, cfg, check=False, **kw)
        if r.rc in (143, 137, -15, -9, 130) and not r.ok and not r.invariant_violated:
            time.sleep(1 + attempt)
            continue
        break
    if check and not r.ok:
        sys.stderr.write(r.out[-6000:])
        raise common.TLCError(f"TLC did not complete cleanly on {module}/{cfg} (rc={r.rc})")
    return r


HUGE = "9" * 400                      # a 400-digit integer literal
TINY = "0." + "0" * 320 + "1"         # 1e-321 (a denormal double)


class _Timeout(BaseException):
    """Raised by the alarm; a BaseException so that no `except Exception` of the
    library swallows it."""


def _on_alarm(signum, frame):
    raise _Timeout()


class Ctx:
    """A Wtp on a scratch database that is removed on exit."""

    def __init__(self, lang_code: str = "en", title: str = "Test"):
        common.use_repo()
        from wikitextprocessor import Wtp

        self.dir = Path(tempfile.mkdtemp(prefix="pf-"))
        (self.dir / "db").mkdir()
        self.wtp = Wtp(db_path=str(self.dir / "db" / "p.db"), lang_code=lang_code, quiet=True, quiet_output=True)
        self.title = title
        self.wtp.start_page(title)
        self.n = 0

    def expand(self, text: str) -> str:
        self.n += 1
        if self.n % 2000 == 0:        # the cookie table grows with every expand
            self.wtp.start_page(self.title)
        return self.wtp.expand(text)

    def run(self, text: str, limit: float = 3.0):
        """-> ("ok", output) or ("exc", 'Type: message'); a call that has not
        returned after `limit` seconds of CPU time of this process (so: independent
        of the load of the machine; an ordinary call takes milliseconds) is
        reported as ("exc", "Timeout: ...")"""
        old = signal.signal(signal.SIGVTALRM, _on_alarm)
        signal.setitimer(signal.ITIMER_VIRTUAL, limit)
        try:
            return ("ok", self.expand(text))
        except _Timeout:
            signal.setitimer(signal.ITIMER_VIRTUAL, 0)
            self.wtp.start_page(self.title)
            return ("exc", f"Timeout: no result after {limit:g} s of CPU time")
        except Exception as e:  # noqa: BLE001 - an escaping exception is the observation
            signal.setitimer(signal.ITIMER_VIRTUAL, 0)
            # an escaping exception leaves its frames on expand_stack; start afresh
            self.wtp.start_page(self.title)
            return ("exc", f"{type(e).__name__}: {e}"[:200])
        finally:
            signal.setitimer(signal.ITIMER_VIRTUAL, 0)
            signal.signal(signal.SIGVTALRM, old)

    def close(self):
        try:
            self.wtp.db_conn.close()
        except Exception:
            pass
        shutil.rmtree(self.dir, ignore_errors=True)

    def __enter__(self):
        return self

    def __exit__(self, *a):
        self.close()


# --------------------------------------------------------------------------
# #expr: token list -> text
# --------------------------------------------------------------------------

def conc_tok(t: str) -> str:
    return HUGE if t == "HUGE" else TINY if t == "TINY" else t


def _need_space(a: str, b: str) -> bool:
    """Would the two lexemes merge (or lex differently) when written adjacent?
    (the same rule as NeedSpace of spec/Expr.tla, which MC_Expr_tokenizer.cfg
    checks against the model of the tokeniser)"""
    if a[-1].isalpha() and b[0].isalpha():
        return True
    if b[0].isdigit() and (a[-1].isdigit() or a[-1] == "."):
        return True
    if b[0] == "." and a.isdigit():
        return True
    if (a == "!" and b[0] == "=") or (a == "<" and b[0] in ">=") or (a == ">" and b[0] == "="):
        return True
    return False


def render(tokens, style: str) -> str:
    """style: spaced | tight | loud (upper-case words, irregular blanks)"""
    toks = [conc_tok(t) for t in tokens]
    if style == "spaced":
        return " ".join(toks)
    if style == "tight":
        out = []
        for i, t in enumerate(toks):
            if i and _need_space(toks[i - 1], t):
                out.append(" ")
            out.append(t)
        return "".join(out)
    if style == "loud":
        out = []
        for i, t in enumerate(toks):
            out.append(t.upper() if i % 2 == 0 else t.capitalize())
            out.append("  " if i % 3 == 0 else "\n " if i % 3 == 1 else " \t")
        return " " + "".join(out)
    raise ValueError(style)


_NUM = re.compile(r"^-?(\d+\.?\d*|\.\d+)(e[+-]?\d+)?$", re.I)


def abstract_expr_output(kind: str, out: str) -> dict:
    """What the real #expr returned, on the projection the model talks about:
    {"kind": "exc"|"err"|"val", "txt": ..., "frac": Fraction|None}"""
    if kind == "exc":
        return {"kind": "exc", "txt": out}
    s = out.strip()
    if _NUM.match(s):
        try:
            return {"kind": "val", "txt": s if len(s) < 60 else s[:20] + f"...({len(s)} chars)", "frac": Fraction(s)}
        except (ValueError, ZeroDivisionError):
            pass
    return {"kind": "err", "txt": s[:120]}


def value_matches(frac: Fraction, n: int, d: int, tol: float = 1e-9) -> bool:
    exp = Fraction(n, d)
    return abs(frac - exp) <= tol * max(1, abs(exp))


def small_fraction(frac: Fraction, bound: int = 30000):
    """(n, d, close): the fraction with denominator <= bound nearest to the
    observed value and whether the observation is within 1e-9 of it."""
    f = frac.limit_denominator(bound)
    if abs(f.numerator) > bound:
        return (0, 1, False)
    return (f.numerator, f.denominator, abs(frac - f) <= 1e-9 * max(1, abs(f)))


def decimal_text(n: int, d: int) -> str:
    """n/d as a decimal numeral when it terminates (d = 2^a 5^b), else 'n/d'."""
    import decimal

    dd = d
    for p in (2, 5):
        while dd % p == 0:
            dd //= p
    if dd != 1:
        return f"{n}/{d}"
    q = decimal.Context(prec=60).divide(decimal.Decimal(n), decimal.Decimal(d))
    return format(q.normalize(), "f")
