"""C07 — every Lua invocation is stopped by its time limit and the context stays usable.

M  TLC on spec/LuaTimeout.tla (MC_LuaTimeout_*.cfg): for every program of the bounded
   grammar (body x wrapper list) the small-step machine (hook per Lua thread, instruction
   budget, clock, protected-call stack, coroutines, hook control, nested #invoke, Python
   side clean-up) ends exactly as the big-step semantics predicts, for the ideal design
   and for the code as it is; ideal: `DeadlinePassed ~> Done` under weak fairness of the
   program and the clock (no state constraint), timeout never swallowed, overrun bounded
   by one clock granule, context restored; Demo_LuaTimeout_*.cfg: with one deviation on
   TLC shows the lasso / the swallowed timeout.
G  Gen_LuaTimeout: TLC enumerates the programs with the demanded outcome class and the
   predicted class under every subset of the modelled deviations.  Each program is rendered
   to a Lua module and run through Wtp.expand('{{#invoke:..}}', timeout=1) in a child
   process with a hard kill; observed class {aborted in-band within the bound, returned,
   error element, hung} is compared; then benign invocations on the SAME context are
   compared with a fresh context.  Histories of several programs on one context likewise.
   Families of the grammar: core wrappers (protected calls, catch-and-continue loops,
   coroutines, hook control, nested invocations); WHERE the endless code sits relative to a
   protected call (message handler of an xpcall entered for an ordinary error / for the time
   limit error inside the count hook / for the time limit error handed on by a coroutine's
   resumer; metamethods; code _lua_invoke runs outside its pcall; resumer of a suspended
   coroutine); the sandbox bookkeeping helpers of the LIVE module environment called with
   nil / false / a table / a number before the loop.
   Sessions (spec/LuaSession.tla: every invocation under its own limit; spec/LuaSessionLoad.tla: the abort happens INSIDE
   THE LOADING MACHINERY - the endless / failing code is the top-level chunk (or a function) of a library module reached
   through require() / require() in a nested invocation / mw.loadData / #invoke of the module itself, its name one of the
   sandbox's retained names or an ordinary one - followed by benign invocations that need the SAME module again through the
   same cache; the model threads package.loaded and the loadData cache through the session, the demanded outcome of every
   step is that of a fresh context).
V  the rendered programs report what happens inside (wrapper entered, error caught by the
   module's own protected call, result) through a recording page-store call; the event
   sequence of every run is validated by TLC (Trace_LuaTimeout) against the machine: it
   must be the visible projection of a behaviour of LuaTimeout under the deviation set
   that explains the outcome.
"""
from __future__ import annotations

import json
import multiprocessing as mp
import os
import random
import re
import sys
import time
from pathlib import Path

import common
import luafix
from common import Outcome, Scratch, tlc

PID = "C07"
LIMIT = 1            # configured limit in seconds (os.time() has 1 s granularity)
BOUND = 2.5          # aborted in-band no later than LIMIT + BOUND (1 granule + hook period + scheduling)
KILL = 6.0           # hard kill LIMIT + KILL seconds after the start of the invocation
DEVS = ["PcallCatchesTimeout", "CoroutineNoHook", "HookControlExported", "NestedInvokeResetsHook", "NestedTimeoutInBand",
        "XpcallHandlerRunsInHook", "EnvStackHelperAcceptsNil"]
# among deviation sets of the same size that explain an outcome the more specific deviation is named first
SPECIFIC = ["EnvStackHelperAcceptsNil", "XpcallHandlerRunsInHook", "NestedTimeoutInBand", "NestedInvokeResetsHook", "HookControlExported",
            "CoroutineNoHook", "PcallCatchesTimeout"]
MAXEV = 14           # events reported per run (a prefix of the real behaviour)
MAXLATE = 2          # notes "the time limit came back in-band from a nested invocation" kept beyond that prefix

BODY = {
    "tight": "while true do end",
    "lib": "while true do local s = string.rep('x', 3) local n = string.len(s) .. string.upper(s) end",
    "tailrec": "local function r(n) return r(n + 1) end\nr(1)",
    "deeprec": "local function r(n) return 1 + r(n + 1) end\nr(1)",
    # a loop that keeps making benign nested invocations: the count hook practically always fires inside one
    # (it reports when one of them comes back as the in-band timeout element; {i} = len(wrap) + 1, the level of the body)
    "invloop": "while true do local v = frame:preprocess('{{{{#invoke:c07ben|f}}}}') if nres(v) == 'timeout' then ev('nret', {i}, 'timeout') end end",
}
# wrappers whose INNER runs in a NESTED invocation of function n<i> of the same module, and how it is reached
NESTED = {
    "ninv": "frame:preprocess('{{{{#invoke:{m}|n{i}}}}}')",
    "ninvt": "frame:expandTemplate{{ title = '{m}t{i}' }}",       # Template:<m>t<i> = {{#invoke:<m>|n<i>}} (no '_': titles are normalised)
    "ninvx": "frame:extensionTag('span', '{{{{#invoke:{m}|n{i}}}}}')",
}


# wrappers whose INNER is the MESSAGE HANDLER of an xpcall, and the protected function that goes with it
HANDLER_PF = {
    "xhe": "error('c07')",                                              # entered for an ordinary error, outside any hook
    "xht": "while true do end",                                         # entered for the time limit error, inside the count hook
    "xhc": "colib.wrap(function() while true do end end)()",            # ... raised in a coroutine, handed on by its resumer
}
ARGVAL = {"nil": "nil", "false": "false", "table": "{}", "number": "7"}


def helper_call(w: str):
    """'hc:<helper>:<value class>' -> (helper, value class) or None"""
    if not w.startswith("hc:"):
        return None
    _, h, v = w.split(":")
    if not re.fullmatch(r"[A-Za-z_][A-Za-z0-9_]*", h) or v not in ARGVAL:
        raise ValueError(w)
    return h, v


def wrap_code(w: str, inner: str, i: int) -> str:
    enter = f"ev('enter', {i}, '{w}')\n"
    if w in HANDLER_PF:
        # the handler reports that Lua entered it and for which class of error; an error raised inside a handler enters
        # the handler again: reported again only when the time limit error arrives in a handler entered for another one
        return (f"local hl{i} = nil\n"
                f"local function h{i}(e)\n"
                f"local c{i} = 'lua'\n"
                f"if string.find(tostring(e), 'Lua timeout error', 1, true) then c{i} = 'timeout' end\n"
                f"if hl{i} == nil or (hl{i} == 'lua' and c{i} == 'timeout') then hl{i} = c{i} ev('hdl', {i}, c{i}) end\n"
                f"{inner}\nend\n" + enter +
                f"local ok{i}, e{i} = xpcall(function() {HANDLER_PF[w]} end, h{i})\n"
                f"if not ok{i} then ev('caught', {i}, tostring(e{i})) end")
    if w == "mts":
        return enter + f"local s{i} = tostring(setmetatable({{}}, {{__tostring = function()\n{inner}\nend}}))"
    if w == "mix":
        return enter + f"local v{i} = setmetatable({{}}, {{__index = function(t, k)\n{inner}\nend}}).c07"
    if w == "coy":
        return enter + f"local co{i} = colib.create(function() colib.yield(1) end)\ncolib.resume(co{i})\n{inner}"
    hc = helper_call(w)
    if hc:
        return enter + f"pcall({hc[0]}, {ARGVAL[hc[1]]})\n{inner}"
    if w == "pcall":
        return enter + f"local ok{i}, e{i} = pcall(function()\n{inner}\nend)\nif not ok{i} then ev('caught', {i}, tostring(e{i})) end"
    if w == "xpcall":
        return enter + f"local ok{i}, e{i} = xpcall(function()\n{inner}\nend, function(e) return e end)\nif not ok{i} then ev('caught', {i}, tostring(e{i})) end"
    if w == "xpcallh":   # the handler keeps the message away from whoever inspects the caught value
        return enter + f"local ok{i}, e{i} = xpcall(function()\n{inner}\nend, function(e) return {{m = e}} end)\nif not ok{i} then ev('caught', {i}, tostring(type(e{i}) == 'table' and e{i}.m or e{i})) end"
    if w == "xlooph":
        return enter + f"while true do\nlocal ok{i}, e{i} = xpcall(function()\n{inner}\nend, function(e) return {{m = e}} end)\nif not ok{i} then ev('caught', {i}, tostring(type(e{i}) == 'table' and e{i}.m or e{i})) end\nend"
    if w == "ploop":
        return enter + f"while true do\nlocal ok{i}, e{i} = pcall(function()\n{inner}\nend)\nif not ok{i} then ev('caught', {i}, tostring(e{i})) end\nend"
    if w == "xloop":
        return enter + f"while true do\nlocal ok{i}, e{i} = xpcall(function()\n{inner}\nend, function(e) return e end)\nif not ok{i} then ev('caught', {i}, tostring(e{i})) end\nend"
    if w == "cowrap":
        return enter + f"colib.wrap(function()\n{inner}\nend)()"
    if w == "cores":
        return enter + f"local ok{i}, e{i} = colib.resume(colib.create(function()\n{inner}\nend))\nif not ok{i} then ev('caught', {i}, tostring(e{i})) end"
    if w == "clear":
        return enter + f"_lua_clear_timeout_hook()\n{inner}"
    if w == "rearm":
        return enter + f"_lua_set_timeout(59)\n{inner}"
    if w == "inv":
        return enter + "frame:preprocess('{{#invoke:c07ben|f}}')\n" + inner
    raise ValueError(w)


def lua_function(name: str, code: str) -> str:
    return (f"function p.{name}(frame)\n"
            "local okc, colib = pcall(require, 'coroutine')\n"
            + code + "\ndo return 'done' end\nend\n")


def render(body: str, wrap: list[str], name: str = "c07p0") -> str:
    """One module per program.  A wrapper of NESTED cuts the program: INNER becomes function n<i> of the
    module, the enclosing code reaches it through Python (a nested call_lua_sandbox) and reports what came back."""
    code = BODY[body].format(i=len(wrap) + 1) if body == "invloop" else BODY[body]
    fns = []
    lib = None
    for i in range(len(wrap), 0, -1):
        w = wrap[i - 1]
        if w in ("lix", "load"):
            # the code is run by _lua_invoke itself, outside its pcall(fn, frame): while the module is loaded (chunk level)
            # / by the lookup mod[fn_name] through the __index metamethod of the module table
            if i != 1:
                raise ValueError(wrap)
            lib = w
            code = f"ev('enter', 1, '{w}')\n" + code
        elif w in NESTED:
            fns.append(lua_function(f"n{i}", code))
            code = (f"ev('enter', {i}, '{w}')\n"
                    f"local r{i} = " + NESTED[w].format(m=name, i=i) + "\n"
                    f"ev('nret', {i}, nres(r{i}))")
        else:
            code = wrap_code(w, code, i)
    return (
        "local p = {}\n"
        "local nev = 0\n"
        "local nlate = 0\n"
        "local function ev(what, i, x)\n"
        f"  if nev >= {MAXEV} then\n"
        "    -- beyond the reported prefix only the fact that the time limit came back in-band from a nested invocation is noted\n"
        f"    if what == 'nret' and x == 'timeout' and nlate < {MAXLATE} then\n"
        "      nlate = nlate + 1\n"
        "      mw_python_get_page_content('c07late|' .. i, 0)\n"
        "    end\n"
        "    return\n"
        "  end\n"
        "  nev = nev + 1\n"
        "  mw_python_get_page_content('c07ev|' .. what .. '|' .. i .. '|' .. tostring(x), 0)\n"
        "end\n"
        "local function nres(r)\n"
        "  r = tostring(r)\n"
        "  if string.find(r, 'Lua timeout error', 1, true) then return 'timeout' end\n"
        "  if string.find(r, 'Lua execution error', 1, true) then return 'lua' end\n"
        "  return 'ok'\n"
        "end\n"
        + (lua_function("main", code) if lib is None else
           "local function bylib()\nlocal okc, colib = pcall(require, 'coroutine')\n" + code + "\nend\n"
           + ("bylib()\nfunction p.main(frame) return 'done' end\n" if lib == "load" else ""))
        + "".join(reversed(fns))
        + ("return setmetatable(p, {__index = function(t, k)\nif k ~= 'main' then return nil end\nbylib()\n"
           "return function(frame) return 'done' end\nend})\n" if lib == "lix" else "return p\n")
    )


def nested_templates(wrap: list[str], name: str) -> dict:
    return {f"{name}t{i}": "{{#invoke:%s|n%d}}" % (name, i) for i, w in enumerate(wrap, start=1) if w == "ninvt"}


BEN = "local p = {} function p.f(frame) return 'ben' .. (frame.args[1] or '') end return p"
TIMEOUT_ELEM = '<strong class="error">Lua timeout error in Module:{m} function main</strong>'
ERROR_ELEM = '<strong class="error">Lua execution error in Module:{m} function main</strong>'
FOLLOW = [c for c in luafix.SMOKE_CASES if not c[0].startswith("{{#invoke:smoke|glob")]


def pname(k: int) -> str:
    return f"c07p{k}"


def child(progs, d: str, conn):
    """Runs a history (list of programs) on ONE context, then the benign follow-ups."""
    sys.stdout = open(os.devnull, "w")
    sys.stderr = open(os.devnull, "w")
    common.use_repo()
    from wikitextprocessor import Wtp

    events: list = []
    late: list = []

    class RecWtp(Wtp):
        def get_page_body(self, title, namespace_id):
            if isinstance(title, str) and title.startswith("c07late|"):
                if len(late) < MAXLATE:
                    late.append(int(title.split("|")[1]))
                    conn.send(("late", late[-1]))
                return None
            if isinstance(title, str) and title.startswith("c07ev|"):
                if len(events) < MAXEV:  # (the counter of the module is per load of the module)
                    events.append(title.split("|", 3)[1:])
                    conn.send(("ev", events[-1]))  # also streamed: a killed run keeps its prefix
                return None
            return super().get_page_body(title, namespace_id)

    sub = Path(d) / "db"
    sub.mkdir(parents=True)
    ctx = RecWtp(db_path=sub / "pages.db", quiet=True)
    mods = {"ustring:ustring": luafix.USTRING_STUB, "libraryUtil": luafix.LIBRARYUTIL_STUB, "c07ben": BEN}
    mods.update(luafix.SMOKE_MODULES)
    for k, p in enumerate(progs):
        mods[pname(k)] = render(p["body"], p["wrap"], pname(k))
    luafix.add_modules(ctx, mods)
    for k, p in enumerate(progs):
        for name, body in nested_templates(p["wrap"], pname(k)).items():
            ctx.add_page("Template:" + name, 10, body=body)
    for name, body in luafix.SMOKE_TEMPLATES.items():
        ctx.add_page("Template:" + name, 10, body=body)
    ctx.db_conn.commit()
    ctx.start_page("Tt")
    for k, p in enumerate(progs):
        del events[:]
        del late[:]
        conn.send(("start", k, time.time()))
        t0 = time.time()
        try:
            out = ctx.expand("{{#invoke:%s|main}}" % pname(k), timeout=limit_of(p))
            exc = None
        except BaseException as e:
            out, exc = None, repr(e)[:300]
        conn.send(("end", k, time.time() - t0, out, exc, list(events),
                   [len(ctx.expand_stack), len(ctx.lua_env_stack), len(ctx.lua_frame_stack)], list(late)))
    follow = []
    for text, _ in FOLLOW:
        try:
            follow.append(ctx.expand(text, timeout=LIMIT * 5))
        except BaseException as e:
            follow.append("EXC " + repr(e)[:200])
    conn.send(("follow", follow))
    conn.close()
    os._exit(0)


def helper_roles_of_c06() -> list:
    """names listed in HelperRoles of spec/SandboxReachStack.tla (the bookkeeping model of C06); [] if it cannot be read"""
    try:
        text = (common.SPEC / "SandboxReachStack.tla").read_text()
        m = re.search(r"^HelperRoles\s*==\s*\[(.*?)\]\s*$", text, re.S | re.M)
        return sorted(set(re.findall(r"(\w+)\s*\|->", m.group(1)))) if m else []
    except OSError:
        return []


def _helpers_child(d: str, listed, conn):
    sys.stdout = open(os.devnull, "w")
    sys.stderr = open(os.devnull, "w")
    try:
        import lupa.lua51 as lupa_mod

        ctx = luafix.make_ctx(d, {"c07env": "local p = {} function p.f(frame) return 'x' end return p"}, {}, record=True)
        ctx.expand("{{#invoke:c07env|f}}")
        envs = [e for e in ctx.lua_env_stack.seen if lupa_mod.lua_type(e) == "table"]
        env = envs[-1]
        names = []
        for k, v in env.items():
            if isinstance(k, str) and (k.startswith("_") or k in listed):
                t = lupa_mod.lua_type(v)
                if t == "function" or (t is None and callable(v)):
                    names.append(k)
        conn.send(sorted(names))
    except BaseException as e:  # noqa: BLE001
        conn.send("EXC " + repr(e)[:300])
    conn.close()
    os._exit(0)


def start_live_helpers(d: Path):
    """The sandbox bookkeeping helpers a module environment REALLY contains (every global of the environment handed to a
    module whose name starts with '_' or that the bookkeeping model of C06 lists, and that can be called).  Started in a
    child process before any thread exists; returns a function that waits for the names."""
    a, b = mp.get_context("fork").Pipe(duplex=False)
    pr = mp.get_context("fork").Process(target=_helpers_child, args=(str(d / "helpers"), helper_roles_of_c06(), b))
    pr.start()
    b.close()

    def wait():
        got = a.recv() if a.poll(120) else "EXC no answer"
        pr.join(10)
        if pr.is_alive():
            pr.kill()
        if not isinstance(got, list) or not got:
            raise RuntimeError(f"could not enumerate the helpers of the module environment: {got}")
        return got
    return wait


def limit_of(p) -> float:
    """The configured limit of a run: the model's one clock granule stands for any limit up to LIMIT seconds,
    whole or fractional (the Lua side counts whole seconds, so the abort still comes within LIMIT + BOUND)."""
    import zlib

    h = zlib.crc32(json.dumps([p["body"], p["wrap"]]).encode())
    if any(w.startswith("hc:") for w in p["wrap"]):
        return (0.5, 0.3)[h % 2]     # (the large family of helper calls: the abort comes at the next full second)
    return (LIMIT, 0.5, 0.3)[h % 3]


def classify_run(k, elapsed, out, exc):
    if exc is not None:
        return "exception"
    if out == TIMEOUT_ELEM.format(m=pname(k)):
        return "aborted" if elapsed <= LIMIT + BOUND else "late"
    if out == ERROR_ELEM.format(m=pname(k)):
        return "error"
    if out == "done":
        return "returned"
    return "other"


def run_histories(hists, base: Path, nproc: int = 16):
    """hists: list of lists of programs.  Returns per history: list of run records + follow-ups."""
    common.use_repo()
    import wikitextprocessor  # noqa: F401  (imported once here, inherited by the forked children: 0.3 s of CPU per child)
    mpc = mp.get_context("fork")
    pending = list(enumerate(hists))
    running = []
    results = {}
    while pending or running:
        while pending and len(running) < nproc:
            hi, progs = pending.pop(0)
            a, b = mpc.Pipe(duplex=False)
            p = mpc.Process(target=child, args=(progs, str(base / f"h{hi}"), b))
            p.start()
            b.close()
            running.append({"hi": hi, "progs": progs, "p": p, "conn": a, "runs": [], "cur": None, "follow": None, "t": time.time()})
        time.sleep(0.01)
        for r in list(running):
            try:
                while r["conn"].poll():
                    m = r["conn"].recv()
                    if m[0] == "start":
                        r["cur"] = (m[1], time.time())
                        r["evs"] = []
                        r["late"] = []
                    elif m[0] == "ev":
                        r.setdefault("evs", []).append(m[1])
                    elif m[0] == "late":
                        r.setdefault("late", []).append(m[1])
                    elif m[0] == "end":
                        _, k, el, out, exc, evs, stacks, late = m
                        r["runs"].append({"k": k, "elapsed": round(el, 2), "out": out, "exc": exc, "events": evs, "late": late,
                                          "stacks": stacks, "cls": classify_run(k, el, out, exc)})
                        r["cur"] = None
                    elif m[0] == "follow":
                        r["follow"] = m[1]
            except (EOFError, OSError):
                pass
            alive = r["p"].is_alive()
            hung = r["cur"] is not None and time.time() - r["cur"][1] > LIMIT + KILL
            stuck = r["cur"] is None and time.time() - r["t"] > 120 + 10 * len(r["progs"])
            if alive and not hung and not stuck:
                continue
            if alive:
                r["p"].kill()
            r["p"].join()
            if hung:
                r["runs"].append({"k": r["cur"][0], "elapsed": round(LIMIT + KILL, 2), "out": None, "exc": None,
                                  "events": list(r.get("evs", [])), "late": list(r.get("late", [])), "stacks": None, "cls": "hung"})
            elif r["follow"] is None and not hung:
                if stuck or r["p"].exitcode != 0 or len(r["runs"]) < len(r["progs"]):
                    # SIGKILL / SIGTERM that did not come from here (the machine's out-of-memory killer, a stray pkill)
                    # says nothing about the library: class "killed" (re-executed; machinery failure if it stays)
                    external = not stuck and r["p"].exitcode in (-9, -15)
                    r["runs"].append({"k": len(r["runs"]), "elapsed": None, "out": None, "exc": f"child died (exit {r['p'].exitcode})",
                                      "events": None, "late": [], "stacks": None, "cls": "killed" if external else "exception"})
            results[r["hi"]] = {"runs": r["runs"], "follow": r["follow"]}
            running.remove(r)
    return [results[i] for i in range(len(hists))]


# ---------------------------------------------------------------------------

def key(p):
    return p["body"] + ":" + ">".join(p["wrap"])


def predictions(c):
    """deviation set -> set of outcome classes the model allows (more than one only where the
    position of the hook firing in a catch-and-continue loop decides)."""
    return {frozenset(x["dev"]): set(x["r"]) for x in c["preds"]}


def inband_at(run):
    """Wrapper indices at which the running module itself saw the time limit come back from a nested invocation
    as an in-band element (len(wrap) + 1 = the benign invocations of body invloop)."""
    if not run:
        return []
    at = {int(e[1]) for e in (run.get("events") or []) if e[0] == "nret" and len(e) > 2 and e[2] == "timeout"}
    return sorted(at | set(run.get("late") or []))


def explain(c, real, run=None):
    """Smallest deviation set under which the model allows the observed class; among sets of the same size one
    that agrees with what the module reported (a nested timeout handed over in-band <=> NestedTimeoutInBand)."""
    seen = bool(inband_at(run))
    best = None
    for dev, r in predictions(c).items():
        if real not in r:
            continue
        k = (len(dev), ("NestedTimeoutInBand" in dev) != seen, sorted(SPECIFIC.index(x) if x in SPECIFIC else len(SPECIFIC) for x in dev), sorted(dev))
        if best is None or k < best[0]:
            best = (k, dev)
    return best and best[1]


def obs_class(cls):
    return {"late": "hung"}.get(cls, cls)


HELPERS_ENV: dict = {}     # {"C07_HELPERS": file with the live helper names}: read by spec/LuaTimeout.tla (HelperNames)


def load_programs(o, thorough):
    # Q: every body x wrapper lists up to length 1; QN: wrapper lists of length 2 with a nested invocation in them
    # (where the non-terminating code runs: under / above a protected call, a catch-and-continue loop, a coroutine);
    # QW: where the endless code sits relative to a protected call (message handler of an xpcall entered for an ordinary
    # error / for the time limit error, metamethods, code run by _lua_invoke itself, resumer of a coroutine);
    # QH: every bookkeeping helper of the live module environment x {nil, false, table, number} before the loop
    cfgs = (["Gen_LuaTimeout_Q.cfg", "Gen_LuaTimeout_QN.cfg"]
            + (["Gen_LuaTimeout_TW.cfg", "Gen_LuaTimeout_TH.cfg", "Gen_LuaTimeout_T2.cfg", "Gen_LuaTimeout_T3.cfg"] if thorough
               else ["Gen_LuaTimeout_QW.cfg", "Gen_LuaTimeout_QH.cfg"]))
    cases = {}
    from concurrent.futures import ThreadPoolExecutor

    with ThreadPoolExecutor(max_workers=4) as pool:
        runs = list(pool.map(lambda cfg: tlc("Gen_LuaTimeout", cfg, workers=1, timeout=900, env=HELPERS_ENV), cfgs))
    for cfg, r in zip(cfgs, runs):
        o.add_tlc(cfg[:-4], r)
        for c in r.cases:
            cases.setdefault(key(c), c)
    return list(cases.values())


def fresh_follow(base: Path):
    """The benign invocations on a new context (the reference of the follow-up comparison).  Their limit is
    generous, but on an overloaded machine even that can run out: tried again before it counts as a failure."""
    want = [w for _, w in FOLLOW]
    res = None
    for attempt in range(3):
        res = run_histories([[]], base / f"fresh{attempt}")[0]
        if res["follow"] == want:
            break
    if res["follow"] is None:
        raise RuntimeError("benign invocations failed on a fresh context")
    return res["follow"]


def where_clause(c, run) -> str:
    """What the program did before / where its endless code sits, as far as the running module reported it: names the
    message handler / the bookkeeping helper in the 'why' of a verdict."""
    out = ""
    evs = run.get("events") or []
    for i, w in enumerate(c["wrap"], start=1):
        hc = helper_call(w)
        if hc and any(e[0] == "enter" and int(e[1]) == i for e in evs):
            out += (f"; before that the module had called the sandbox bookkeeping helper {hc[0]}({ARGVAL[hc[1]]}), which is exported into "
                    "every module environment: no call of it may have an influence on the time limit"
                    + (" (_python_top_env() is nil afterwards: the count hook and the re-raise of pcall/xpcall/coroutine.resume take that "
                       "for 'no invocation in progress')" if hc == ("_python_append_env", "nil") else ""))
        if w in HANDLER_PF:
            entered = [e[2] for e in evs if e[0] == "hdl" and int(e[1]) == i]
            if "timeout" in entered:
                how = ("for the time limit error raised by the count hook in the protected function - inside the hook"
                       if w == "xht" else
                       "for the time limit error handed on by the resumer of the coroutine it struck in, and again - inside the count hook - "
                       "for the one raised in the handler" if w == "xhc" else
                       "for an ordinary error and again - inside the count hook - for the time limit error raised in the handler")
                out += (f"; the endless code is the MESSAGE HANDLER of the module's xpcall (wrapper {i}, {w}): Lua entered it {how}, "
                        "where Lua calls no further hooks, so nothing can stop it any more")
            elif entered:
                out += f"; the endless code is the message handler of the module's xpcall (wrapper {i}, {w}), entered for an ordinary error"
    return out


def judge(o, c, run, follow, fresh, where, recheck=None):
    """Compare one observed run with the demand / the model."""
    if run["cls"] == "killed":
        raise RuntimeError(f"{key(c)} ({where}): the child process was killed from outside, twice ({run['exc']}): machine out of memory?")
    real = obs_class(run["cls"])
    want = c["demand"]
    case = {"kind": "G", "program": {"body": c["body"], "wrap": c["wrap"]}, "lua": render(c["body"], c["wrap"]),
            "observed": run["cls"], "elapsed_s": run["elapsed"], "demanded": want, "where": where,
            "result": (run["out"] or "")[:120]}
    if run["cls"] in ("exception", "other"):
        o.violation(case, f"{key(c)}: expand() did not produce an in-band result ({run['exc'] or run['out']!r})", cls="not-in-band")
        return real
    if real != want:
        dev = explain(c, real, run)
        why = {
            "returned": "returned normally although a timeout error had been raised (swallowed by the module)" if want == "aborted" else "returned normally",
            "hung": f"not aborted within {LIMIT}+{BOUND} s (killed after {LIMIT + KILL} s)" if run["cls"] == "hung" else f"aborted only after {run['elapsed']} s",
            "error": "ended with an ordinary Lua error element",
            "aborted": "aborted by the time limit",
        }[real]
        inband = inband_at(run)
        if inband and real == "returned" and want == "aborted":
            why = "returned its own value after the time limit had struck"
        if inband:
            at = f"made by wrapper {inband[0]} ({c['wrap'][inband[0] - 1]})" if inband[0] <= len(c["wrap"]) else "made by the body's loop"
            why += (f"; the time limit struck inside the nested invocation {at}: it came back to the enclosing module as the "
                    "in-band 'Lua timeout error' element of the nested function and the enclosing module carried on")
            case["nested_timeout_in_band_at_wrapper"] = inband
        why += where_clause(c, run)
        if dev is None:
            o.violation(case, f"{key(c)}: {why}; demanded: {want}; no modelled deviation predicts this", cls="unexplained:" + real)
        else:
            o.classify(case, f"{key(c)}: {why}; demanded: {want}", sorted(dev), cls="+".join(sorted(dev)) + ":" + real)
    elif run["stacks"] is not None and run["stacks"] != [1, 0, 0]:
        o.violation(case, f"{key(c)}: context not restored after the invocation: expand/env/frame stack depths {run['stacks']}", cls="stacks")
    return real



# ---------------------------------------------------------------------------
# sessions: every #invoke runs under its own limit, whatever the previous one left
# (spec/LuaSession.tla; counterexample of the design that keeps an installed hook:
#  Demo_LuaSession_kept.cfg)
# ---------------------------------------------------------------------------
SESSION_MODULES = {
    "c07s": "local p = {}\nfunction p.heavy(frame) local s = 0 for i = 1, 3000000 do s = s + (i % 7) end return 'sum=' .. s end\n"
            "function p.spin(frame) while true do end end\n"
            "function p.nmspin(frame) pcall(frame.preprocess, frame, '{{#invoke:c07nomodule|f}}') while true do end end\n"
            "function p.nfspin(frame) pcall(frame.preprocess, frame, '{{#invoke:c07s|nosuchfn}}') while true do end end\n"
            "function p.nbspin(frame) pcall(frame.preprocess, frame, '{{#invoke:c07bad|f}}') while true do end end\n"
            "function p.nspin(frame) local r = frame:preprocess('{{#invoke:c07s|spin}}') return 'after:' .. tostring(r) end\n"
            "function p.nlspin(frame) while true do pcall(function() frame:preprocess('{{#invoke:c07s|spin}}') end) end end\nreturn p\n",
    "c07bad": "local p = {}\nfunction p.f(frame) return 'x' end\nreturn p p\n",  # chunk does not compile
}
ERR_ELEM = re.compile(r'^<strong class="error">Lua execution error in Module:[\w:]+ function \w+</strong>$')
TMO_ELEM = re.compile(r'^<strong class="error">Lua timeout error in Module:[\w:]+ function \w+</strong>$')


def session_child(sess, d, conn):
    sys.stdout = open(os.devnull, "w")
    sys.stderr = open(os.devnull, "w")
    common.use_repo()
    from wikitextprocessor import Wtp

    sub = Path(d) / "db"
    sub.mkdir(parents=True)
    ctx = Wtp(db_path=sub / "pages.db", quiet=True)
    mods = {"ustring:ustring": luafix.USTRING_STUB, "libraryUtil": luafix.LIBRARYUTIL_STUB}
    mods.update(SESSION_MODULES)
    luafix.add_modules(ctx, mods)
    ctx.db_conn.commit()
    ctx.start_page("Tt")
    call = {"heavy": "{{#invoke:c07s|heavy}}", "spin": "{{#invoke:c07s|spin}}", "nofn": "{{#invoke:c07s|nosuchfn}}",
            "nomod": "{{#invoke:c07nomodule|f}}", "bad": "{{#invoke:c07bad|f}}",
            "nmspin": "{{#invoke:c07s|nmspin}}", "nfspin": "{{#invoke:c07s|nfspin}}", "nbspin": "{{#invoke:c07s|nbspin}}",
            "nspin": "{{#invoke:c07s|nspin}}", "nlspin": "{{#invoke:c07s|nlspin}}"}
    for i, st in enumerate(sess):
        if st["k"] == "pause":
            time.sleep(LIMIT + 1.3)
            conn.send((i, "paused", 0.0, None))
            continue
        t0 = time.time()
        try:
            out = ctx.expand(call[st["k"]], timeout=(LIMIT if st["lim"] == 1 else None))
        except BaseException as e:  # noqa: BLE001
            out = "EXC " + repr(e)[:200]
        conn.send((i, "done", time.time() - t0, out))
    conn.close()
    os._exit(0)


def run_sessions(sessions, base: Path, nproc: int = 16, target=None):
    """Each session in its own child process with a hard kill."""
    target = target or session_child
    ctxm = mp.get_context("fork")
    res = [None] * len(sessions)
    pending = list(enumerate(sessions))
    running = []
    while pending or running:
        while pending and len(running) < nproc:
            idx, sess = pending.pop(0)
            pc, cc = ctxm.Pipe(False)
            pr = ctxm.Process(target=target, args=(sess, str(base / f"s{idx}"), cc))
            pr.start()
            cc.close()
            budget = sum((LIMIT + 1.5) if st["k"] == "pause" else (LIMIT + KILL) for st in sess) + 10
            running.append((idx, pr, pc, time.time() + budget, []))
        still = []
        for idx, pr, pc, deadline, got in running:
            while pc.poll(0):
                try:
                    got.append(pc.recv())
                except EOFError:
                    break
            if not pr.is_alive() or time.time() > deadline:
                ours = pr.is_alive()
                if ours:
                    pr.kill()
                pr.join()
                if not ours and pr.exitcode in (-9, -15):   # killed from outside (out-of-memory killer, stray pkill)
                    got.append((-1, "killed", 0.0, None))
                while pc.poll(0):
                    try:
                        got.append(pc.recv())
                    except EOFError:
                        break
                res[idx] = got
            else:
                still.append((idx, pr, pc, deadline, got))
        running = still
        time.sleep(0.05)
    return res


def session_outcome(st, rec):
    if rec is None:
        return "hung"
    _, kind, elapsed, out = rec
    if kind == "paused":
        return "paused"
    if isinstance(out, str) and out.startswith("EXC "):
        return "exception"
    if isinstance(out, str) and TMO_ELEM.match(out):
        spins = ("spin", "nmspin", "nfspin", "nbspin", "nspin", "nlspin")
        return "timeout-in-bound" if (st["k"] in spins and elapsed <= LIMIT + BOUND) else ("timeout-late" if st["k"] in spins else "timeout")
    if isinstance(out, str) and ERR_ELEM.match(out):
        return "error"
    return "value"


def check_sessions(o, d: Path):
    from concurrent.futures import ThreadPoolExecutor

    with ThreadPoolExecutor(max_workers=5) as pool:
        r, dm, dm2, rl, dml = pool.map(lambda mc: tlc(mc[0], mc[1], workers=1, check=mc[1].startswith("Gen")),
                                       [("Gen_LuaSession", "Gen_LuaSession.cfg"), ("Gen_LuaSession", "Demo_LuaSession_kept.cfg"),
                                        ("Gen_LuaSession", "Demo_LuaSession_inband.cfg"),
                                        ("Gen_LuaSessionLoad", "Gen_LuaSessionLoad.cfg"), ("Gen_LuaSessionLoad", "Demo_LuaSessionLoad_kept.cfg")])
    o.add_tlc("Gen_LuaSession (every invocation under its own limit)", r)
    o.add_tlc("Gen_LuaSessionLoad (aborts inside the loading machinery, then the same module again)", rl)
    if not dml.invariant_violated:
        raise common.TLCError("Demo_LuaSessionLoad_kept lost its counterexample")
    if not any(c["out"] != c["kept"] for c in rl.cases):
        raise common.TLCError("Gen_LuaSessionLoad: no session distinguishes the demanded design from LoadMarkerKept (vacuity)")
    if not dm.invariant_violated:
        raise common.TLCError("Demo_LuaSession_kept lost its counterexample")
    if not dm2.invariant_violated:
        raise common.TLCError("Demo_LuaSession_inband lost its counterexample")
    cases = r.cases
    res = run_sessions([c["sess"] for c in cases], d / "sessions")

    def first_mismatch(c, got):
        if any(g[1] == "killed" for g in got):
            return -1
        by = {g[0]: g for g in got}
        for j, stj in enumerate(c["sess"]):
            if session_outcome(stj, by.get(j)) != c["out"][j]:
                return j
        return None

    # timing-dependent verdicts are re-executed (alone, one at a time) before they are believed: a benign
    # invocation that runs out of its limit on an overloaded machine is not a defect of the library.  A
    # mismatch is kept only if it shows again, at the same step, in each of two further executions.
    suspects = [i for i, (c, got) in enumerate(zip(cases, res)) if first_mismatch(c, got) is not None]
    o.extra["sessions_reexecuted"] = len(suspects)
    for attempt in (1, 2):
        if not suspects:
            break
        again = run_sessions([cases[i]["sess"] for i in suspects], d / f"sessions-redo{attempt}", nproc=1 if len(suspects) <= 3 else 3)
        still = []
        for i, got in zip(suspects, again):
            if first_mismatch(cases[i], got) is None:
                res[i] = got            # a clean execution: the mismatch was not reproducible
            else:
                res[i] = got
                still.append(i)
        suspects = still
    for c, got in zip(cases, res):
        if any(g[1] == "killed" for g in got):
            raise RuntimeError(f"session {[x['k'] for x in c['sess']]}: the child process was killed from outside in every execution: machine out of memory?")
        o.traces += 1
        o.shape(("session", common.json_key(c["sess"])))
        by_i = {g[0]: g for g in got}
        for i, st in enumerate(c["sess"]):
            o.evaluations += 1
            real = session_outcome(st, by_i.get(i))
            if real != c["out"][i]:
                o.violation({"kind": "session", "session": c["sess"], "step": i, "observed": real, "required": c["out"][i],
                             "detail": [list(g) for g in got]},
                            f"step {i} ({st['k']}, limit {st['lim']}) of the session {[x['k'] for x in c['sess']]} gave {real!r}; every invocation must run under its own limit: {c['out'][i]!r}"
                            + (" (the endless loop runs in a NESTED invocation made by this one: the limit has to end the invocation the caller made, "
                               "not only the nested one)" if st["k"] in ("nspin", "nlspin") else ""),
                            cls="session-" + st["k"])
                break
    o.sample({"session": cases[0]["sess"], "required": cases[0]["out"]})
    check_load_sessions(o, d, rl)


# ---------------------------------------------------------------------------
# load sessions: the abort happens INSIDE THE LOADING MACHINERY (spec/LuaSessionLoad.tla): the endless / failing code is
# the top-level chunk of a library module reached through require() / mw.loadData / as the invoked module itself /
# through require() in a nested invocation; the module's name is one of the retained ones (its package.loaded entry
# survives every environment reset) or an ordinary one; then a benign invocation needs the same module again
# ---------------------------------------------------------------------------
RETAINED_DEFAULT = ["utilities", "table", "string utilities", "languages"]


def retained_names():
    """(names, drift): Module-namespace names the LIVE sandbox keeps in package.loaded across environment resets (read
    from the source of the sandbox of the tree under test; the default list + a DRIFT note if it cannot be read)"""
    try:
        import wikitextprocessor

        text = (Path(wikitextprocessor.__file__).parent / "lua" / "_sandbox_phase1.lua").read_text()
        got = sorted(set(re.findall(r'retained_modules\[\s*module_namespace_name\s*\.\.\s*":([\w -]+)"\s*\]\s*=\s*true', text)))
        if len(got) >= 2:
            return got, None
    except Exception:  # noqa: BLE001
        pass
    return list(RETAINED_DEFAULT), {"retained_modules_not_readable": "the list of retained module names could not be read from _sandbox_phase1.lua; "
                                    "default names used", "names": RETAINED_DEFAULT}


def load_names(retained, rng):
    a, b = rng.sample(retained, 2)
    return {"r1": "Module:" + a, "r2": "Module:" + b, "o1": "Module:c07 ordinary lib"}


def lib_module(title: str) -> str:
    """A library module whose LOAD (top-level chunk) or whose function does what the page 'c07mode' says at that moment."""
    return (
        "local export = {}\n"
        "local mode = mw_python_get_page_content('c07mode', 0)\n"
        "if mode == 'spin-chunk' then while true do end end\n"
        "if mode == 'err-chunk' then error('c07: configuration check failed while loading') end\n"
        f"export.tag = 'ok:{title}'\n"
        "function export.work(frame)\n"
        "  local m = mw_python_get_page_content('c07mode', 0)\n"
        "  if m == 'spin-fn' then while true do end end\n"
        "  if m == 'err-fn' then error('c07: failed at work') end\n"
        "  return export.tag\n"
        "end\n"
        "return export\n")


LOAD_CALLER = (
    "local p = {}\n"
    "function p.req(frame) return require(frame.args[1]).work(frame) end\n"
    "function p.data(frame) return mw.loadData(frame.args[1]).tag end\n"
    "function p.nreq(frame) return frame:preprocess('{{#invoke:c07l|req|' .. frame.args[1] .. '}}') end\n"
    "return p\n")


def load_call(st, names) -> str:
    t = names[st["m"]]
    if st["via"] == "self":
        return "{{#invoke:%s|work}}" % t[len("Module:"):]
    return "{{#invoke:c07l|%s|%s}}" % ({"require": "req", "nreq": "nreq", "data": "data"}[st["via"]], t)


def load_session_child(job, d, conn):
    sys.stdout = open(os.devnull, "w")
    sys.stderr = open(os.devnull, "w")
    common.use_repo()
    from wikitextprocessor import Wtp

    sess, names = job["sess"], job["names"]
    mode = {"v": ""}

    class ModeWtp(Wtp):
        def get_page_body(self, title, namespace_id):
            if title == "c07mode":
                return mode["v"]
            return super().get_page_body(title, namespace_id)

    sub = Path(d) / "db"
    sub.mkdir(parents=True)
    ctx = ModeWtp(db_path=sub / "pages.db", quiet=True)
    mods = {"ustring:ustring": luafix.USTRING_STUB, "libraryUtil": luafix.LIBRARYUTIL_STUB, "c07l": LOAD_CALLER}
    for t in names.values():
        mods[t] = lib_module(t)
    luafix.add_modules(ctx, mods)
    ctx.db_conn.commit()
    ctx.start_page("Tt")
    for i, st in enumerate(sess):
        mode["v"] = "" if st["k"] == "use" else f"{st['k']}-{st['at']}"
        t0 = time.time()
        try:
            out = ctx.expand(load_call(st, names), timeout=(LIMIT if st["k"] == "spin" else LIMIT * 5))
        except BaseException as e:  # noqa: BLE001
            out = "EXC " + repr(e)[:200]
        conn.send((i, "done", time.time() - t0, out))
    conn.close()
    os._exit(0)


LOAD_ERR = re.compile(r'^<strong class="error">Lua execution error in Module:[^<|]+ function \w+</strong>$')   # (names with spaces)
LOAD_TMO = re.compile(r'^<strong class="error">Lua timeout error in Module:[^<|]+ function \w+</strong>$')


def load_outcome(st, rec, names):
    if rec is None:
        return "hung"
    _, _, elapsed, out = rec
    if isinstance(out, str) and out.startswith("EXC "):
        return "exception"
    if isinstance(out, str) and LOAD_TMO.match(out):
        return "timeout-in-bound" if (st["k"] == "spin" and elapsed <= LIMIT + BOUND) else ("timeout-late" if st["k"] == "spin" else "timeout")
    if isinstance(out, str) and LOAD_ERR.match(out):
        return "error"
    return "value" if out == "ok:" + names[st["m"]] else "other"


VIA_TEXT = {"require": "require() in a function of the invoked module", "nreq": "require() inside a nested invocation (frame:preprocess)",
            "data": "mw.loadData()", "self": "#invoke of that module itself"}


def describe_load_step(st, names) -> str:
    t = names[st["m"]]
    kind = "its name is in the sandbox's list of retained modules" if st["m"] != "o1" else "an ordinary module name"
    if st["k"] == "use":
        return f"benign use of {t} through {VIA_TEXT[st['via']]}"
    what = "the time limit struck" if st["k"] == "spin" else "a Lua error was raised"
    where = f"while the top-level chunk of {t} was running, i.e. DURING ITS LOAD" if st["at"] == "chunk" else f"in a function of {t}, after its load"
    return f"{what} {where} ({kind}), reached through {VIA_TEXT[st['via']]}"


def check_load_sessions(o, d: Path, r):
    """r: the TLC run of Gen_LuaSessionLoad"""
    retained, drift = retained_names()
    if drift:
        o.note_drift(drift)
    rng = random.Random(common.seed() * 104729 + 11)
    names = load_names(retained, rng)
    o.extra["load_session_names"] = names
    cases = r.cases
    jobs = [{"sess": c["sess"], "names": names} for c in cases]

    class _J(dict):     # run_sessions computes the time budget from the steps
        def __iter__(self):
            return iter(self["sess"])

    res = run_sessions([_J(j) for j in jobs], d / "loadsessions", nproc=32, target=load_session_child)

    def first_mismatch(c, got):
        if any(g[1] == "killed" for g in got):
            return -1
        by = {g[0]: g for g in got}
        for j, stj in enumerate(c["sess"]):
            if load_outcome(stj, by.get(j), names) != c["out"][j]:
                return j
        return None

    suspects = [i for i, (c, got) in enumerate(zip(cases, res)) if first_mismatch(c, got) is not None]
    o.extra["load_sessions_reexecuted"] = len(suspects)
    for attempt in (1, 2):       # same protection as for the other sessions: a mismatch must show again, twice
        if not suspects:
            break
        again = run_sessions([_J(jobs[i]) for i in suspects], d / f"loadsessions-redo{attempt}", nproc=3 if len(suspects) <= 6 else 8,
                             target=load_session_child)
        still = []
        for i, got in zip(suspects, again):
            res[i] = got
            if first_mismatch(cases[i], got) is not None:
                still.append(i)
        suspects = still
    # the fresh-context reference: the one-step sessions <<use>> must give the value, or the machinery is broken
    for c, got in zip(cases, res):
        if len(c["sess"]) == 1 and first_mismatch(c, got) is not None:
            raise RuntimeError(f"load sessions: the benign use {load_call(c['sess'][0], names)} does not give its value on a FRESH context: {got}")
    for c, got in zip(cases, res):
        if any(g[1] == "killed" for g in got):
            raise RuntimeError(f"load session {c['sess']}: the child process was killed from outside in every execution: machine out of memory?")
        o.traces += 1
        o.shape(("loadsession", common.json_key(c["sess"])))
        by_i = {g[0]: g for g in got}
        for i, st in enumerate(c["sess"]):
            o.evaluations += 1
            real = load_outcome(st, by_i.get(i), names)
            if real == c["out"][i]:
                continue
            calls = [load_call(x, names) for x in c["sess"]]
            if st["k"] == "use":
                before = "; then ".join(describe_load_step(x, names) for x in c["sess"][:i] if x["k"] != "use")
                why = (f"after an aborted invocation the same context does not expand a subsequent benign invocation correctly: step {i} "
                       f"{calls[i]} ({describe_load_step(st, names)}) gave {real!r} ({(by_i.get(i) or [None] * 4)[3]!r}); a fresh context gives "
                       f"'ok:{names[st['m']]}'.  Before it: {before}")
                if real == c["kept"][i]:
                    why += (".  That is what the model predicts when the loader leaves an unfinished entry for the module in its cache "
                            "(package.loaded / the mw.loadData cache) when the chunk does not return [LoadMarkerKept]: the entry of a retained "
                            "name survives every environment reset, so the module is never loaded again on this context")
            else:
                why = (f"step {i} {calls[i]} ({describe_load_step(st, names)}) gave {real!r}; demanded: {c['out'][i]!r} "
                       "(the invocation is stopped by its own limit / an error becomes an in-band error element, wherever the code sits)")
                if i > 0:
                    why += ("; a fresh context gives that, this context does not after: "
                            + "; then ".join(describe_load_step(x, names) for x in c["sess"][:i] if x["k"] != "use"))
            o.violation({"kind": "loadsession", "session": c["sess"], "calls": calls, "names": names, "step": i, "observed": real,
                         "required": c["out"][i], "detail": [list(g) for g in got]}, why, cls=f"loadsession-{st['k']}-after-{c['sess'][0]['at']}")
            break
    o.sample({"load_session": [load_call(x, names) for x in cases[len(cases) // 2]["sess"]], "steps": cases[len(cases) // 2]["sess"],
              "required": cases[len(cases) // 2]["out"]})


def run(tier: str) -> int:
    o = Outcome(PID, tier)
    thorough = tier == "thorough"
    o.rule = (
        "G: one case per program of the grammar body x wrapper list enumerated by TLC (distinct by body and wrapper "
        "list; every program is non-trivial: it is executed through #invoke with a 1 s limit; the wrapper kinds "
        "ninv/ninvt/ninvx and the body invloop put the non-terminating code into a NESTED invocation reached through "
        "frame:preprocess / expandTemplate / extensionTag; the kinds xhe/xht/xhc put it into the MESSAGE HANDLER of an xpcall - entered "
        "for an ordinary error, for the time limit error inside the count hook, for the time limit error handed on by a coroutine's "
        "resumer -, mts/mix into a metamethod, lix/load into code _lua_invoke runs outside its pcall, coy into the resumer of a "
        "suspended coroutine; hc:<helper>:<value> calls one of the bookkeeping helpers of the LIVE module environment with "
        "nil / false / a table / a number before the loop), plus histories of "
        "several programs on one context; each followed by benign invocations compared with a fresh context; sessions of "
        "Gen_LuaSession and Gen_LuaSessionLoad (abort cause spin/err x place chunk-of-a-library-module/function x way "
        "require/nested require/mw.loadData/self x name retained/ordinary, then benign uses of the same module; distinct by step list). "
        "V: one recorded event trace per executed program."
    )
    o.assumptions = [
        f"limit {LIMIT} s, in-band abort accepted up to {LIMIT}+{BOUND} s (os.time() granularity 1 s + one hook period + scheduling), hard kill at {LIMIT}+{KILL} s = hung",
        "100000 Lua instructions take far less than one clock granule (Tick gating in LuaTimeout)",
        "offline stand-ins for ustring/libraryUtil; nested #invoke through frame:preprocess, frame:expandTemplate of a template that invokes, "
        "frame:extensionTag with wikitext content (frame:callParserFunction('#invoke', ..) does not run the module in this library: it returns the call unexpanded)",
    ]
    # ---- the bookkeeping helpers of the live module environment (child process, started before any thread exists)
    with Scratch("c07h-") as hd:
        return _run(o, thorough, Path(hd))


def _run(o, thorough, hd: Path) -> int:
    wait_helpers = start_live_helpers(hd)
    tphase = [("start", time.time())]

    def mark(name):
        tphase.append((name, time.time()))
        o.extra["phase_seconds"] = {b[0]: round(b[1] - a[1], 1) for a, b in zip(tphase, tphase[1:])}
    # ---- M
    for name, cfg, kw in (
        ("MC_ideal", "MC_LuaTimeout_ideal_T.cfg" if thorough else "MC_LuaTimeout_ideal.cfg", {"coverage": True}),
        ("MC_asis", "MC_LuaTimeout_asis_T.cfg" if thorough else "MC_LuaTimeout_asis.cfg", {}),
    ):
        r = tlc("MC_LuaTimeout", cfg, workers=16, timeout=1500, **kw)
        o.add_tlc(name, r)
        if kw:
            o.extra["action_coverage"] = luafix.coverage_actions(r.out)
    if thorough:
        for d in ("Pcall", "Co", "HookCtl", "Nested", "InBand", "Xh", "EnvNil"):
            r = tlc("MC_LuaTimeout", f"MC_LuaTimeout_dev{d}_T.cfg", workers=16, timeout=1500)
            o.add_tlc("MC_dev" + d, r)
        for k in ("ideal", "asis"):   # every kind the machine distinguishes (KindsMC) at depth 2
            o.add_tlc(f"MC_{k}_W", tlc("MC_LuaTimeout", f"MC_LuaTimeout_{k}_W.cfg", workers=16, timeout=1500))
    never = [a for a in ('Invoke', 'Enter', 'Step', 'PFStep', 'HookFires', 'Tick', 'Unwind', 'Ret') if not o.extra["action_coverage"].get(a)]
    if never:
        raise common.TLCError(f"actions never taken in the model-checking runs (vacuity): {never}")
    demos = {}
    demo_cfgs = (("pcall_survives", True), ("loop_escape", True), ("pcall_loop", False), ("coroutine", False), ("hookctl", False), ("nested", False),
                 ("nested_inband", True), ("nested_inband_loop", False), ("nested_inband_invloop", False),
                 ("xhandler_hook", False), ("xhandler_error", False), ("envnil", False))
    from concurrent.futures import ThreadPoolExecutor

    with ThreadPoolExecutor(max_workers=6) as pool:   # single-program configurations, one TLC worker each: run side by side
        demo_runs = list(pool.map(lambda nm: tlc("MC_LuaTimeout", f"Demo_LuaTimeout_{nm}.cfg", workers=1, check=False), [n for n, _ in demo_cfgs]))
    for (name, inv), r in zip(demo_cfgs, demo_runs):
        bad = bool(r.invariant_violated) if inv else bool(re.search(r"Temporal propert(y|ies) .*violated", r.out))
        demos[name] = bad
        if not bad:
            raise common.TLCError(f"Demo_LuaTimeout_{name} no longer shows its counterexample (vacuity guard)")
    o.extra["demo_counterexamples"] = demos
    mark("model checking")
    # ---- G
    names = wait_helpers()
    listed = helper_roles_of_c06()
    (hd / "helpers.json").write_text(json.dumps(names))
    HELPERS_ENV["C07_HELPERS"] = str(hd / "helpers.json")
    o.extra["live_helpers"] = names
    if listed and set(names) != set(listed):
        o.note_drift({"helpers_of_the_live_module_environment": sorted(set(names) - set(listed)),
                      "listed_in_HelperRoles_of_SandboxReachStack_but_not_callable_there": sorted(set(listed) - set(names)),
                      "note": "every live one is in the universe of this check whether or not the bookkeeping model of C06 knows it"})
    cases = load_programs(o, thorough)
    if not any(helper_call(c["wrap"][0]) == (h, v) for c in cases if c["wrap"] for h in names[:1] for v in ("nil",)):
        raise common.TLCError("the generator did not emit the helper calls of the live module environment")
    mark("generators")
    rng = random.Random(common.seed() * 7919 + 7)
    with Scratch("c07-") as d:
        fresh = fresh_follow(d)
        want_follow = [w for _, w in FOLLOW]
        if fresh != want_follow:
            raise RuntimeError(f"benign modules do not run on a fresh context: {[(a, b) for a, b in zip(fresh, want_follow) if a != b][:2]}")
        # an executing program WAITS for the clock (busy, but the abort comes at a full second whatever share of a core it
        # gets): twice as many children as cores.  Whatever comes out late or hung is re-executed below, few at a time.
        res = run_histories([[c] for c in cases], d / "single", nproc=32)
        # Every verdict of this check depends on time (a starved child process is "late" or "hung", a benign
        # follow-up can run out of its limit): anything that is not what the property demands is re-executed
        # (few at a time) before it is believed - whether or not a modelled deviation would explain it.

        def suspect(c, r):
            if not r["runs"]:
                return True
            run0 = r["runs"][0]
            return (obs_class(run0["cls"]) != c["demand"] or run0["cls"] in ("exception", "other")
                    or (run0["stacks"] is not None and run0["stacks"] != [1, 0, 0])
                    or (run0["cls"] != "hung" and r["follow"] != fresh))

        redo = [i for i, (c, r) in enumerate(zip(cases, res)) if suspect(c, r)]
        if redo:
            again = run_histories([[cases[i]] for i in redo], d / "redo", nproc=4 if len(redo) <= 8 else 8)
            for i, r in zip(redo, again):
                res[i] = r
        o.extra["reexecuted"] = len(redo)
        observed = {}
        traces = []
        for c, r in zip(cases, res):
            o.evaluations += 1
            o.shape(("prog", key(c)))
            if not r["runs"]:
                raise RuntimeError(f"no result for program {key(c)}")
            run0 = r["runs"][0]
            real = judge(o, c, run0, r["follow"], fresh, "single program on a new context")
            observed[key(c)] = real
            traces.append((c, run0, real))
            if r["follow"] is None and run0["cls"] != "hung":
                o.violation({"kind": "G", "program": {"body": c["body"], "wrap": c["wrap"]}, "lua": render(c["body"], c["wrap"]), "observed": run0["cls"]},
                            f"after {key(c)} ({run0['cls']}) the benign invocations on the same context did not come to an end", cls="follow-up")
            if r["follow"] is not None:
                o.evaluations += len(FOLLOW)
                for (text, _), got, exp in zip(FOLLOW, r["follow"], fresh):
                    if got != exp:
                        o.violation({"kind": "G", "program": {"body": c["body"], "wrap": c["wrap"]}, "lua": render(c["body"], c["wrap"]),
                                     "then": text, "got": got, "fresh_context": exp},
                                    f"after {key(c)} ({run0['cls']}) the same context expands {text} to {got!r}; a fresh context gives {exp!r}",
                                    cls="follow-up")
                        break
        o.sample({"program": key(cases[len(cases) // 2]), "lua": render(cases[len(cases) // 2]["body"], cases[len(cases) // 2]["wrap"])[-300:]})
        o.extra["observed_classes"] = {k: sum(1 for v in observed.values() if v == k) for k in sorted(set(observed.values()))}
        mark("programs")
        # ---- histories: several programs that do end, one context, then the benign invocations
        # (programs that ended as demanded when run alone - nested invocations included - or that no deviation lets hang)
        ending = [c for c in cases if observed[key(c)] in ("aborted", "error", "returned")
                  and (observed[key(c)] == c["demand"] or not any("hung" in r for r in predictions(c).values()))]
        hists = []
        nh = 24 if thorough else 6
        for _ in range(nh):
            if len(ending) >= 2:
                hists.append([rng.choice(ending) for _ in range(3)])
        hres = run_histories(hists, d / "hist")

        def hist_suspect(h, r):
            return (r["follow"] != fresh or len(r["runs"]) != len(h)
                    or any(obs_class(rr["cls"]) != observed[key(c)] and obs_class(rr["cls"]) != c["demand"] for c, rr in zip(h, r["runs"])))

        hredo = [i for i, (h, r) in enumerate(zip(hists, hres)) if hist_suspect(h, r)]   # same protection as above
        if hredo:
            again = run_histories([hists[i] for i in hredo], d / "hist-redo", nproc=2)
            for i, r in zip(hredo, again):
                hres[i] = r
        o.extra["histories_reexecuted"] = len(hredo)
        for h, r in zip(hists, hres):
            o.traces += 1
            o.shape(("hist", tuple(key(c) for c in h)))
            for c, rr in zip(h, r["runs"]):
                o.evaluations += 1
                real = obs_class(rr["cls"])
                if real != observed[key(c)] and real != c["demand"]:
                    judge(o, c, rr, None, fresh, "history " + " ; ".join(key(x) for x in h))
            if r["follow"] is None:
                o.violation({"kind": "G", "history": [key(c) for c in h], "runs": [x["cls"] for x in r["runs"]]},
                            "history did not finish: " + " ; ".join(key(c) for c in h), cls="history")
            else:
                o.evaluations += len(FOLLOW)
                for (text, _), got, exp in zip(FOLLOW, r["follow"], fresh):
                    if got != exp:
                        o.violation({"kind": "G", "history": [{"body": c["body"], "wrap": c["wrap"]} for c in h], "then": text, "got": got, "fresh_context": exp},
                                    f"after the history {[key(c) for c in h]} the context expands {text} to {got!r}; fresh context: {exp!r}", cls="follow-up")
                        break
        if hists:
            o.sample({"history": [key(c) for c in hists[0]], "then": [t for t, _ in FOLLOW[:3]]})
        mark("histories")
        # ---- sessions (spec/LuaSession.tla)
        check_sessions(o, d)
        mark("sessions")
        # ---- V: recorded event traces validated by TLC
        validate_traces(o, traces, d)
        mark("traces")
    o.exhaustive = True
    return o.finish()


# ---------------------------------------------------------------------------
# V: event traces
# ---------------------------------------------------------------------------

def abstract_events(c, run, real):
    evs = []
    for e in run["events"] or []:
        what, i, x = e[0], int(e[1]), e[2] if len(e) > 2 else ""
        if what == "enter":
            evs.append({"e": "enter", "i": i, "x": x})
        elif what == "caught":
            evs.append({"e": "caught", "i": i, "x": "timeout" if "Lua timeout error" in x else "lua"})
        elif what == "nret":
            evs.append({"e": "nret", "i": i, "x": x})
        elif what == "hdl":
            evs.append({"e": "hdl", "i": i, "x": x})
    complete = run["cls"] != "hung" and len(run["events"] or []) < MAXEV
    if complete and real in ("aborted", "error", "returned"):
        evs.append({"e": "done", "i": 0, "x": real})
    return evs, complete


def validate_traces(o, traces, d: Path):
    recs = []
    for c, run, real in traces:
        if run["events"] is None:
            continue  # killed: the events stayed in the child (the outcome class was compared above)
        dev = explain(c, real, run)
        if dev is None:
            continue  # already reported as unexplained
        evs, complete = abstract_events(c, run, real)
        recs.append({"body": c["body"], "wrap": c["wrap"], "dev": sorted(dev), "events": evs, "complete": complete})
    if not recs:
        return
    bad = tlc_traces(o, recs, d)
    o.traces += len(recs)
    o.extra["trace_events"] = sum(len(r["events"]) for r in recs)
    o.extra["traces_rejected"] = len(bad)
    for rec, at in bad:
        o.note_drift({"trace_not_a_behaviour_of_LuaTimeout": key(rec), "dev": rec["dev"], "events": rec["events"][:8], "stuck_at_event": at})
    o.sample({"recorded_trace": key(recs[len(recs) // 3]), "events": recs[len(recs) // 3]["events"][:6]})


def tlc_traces(o, recs, d: Path, tag=""):
    """One TLC run per deviation set; returns [(rec, furthest event index)] of rejected traces."""
    groups = {}
    for r in recs:
        groups.setdefault(tuple(r["dev"]), []).append(r)
    bad = []
    for gi, (dev, rs) in enumerate(sorted(groups.items())):
        tf = d / f"traces{tag}-{gi}.json"
        tf.write_text(json.dumps({"dev": list(dev), "traces": [{"body": r["body"], "wrap": r["wrap"], "events": r["events"]} for r in rs]}))
        r = tlc("Trace_LuaTimeout", "Trace_LuaTimeout.cfg", workers=1, env=dict(HELPERS_ENV, TRACE_FILE=str(tf)), timeout=1500)
        if o is not None:
            o.add_tlc(f"Trace{tag}[{'+'.join(dev) or 'ideal'}]", r)
        far = {}
        for a in r.tagged("AT"):
            far[a["t"]] = max(far.get(a["t"], 0), a["l"])
        if set(far) != set(range(1, len(rs) + 1)):
            raise common.TLCError("trace validation did not visit every trace")
        for i, rec in enumerate(rs, start=1):
            if far[i] != len(rec["events"]) + 1:
                bad.append((rec, far[i]))
    return bad


def replay(path: str) -> int:
    v = json.loads(Path(path).read_text())
    case = v["case"]
    print("why:", v["why"])
    progs = [case["program"]] if "program" in case else case.get("history", [])
    if not progs or not isinstance(progs[0], dict):
        print(json.dumps(case, indent=1)[:2000])
        return 1
    with Scratch("c07r-") as d:
        res = run_histories([progs], d)[0]
        for p, r in zip(progs, res["runs"]):
            print(key(p), "->", r["cls"], r["elapsed"], (r["out"] or "")[:100])
        print("follow-ups:", res["follow"])
    return 1


def selftest() -> int:
    """Binding demo: a corrupted expectation / a corrupted recorded event is rejected."""
    ok = True
    o = Outcome(PID, "quick")
    r = tlc("Gen_LuaTimeout", "Gen_LuaTimeout_Q.cfg", workers=1)
    cases = {key(c): c for c in r.cases}
    c = cases["tight:"]
    with Scratch("c07t-") as d:
        res = run_histories([[c]], d / "a")[0]
        run0 = res["runs"][0]
        real = obs_class(run0["cls"])
        print("tight loop, no wrapper: observed", run0["cls"], "demanded", c["demand"])
        ok &= real == c["demand"]
        # (1) corrupt the expectation: demand 'returned' for the bare loop -> must be reported
        c2 = dict(c, demand="returned", preds=[dict(x, r=["returned"]) for x in c["preds"]])
        o2 = Outcome(PID, "quick")
        judge(o2, c2, run0, None, None, "selftest")
        print("with a corrupted expectation:", len(o2.violations), "violation(s)")
        ok &= len(o2.violations) == 1
        # (2) corrupt a recorded trace: claim the bare loop caught its timeout in a pcall that does not exist
        evs, complete = abstract_events(c, run0, real)
        good = [{"body": c["body"], "wrap": c["wrap"], "dev": [], "events": evs, "complete": complete}]
        bad = [dict(good[0], events=[{"e": "caught", "i": 1, "x": "timeout"}] + evs)]
        b1 = tlc_traces(None, good, d, "-good")
        b2 = tlc_traces(None, bad, d, "-bad")
        print("recorded trace: rejected =", len(b1), "; corrupted trace: rejected =", len(b2))
        ok &= not b1 and len(b2) == 1
        # (3) where the code runs: the endless loop in a NESTED invocation must abort the enclosing module; a trace in
        # which the nested timeout comes back in-band and the module returns is no behaviour of the demanded design
        # (it is one of the deviation NestedTimeoutInBand), and that outcome is reported
        cn = cases["tight:ninv"]
        runn = run_histories([[cn]], d / "n")[0]["runs"][0]
        print("tight loop in a nested invocation: observed", runn["cls"], "demanded", cn["demand"])
        ok &= obs_class(runn["cls"]) == cn["demand"]
        fake = [{"e": "enter", "i": 1, "x": "ninv"}, {"e": "nret", "i": 1, "x": "timeout"}, {"e": "done", "i": 0, "x": "returned"}]
        b3 = tlc_traces(None, [{"body": "tight", "wrap": ["ninv"], "dev": [], "events": fake, "complete": True}], d, "-nest-ideal")
        b4 = tlc_traces(None, [{"body": "tight", "wrap": ["ninv"], "dev": ["NestedTimeoutInBand"], "events": fake, "complete": True}], d, "-nest-dev")
        print("in-band nested timeout: rejected under the demanded design =", len(b3), "; accepted under NestedTimeoutInBand =", not b4)
        ok &= len(b3) == 1 and not b4
        o3 = Outcome(PID, "quick")
        judge(o3, cn, dict(runn, cls="returned", out="done", events=[["enter", "1", "ninv"], ["nret", "1", "timeout"]]), None, None, "selftest")
        print("module returned after an in-band nested timeout:", len(o3.violations), "violation(s)")
        ok &= len(o3.violations) == 1
        # (4) where the endless code sits: in the message handler of an xpcall, entered for the time limit error inside the
        # count hook.  For real the invocation is aborted (the handler is not run); a trace in which Lua enters the handler
        # for the time limit error is no behaviour of the demanded design (it is one of XpcallHandlerRunsInHook); a run that
        # hangs after that event is reported, and the verdict names the handler
        cw = {key(c): c for c in tlc("Gen_LuaTimeout", "Gen_LuaTimeout_QW.cfg", workers=1).cases}
        cx = cw["tight:xht"]
        runx = run_histories([[cx]], d / "x")[0]["runs"][0]
        print("endless message handler under an endless protected function: observed", runx["cls"], "demanded", cx["demand"])
        ok &= obs_class(runx["cls"]) == cx["demand"]
        fake = [{"e": "enter", "i": 1, "x": "xht"}, {"e": "hdl", "i": 1, "x": "timeout"}]
        b5 = tlc_traces(None, [{"body": "tight", "wrap": ["xht"], "dev": [], "events": fake, "complete": False}], d, "-xh-ideal")
        b6 = tlc_traces(None, [{"body": "tight", "wrap": ["xht"], "dev": ["XpcallHandlerRunsInHook"], "events": fake, "complete": False}], d, "-xh-dev")
        print("handler entered for the time limit error: rejected under the demanded design =", len(b5), "; accepted under XpcallHandlerRunsInHook =", not b6)
        ok &= len(b5) == 1 and not b6
        o4 = Outcome(PID, "quick")
        judge(o4, cx, dict(runx, cls="hung", out=None, stacks=None, events=[["enter", "1", "xht"], ["hdl", "1", "timeout"]]), None, None, "selftest")
        named = len(o4.violations) == 1 and "MESSAGE HANDLER" in json.dumps(o4.violations[0]) and "XpcallHandlerRunsInHook" in json.dumps(o4.violations[0])
        print("hung in the handler:", len(o4.violations), "violation(s), handler and deviation named =", named)
        ok &= named
        # (5) a bookkeeping helper called with nil before the loop: aborted for real; a hung run is reported with the helper named
        chh = {key(c): c for c in tlc("Gen_LuaTimeout", "Gen_LuaTimeout_QH.cfg", workers=1).cases}
        ch = chh["tight:hc:_python_append_env:nil"]
        runh = run_histories([[ch]], d / "h")[0]["runs"][0]
        print("_python_append_env(nil) before the loop: observed", runh["cls"], "demanded", ch["demand"])
        ok &= obs_class(runh["cls"]) == ch["demand"]
        o5 = Outcome(PID, "quick")
        judge(o5, ch, dict(runh, cls="hung", out=None, stacks=None), None, None, "selftest")
        named = len(o5.violations) == 1 and "_python_append_env(nil)" in json.dumps(o5.violations[0]) and "EnvStackHelperAcceptsNil" in json.dumps(o5.violations[0])
        print("hung after the helper call:", len(o5.violations), "violation(s), helper and deviation named =", named)
        ok &= named
        # (6) load sessions: an abort inside the load of a required retained-named module, then the module again: as demanded for
        # real; with a corrupted expectation (the benign use demanded to fail) the step is reported
        import types

        rl = tlc("Gen_LuaSessionLoad", "Gen_LuaSessionLoad.cfg", workers=1)
        two = [c for c in rl.cases if len(c["sess"]) == 2 and c["out"] != c["kept"]][:2]
        o6 = Outcome(PID, "quick")
        check_load_sessions(o6, d / "l1", types.SimpleNamespace(cases=two))
        o7 = Outcome(PID, "quick")
        check_load_sessions(o7, d / "l2", types.SimpleNamespace(cases=[dict(two[0], out=[two[0]["out"][0], "error"])] + two[1:]))
        print("load sessions:", len(o6.violations), "violation(s); with a corrupted expectation:", len(o7.violations))
        ok &= len(o6.violations) == 0 and len(o7.violations) == 1
    print("selftest", "ok" if ok else "FAILED")
    return 0 if ok else 1
