"""C15 — nowiki content and comments are inert and recoverable.

M  Nowiki.tla: the documented entity table, Quote/Decode, the required expansion and
   parse leaf for five embedding contexts, and the comment-deletion function; TLC checks
   Decode(Quote(c)) = c and that Quote(c) contains no markup character for every payload.
G  every payload of <= N tokens over a 27-token alphabet x 5 contexts: real expand() must
   return TLC's string, real parse() must yield the single text leaf at the stated path,
   and no template_fn call may originate inside the payload.  Comment documents: real
   expand()/parse() of the written document == of TLC's stripped document.
L  comment LINE LAYOUTS (Gen_Nowiki, Mode "comment"; Nowiki.tla StripRef / StripScan): what stands
   around a comment on its line - blanks / tabs between the line break and the comment, a blank
   before that line break, an empty line, content after the comment on the same line (text, list
   marker, table row / cell, heading, call, rule, nowiki), several comments on a line / on
   consecutive lines, a comment between two characters that form a token when glued - at top
   level and inside a template argument, link text, list item, table cell.  TLC computes the
   reference (each comment and ONLY the line break directly before it deleted, position by
   position) and checks that the code's scanning step gives it; real expand() and parse() of
   the written text must equal those of the reference text.  The same text as a template BODY is
   compared with the body reference (comment only; outside the statement's contexts: DRIFT).
   V: random texts in which expand() has nothing to do but remove comments -> Trace_Nowiki
   (output = StripRef(input)).
V  seeded random longer payloads over a wider alphabet are run on the real code and the
   recorded (context, payload, tokenised output) triples validated by TLC (Trace_Nowiki).
N  NESTED contexts x expansion options (Nowiki.tla, second half): the nowiki sits under up to
   Depth frames (link, external link, expanded / unselected template, parser function, #invoke,
   constructs disabled by <nowiki/>, argument default, text, a sibling call) and expand() is
   called with expand_parserfns / expand_invoke / pre_expand+templates_to_expand varied where a
   frame looks at them.  TLC runs the model's own encode / expand_recurse / expand_args /
   finalize over the frames and prints the required output; G: every context of the bounded
   universe, V: random deeper ones with long payloads, judged by Trace_Nowiki.  A difference is
   a VIOLATION only if it touches what the statement says (a placeholder character left in the
   output, the quoted payload missing, a template call coming from the payload); a different
   rendering of the frames is DRIFT.
I  context-free invariant on every real expand() output of every phase: no character of the
   placeholder range U+10203D..U+10FFF0 (the inputs have none).
"""
from __future__ import annotations

import json
import random
import re
from pathlib import Path

import common
from common import Outcome, Scratch, pmap, tlc

PID = "C15"
ATOM = {"SP": " ", "NL": "\n", "TAB": "\t"}


def text(atoms):
    return "".join(ATOM.get(a, a) for a in atoms)


def make_ctx(d):
    from wikitextprocessor import Wtp

    sub = Path(d) / "s"
    sub.mkdir(parents=True, exist_ok=True)
    ctx = Wtp(db_path=str(sub / "pages.db"), quiet=True, quiet_output=True)
    ctx.add_page("Template:T1", 10, body="({{{1}}})")
    ctx.add_page("Template:TU", 10, body="{{uc:{{{1}}}}}")
    ctx.db_conn.commit()
    return ctx


def dump(node):
    from wikitextprocessor import WikiNode

    if isinstance(node, str):
        return node
    assert isinstance(node, WikiNode)
    return [node.kind.name, node.sarg if hasattr(node, "sarg") else "", [[dump(x) for x in a] for a in (node.largs or [])],
            dict(node.attrs or {}), [dump(c) for c in node.children]]


def leaf_at(root, path):
    """Follow `path` of node kinds from the root; every level must have exactly one child."""
    cur = root
    for kind in path:
        kids = cur.children
        if len(kids) != 1 or isinstance(kids[0], str) or kids[0].kind.name != kind:
            return None, f"expected a single {kind} child, found {[k if isinstance(k, str) else k.kind.name for k in kids]!r}"
        cur = kids[0]
    if path and path[-1] in ("TEMPLATE", "LINK"):
        if len(cur.largs) != 2 or len(cur.largs[1]) != 1 or not isinstance(cur.largs[1][0], str) or cur.children:
            return None, f"expected one text argument, found largs={cur.largs!r}"
        return cur.largs[1][0], None
    kids = cur.children
    if len(kids) != 1 or not isinstance(kids[0], str):
        return None, f"expected a single text child, found {[k if isinstance(k, str) else k.kind.name for k in kids]!r}"
    return kids[0], None


def run_nowiki(chunk):
    common.use_repo()
    res = []
    with Scratch("c15-") as d:
        ctx = make_ctx(d)
        try:
            for idx, c in chunk:
                src = text(c["input"])
                calls = []

                def tfn(name, ht):
                    calls.append(name)
                    return None

                ob = {"idx": idx, "src": src}
                try:
                    ctx.start_page("Pg")
                    ob["out"] = ctx.expand(src, template_fn=tfn)
                    ob["calls"] = list(calls)
                    if c["path"] == ["SKIP"]:
                        ob["leaf"], ob["why"] = None, None
                    else:
                        ctx.start_page("Pg")
                        root = ctx.parse(src)
                        ob["leaf"], ob["why"] = leaf_at(root, c["path"])
                    if c["ctx"] == "top":
                        # sixth context: the same text as the body of a template
                        ctx.add_page("Template:B", 10, body=src)
                        ctx.start_page("Pg")
                        ob["body_out"] = ctx.expand("{{B}}")
                except Exception as e:  # noqa: BLE001
                    ob["exc"] = repr(e)
                res.append(ob)
        finally:
            ctx.db_conn.close()
    return res


CTOK = re.compile(r"(?s)<!--|-->|<nowiki>|</nowiki>|.")


def ctok(s):
    """a text as the atoms of the flat comment formulation of Nowiki.tla (leftmost-first, as a scan sees it)"""
    return [{" ": "SP", "\n": "NL", "\t": "TAB"}.get(t, "CK" if CK.match(t) else t) for t in CTOK.findall(s)]


def atoms_ck(s):
    """a real output character by character"""
    return [{" ": "SP", "\n": "NL", "\t": "TAB"}.get(ch, "CK" if CK.match(ch) else ch) for ch in s]


def run_comment(chunk):
    common.use_repo()
    res = []
    with Scratch("c15c-") as d:
        ctx = make_ctx(d)

        def ex(t):
            ctx.start_page("Pg")
            return ctx.expand(t)

        def pa(t):
            ctx.start_page("Pg")
            return dump(ctx.parse(t))

        def body(t):
            ctx.add_page("Template:B", 10, body=t)
            ctx.start_page("Pg")
            return ctx.expand("{{B}}")

        try:
            for idx, c in chunk:
                w, s = text(c["written"]), text(c["stripped"])
                ob = {"idx": idx, "written": w, "stripped": s}
                try:
                    ob["ew"] = ex(w)
                    ob["es"] = ex(s)
                    ob["pw"] = pa(w)
                    ob["ps"] = pa(s)
                    if c.get("k") == "lay":
                        if ctok(w) != c["written"]:
                            ob["exc"] = "machinery: the written text is not the model's atom sequence"
                        # which of the model's mistaken rules gives what the real code gave (only looked at on a difference)
                        if ob["ew"] != ob["es"]:
                            ob["like_e"] = [(a["rule"], text(a["text"])) for a in c["alts"] if ex(text(a["text"])) == ob["ew"]]
                        if ob["pw"] != ob["ps"]:
                            ob["like_p"] = [(a["rule"], text(a["text"])) for a in c["alts"] if pa(text(a["text"])) == ob["pw"]]
                        if c["emb"] == "top":
                            # the same text as the body of a template against the body reference
                            ob["only"] = text(c["only"])
                            ob["bw"] = body(w)
                            ob["bo"] = body(ob["only"])
                except Exception as e:  # noqa: BLE001
                    ob["exc"] = repr(e)
                res.append(ob)
        finally:
            ctx.db_conn.close()
    return res


# what a comment took with it / left behind, by the rule of Nowiki.tla (StripScan) that explains the real result
LIKE = {"indent": "the text from which the comment is removed TOGETHER WITH the line break before it and the blanks / tabs that stand between that line break and the comment "
                  "(the line break is not directly before the comment and has to stay, as has the indentation)",
        "lines": "the text from which the comment is removed together with MORE than the one line break directly before it",
        "trail": "the text from which the comment is removed together with the blanks / tabs that follow it",
        "only": "the text in which the line break directly before the comment is left"}

ENT = re.compile(r"&#?[a-z0-9]+;")
# the library's private-use range: <nowiki/> marker, bracket markers, stored-construct cookies
CK = re.compile("[\U0010203D-\U0010FFF0]")


def leak(s):
    """first placeholder character in a real output (the inputs of this check have none)"""
    m = CK.search(s) if isinstance(s, str) else None
    return f"U+{ord(m.group(0)):X}" if m else None


def tokenize(s):
    out = []
    i = 0
    lits = ["[[a|", "{|", "|}", "]]"]
    while i < len(s):
        m = ENT.match(s, i)
        if m:
            out.append(m.group(0))
            i = m.end()
            continue
        ch = s[i]
        out.append("SP" if ch == " " else "NL" if ch == "\n" else "CK" if CK.match(ch) else ch)
        i += 1
    return out


def judge_nowiki(o, c, ob):
    o.evaluations += 1
    case = {"context": c["ctx"], "input": ob["src"], "payload": text(c["c"])}
    if "exc" in ob:
        o.violation({**case, "exception": ob["exc"]}, f"exception {ob['exc']}", cls="exception")
        return
    exp = text(c["expanded"])
    for what, got in (("expand", ob["out"]), ("template body", ob.get("body_out"))):
        if leak(got):
            o.violation({**case, "got": got, "expected": exp}, f"{what} of {ob['src']!r} gives {got!r}: the internal placeholder character {leak(got)} is left in the output; nowiki content must come out as {exp!r}", cls="placeholder-" + c["ctx"])
    if ob["out"] != exp:
        o.violation({**case, "got": ob["out"], "expected": exp}, f"expand({ob['src']!r}) returned {ob['out']!r}; nowiki content must come out as {exp!r}", cls="expand-" + c["ctx"])
    if "body_out" in ob and ob["body_out"] != exp and ("<!--" in ob["src"] or "-->" in ob["src"]):
        # comment delimiters inside nowiki inside a template BODY: template bodies are stripped of
        # comments before nowiki is looked at; outside the contexts the property quantifies over
        o.note_drift({"template_body": ob["src"], "got": ob["body_out"], "model": exp})
    elif "body_out" in ob and ob["body_out"] != exp:
        o.violation({**case, "template_body": ob["src"], "got": ob["body_out"], "expected": exp},
                    f"a template whose body is {ob['src']!r} expands to {ob['body_out']!r}; nowiki content must come out as {exp!r}", cls="expand-body")
    want_calls = {"targ": ["T1"], "ucbody": ["TU"]}.get(c["ctx"], [])
    if ob["calls"] != want_calls:
        o.violation({**case, "template_fn_calls": ob["calls"]}, f"template calls {ob['calls']!r} were made while expanding {ob['src']!r}: something inside <nowiki> was expanded", cls="expanded-inside")
    leaf = text(c["leaf"])
    if c["path"] != ["SKIP"] and ob["leaf"] != leaf:
        o.violation({**case, "leaf": ob["leaf"], "expected_leaf": leaf, "detail": ob["why"]},
                    f"parse({ob['src']!r}) does not yield the single text node {leaf!r} at {'/'.join(c['path']) or 'ROOT'}: {ob['why'] or ob['leaf']!r}", cls="parse-" + c["ctx"])
    o.shape((c["ctx"], text(c["c"])))


# ---------------------------------------------------------------- nested contexts x options
DEFAULT_O = {"pfn": True, "inv": True, "sel": "all"}
# written form of the frames for the random driver; Trace_Nowiki checks every written input
# against the model's NInput, so a slip here is reported as machinery failure, not as a verdict
FRAME_TEXT = {"text": ("p", "q"), "link": ("[[a|", "]]"), "ext": ("[https://x.y ", "]"), "T1": ("{{T1|", "}}"), "if": ("{{#if:1|", "}}"),
              "uc": ("{{uc:", "}}"), "inv": ("{{#invoke:m|f|", "}}"), "dt": ("{{<nowiki/>t|", "}}"), "da": ("{{{<nowiki/>p|", "}}}"),
              "dl": ("[<nowiki/>[a|", "]]"), "ad": ("{{{p|", "}}}"), "tsib": ("", "{{T1|s}}")}


def atoms(s):
    return ["SP" if ch == " " else "NL" if ch == "\n" else ch for ch in s]


def expand_kwargs(o):
    kw = {"expand_parserfns": o["pfn"], "expand_invoke": o["inv"]}
    if o["sel"] != "all":
        kw["pre_expand"] = True
        kw["templates_to_expand"] = {"T1"} if o["sel"] == "T1" else None
    return kw


def opts_text(o):
    return ", ".join(f"{k}={v!r}" for k, v in expand_kwargs(o).items() if (k, v) not in (("expand_parserfns", True), ("expand_invoke", True)))


def tree_strings(node, acc):
    if isinstance(node, str):
        acc.append(node)
        return
    if getattr(node, "sarg", None):
        acc.append(node.sarg)
    for a in getattr(node, "largs", None) or []:
        for x in a:
            tree_strings(x, acc)
    for k, v in (getattr(node, "attrs", None) or {}).items():
        acc.append(str(k))
        acc.append(str(v))
    for ch in node.children:
        tree_strings(ch, acc)


def run_nested(chunk):
    """items: (idx, {src, o, q, full}); full = also parse() and the text as a template body"""
    common.use_repo()
    res = []
    with Scratch("c15n-") as d:
        ctx = make_ctx(d)
        try:
            for idx, it in chunk:
                src = it["src"]
                calls = []

                def tfn(name, ht):
                    calls.append([name, ht.get(1)])
                    return None

                ob = {"idx": idx}
                try:
                    ctx.start_page("Pg")
                    ob["out"] = ctx.expand(src, template_fn=tfn, **expand_kwargs(it["o"]))
                    ob["calls"] = list(calls)
                    if it.get("full"):
                        ctx.start_page("Pg")
                        acc = []
                        tree_strings(ctx.parse(src), acc)
                        ob["tleak"] = next((leak(x) for x in acc if leak(x)), None)
                        ob["thas"] = sum(x.count(it["q"]) for x in acc)
                        if "<!--" not in src and "-->" not in src:
                            # (comment delimiters inside nowiki inside a template BODY: see judge_nowiki)
                            ctx.add_page("Template:B", 10, body=src)
                            ctx.start_page("Pg")
                            ob["body_out"] = ctx.expand("{{B}}")
                except Exception as e:  # noqa: BLE001
                    ob["exc"] = repr(e)
                res.append(ob)
        finally:
            ctx.db_conn.close()
    return res


def run_expand(chunk):
    """items: (idx, text) -> expand(text) with default options"""
    common.use_repo()
    res = []
    with Scratch("c15p-") as d:
        ctx = make_ctx(d)
        try:
            for idx, src in chunk:
                ob = {"idx": idx}
                try:
                    ctx.start_page("Pg")
                    ob["out"] = ctx.expand(src)
                except Exception as e:  # noqa: BLE001
                    ob["exc"] = repr(e)
                res.append(ob)
        finally:
            ctx.db_conn.close()
    return res


# tokens of the random comment texts: nothing here is a template / link / nowiki / magic word, so all
# expand() has to do is to remove the comments (checked on the real code before a verdict is given)
PLAIN = ["a", "b", "é", " ", " ", " ", "\n", "\n", "\n", "\t", "\t", "*", "#", ":", ";", "|", "|-", "{|", "|}", "=", "==", "----", "''", "!", "-", "<", ">", "--",
         "<!--", "<!--", "<!--", "-->", "-->", "-->", "<!-- c -->", "\n<!-- c -->", "\n <!--c-->", " <!-- c --> ", "<!--\n-->"]


TRACE_CFG = "SPECIFICATION TSpec\nINVARIANT Verdict\nCHECK_DEADLOCK FALSE\n"


def tlc_judge(o, name, batch):
    """Trace_Nowiki over recorded outputs -> {1-based index: {why, expected}} of the records not 'ok'"""
    if not batch:
        return {}
    with Scratch("c15v-") as d:
        tf = d / "b.json"
        tf.write_text(json.dumps(batch))
        rv = tlc("Trace_Nowiki", "t.cfg", cfg_text=TRACE_CFG, workers=1, env={"TRACE_FILE": str(tf)}, timeout=3000)
    o.add_tlc(name, rv)
    v = rv.tagged("VERDICT")[0]
    if v["consumed"] != len(batch):
        raise common.TLCError("trace validation incomplete")
    bad = {b["i"]: b for b in v["bad"]}
    if any(b["why"] == "input" for b in bad.values()):
        raise common.TLCError("the harness wrote a nested input that is not the model's NInput (FRAME_TEXT out of step with Nowiki.tla)")
    return bad


def report_nested(o, rec, verdict, phase):
    """rec: {fs, o, c(text), src, got, what}; verdict = Trace_Nowiki's {why, expected, q}"""
    why, expected, q = verdict["why"], text(verdict["expected"]), text(verdict["q"])
    ctxname = "/".join(rec["fs"]) + " (outermost first)"
    call = f"expand({rec['src']!r}{', ' + opts_text(rec['o']) if opts_text(rec['o']) else ''})" if rec["what"] == "expand" else f"a template whose body is {rec['src']!r}"
    case = {"context": ctxname, "options": rec["o"], "input": rec["src"], "payload": rec["c"], "got": rec["got"], "expected": expected, "phase": phase}
    if why == "placeholder":
        o.violation(case, f"{call} gives {rec['got']!r}: the internal placeholder character {leak(rec['got'])} is left in the output (a stored construct was written out and never resolved); "
                          f"the nowiki content {rec['c']!r} must come out as {q!r}", cls=f"{phase}-placeholder")
    elif why == "payload":
        o.violation(case, f"{call} gives {rec['got']!r}: the nowiki content {rec['c']!r} must come out as {q!r}, which is not in the output", cls=f"{phase}-payload")
    elif why == "frame":
        o.note_drift({"nested_context": ctxname, "options": rec["o"], "input": rec["src"], "got": rec["got"], "model": expected, "what": rec["what"]})
    else:
        o.violation(case, f"{call} gives {rec['got']!r}; required {expected!r} ({why})", cls=f"{phase}-{why}")


def nested_G(o, thorough):
    r = tlc("Gen_Nowiki", "Gen_Nowiki_nested_T.cfg" if thorough else "Gen_Nowiki_nested_Q.cfg", workers=1, timeout=3000)
    o.add_tlc("Gen_Nowiki[nested]", r)
    flat = []
    for c in r.cases:
        for v in c["vars"]:
            flat.append({"fs": c["fs"], "o": c["o"], "exact": c["exact"], "must": v["must"], "c": text(v["c"]), "q": text(v["q"]),
                         "src": text(v["input"]), "exp": text(v["expanded"]), "full": c["o"] == DEFAULT_O})
    del r
    obs = pmap(run_nested, [(i, {"src": f["src"], "o": f["o"], "q": f["q"], "full": f["full"]}) for i, f in enumerate(flat)])
    suspects = []
    for ob in obs:
        f = flat[ob["idx"]]
        o.evaluations += 1
        o.traces += 1
        o.shape(("nest", "/".join(f["fs"]), json.dumps(f["o"], sort_keys=True), f["c"]))
        case = {"context": "/".join(f["fs"]) + " (outermost first)", "options": f["o"], "input": f["src"], "payload": f["c"]}
        if "exc" in ob:
            o.violation({**case, "exception": ob["exc"]}, f"exception {ob['exc']} from {f['src']!r}", cls="nested-exception")
            continue
        for what, got in (("expand", ob["out"]), ("body", ob.get("body_out"))):
            if got is None:
                continue
            if (f["exact"] and got != f["exp"]) or leak(got) or (f["must"] and f["q"] not in got):
                suspects.append({"fs": f["fs"], "o": f["o"], "c": f["c"], "src": f["src"], "got": got, "what": what})
        # the only call a payload holds is {{T1|x}}; the frames call T1 with the stored nowiki or "s" in the
        # argument (with mis-paired brackets other names may be read as calls: that is about the frames)
        inside = [c for c in ob["calls"] if c[0] == "T1" and c[1] == "x"]
        if inside:
            o.violation({**case, "template_fn_calls": ob["calls"]}, f"template call(s) {inside!r} were made while expanding {f['src']!r}: something inside <nowiki> was expanded", cls="nested-expanded-inside")
        if ob.get("tleak"):
            o.violation({**case, "placeholder": ob["tleak"]}, f"parse({f['src']!r}): the internal placeholder character {ob['tleak']} is left in a string of the parse tree; the nowiki content must be a text node {f['q']!r}", cls="nested-parse-placeholder")
        elif "thas" in ob and ob["thas"] == 0:
            o.violation(case, f"parse({f['src']!r}): no text of the parse tree holds the nowiki content {f['q']!r}", cls="nested-parse-payload")
        elif "thas" in ob and ob["thas"] > 1:
            o.note_drift({"nested_context": case["context"], "input": f["src"], "parse": f"quoted payload found {ob['thas']} times in the tree"})
    # every suspect is judged by TLC (Trace_Nowiki), the harness only pre-filters by equality;
    # on a badly broken tree the shortest 3000 are judged (the others are counted, not reported)
    suspects.sort(key=lambda s: (len(s["src"]), s["src"], s["what"]))
    o.extra["nested_suspects_not_judged"] = max(0, len(suspects) - 3000)
    suspects = suspects[:3000]
    bad = tlc_judge(o, "Trace_Nowiki[nested suspects]", [{"k": "nest", "fs": s["fs"], "o": s["o"], "c": atoms(s["c"]), "out": tokenize(s["got"])} for s in suspects])
    for i, s in enumerate(suspects, 1):
        if i in bad:
            report_nested(o, s, bad[i], "nested")
    mid = flat[len(flat) // 3]
    o.sample({"nested_context": "/".join(mid["fs"]), "options": mid["o"], "input": mid["src"], "expanded": mid["exp"]})
    o.extra["nested"] = {"contexts_x_options": len({("/".join(f["fs"]), json.dumps(f["o"], sort_keys=True)) for f in flat}), "cases": len(flat),
                         "not_predicted_exactly(ambiguous brackets)": sum(1 for f in flat if not f["exact"]),
                         "payload_not_demanded(template-loop error)": sum(1 for f in flat if not f["must"]), "suspects_sent_to_TLC": len(suspects)}


def nested_V_cases(rng, n, maxdepth, payload):
    frames = [f for f in FRAME_TEXT if f != "uc"]
    out = []
    for _ in range(n):
        depth = rng.randint(1, maxdepth)
        fs = [rng.choice(frames) for _ in range(depth)]
        if rng.random() < 0.15:
            fs[-1] = "uc"
        oo = {"pfn": rng.random() < 0.6, "inv": rng.random() < 0.6, "sel": rng.choice(["all", "all", "none", "T1"])}
        if "inv" in fs and oo["pfn"] and oo["inv"]:
            oo[rng.choice(["pfn", "inv"])] = False      # no Lua offline: #invoke is only met unexpanded
        c = payload()
        src = "<nowiki>" + c + "</nowiki>"
        for f in reversed(fs):
            src = FRAME_TEXT[f][0] + src + FRAME_TEXT[f][1]
        out.append({"fs": fs, "o": oo, "c": c, "src": src})
    return out


def run(tier: str) -> int:
    o = Outcome(PID, tier)
    o.rule = ("every payload of <= N tokens over the 27-token alphabet x 5 embedding contexts is one case; every comment document one case; distinct by (context, payload); "
              "comment line layouts: every (lead, indentation, comment group, rest of the line) of the bounded sets x embedding (top level, template argument, link text, list item, table cell) and every glue layout "
              "(token halves x separator) is one case, distinct by (embedding, written text); random comment texts: distinct by text; "
              "nested: every sequence of <= Depth frames (12 kinds; Depth 3, thorough 4) x every setting of the options some frame looks at x 4 payloads (thorough: one of them at depth 4) is one case, "
              "distinct by (frames, options, payload)")
    o.assumptions = ["payloads are built from the wikitext token alphabet (no private-use characters of the placeholder range, as the package documents)",
                     "comment payloads contain neither '-->' nor nowiki tags",
                     "comment line layouts: removing a comment never splits a nowiki tag or forms a new comment delimiter; random comment texts have no '<!-->' / '<!--->' "
                     "(is '-->' a closing delimiter there?) and are judged only where expand() is the identity on the reference text; template bodies are outside the statement's contexts (DRIFT)",
                     "nested contexts: #invoke is only met unexpanded (expand_invoke or expand_parserfns off; no Lua offline); 'uc' only directly around the nowiki; "
                     "where bracket runs are ambiguous wikitext (disabled link inside a link, external link closing into a link) only the statement's observables are checked, not the rendering of the frames"]
    thorough = tier == "thorough"
    # import the library once in the parent: the forked workers of every pmap inherit it
    common.use_repo()
    import wikitextprocessor  # noqa: F401
    r = tlc("Gen_Nowiki", "Gen_Nowiki_nowiki_3.cfg" if thorough else "Gen_Nowiki_nowiki_2.cfg", workers=1, timeout=3000)
    o.add_tlc("Gen_Nowiki[nowiki]", r)
    cases = r.cases
    for ob in pmap(run_nowiki, list(enumerate(cases))):
        judge_nowiki(o, cases[ob["idx"]], ob)
        o.traces += 1
    o.sample({"input": text(cases[len(cases) // 2]["input"]), "expanded": text(cases[len(cases) // 2]["expanded"])})
    r = tlc("Gen_Nowiki", "Gen_Nowiki_comment_2.cfg" if thorough else "Gen_Nowiki_comment_1.cfg", workers=1, timeout=3000)
    o.add_tlc("Gen_Nowiki[comment]", r)
    ccases = r.cases
    nlay = {}
    for ob in pmap(run_comment, list(enumerate(ccases))):
        o.evaluations += 1
        o.traces += 1
        c = ccases[ob["idx"]]
        lay = c.get("k") == "lay"
        case = {"written": ob["written"], "with_comments_deleted": ob["stripped"]}
        if lay:
            case["embedding"] = c["emb"]
            nlay[c["emb"]] = nlay.get(c["emb"], 0) + 1
        ref = " and only the line break directly before it" if lay else ""
        if "exc" in ob and ob["exc"].startswith("machinery"):
            raise common.TLCError(f"{ob['exc']}: {ob['written']!r} / {c['written']!r}")
        if "exc" in ob:
            o.violation({**case, "exception": ob["exc"]}, f"exception {ob['exc']}", cls="exception")
        elif leak(ob["ew"]) or leak(ob["es"]):
            o.violation({**case, "expand_written": ob["ew"], "expand_deleted": ob["es"]}, f"expand({ob['written']!r}) = {ob['ew']!r}: an internal placeholder character is left in the output", cls="comment-placeholder")
        elif ob["ew"] != ob["es"]:
            like, alt = (ob.get("like_e") or [("", "")])[0]
            o.violation({**case, "expand_written": ob["ew"], "expand_deleted": ob["es"], "explained_by_rule": like},
                        f"expand({ob['written']!r}) = {ob['ew']!r} but with each comment{ref} deleted the text is {ob['stripped']!r} and expands to {ob['es']!r}" + (f"; the result is that of {alt!r}, " + LIKE[like] if like else ""),
                        cls="comment-expand" + ("-" + (like or "other") if lay else ""))
        elif ob["pw"] != ob["ps"]:
            like, alt = (ob.get("like_p") or [("", "")])[0]
            o.violation({**case, "parse_written": str(ob["pw"])[:300], "parse_deleted": str(ob["ps"])[:300], "explained_by_rule": like},
                        f"parse({ob['written']!r}) gives another tree than parse of the text with each comment{ref} deleted, {ob['stripped']!r}" + (f"; the tree is that of {alt!r}, " + LIKE[like] if like else ""),
                        cls="comment-parse" + ("-" + (like or "other") if lay else ""))
        if "bw" in ob and ob["bw"] != ob["bo"]:
            # template bodies are not among the contexts the statement quantifies over (and lose the comment only)
            o.note_drift({"template_body": ob["written"], "got": ob["bw"], "body_with_comments_deleted": ob["only"], "model": ob["bo"]})
        o.shape(("comment", c["emb"], ob["written"]) if lay else ("comment", ob["written"]))
    o.extra["comment_line_layouts"] = {"cases_by_embedding": nlay,
                                       "witnesses_of_mistaken_rules(layouts where the rule's text differs from the reference)":
                                           {ru: sum(1 for c in ccases if any(a["rule"] == ru for a in c.get("alts", []))) for ru in ("indent", "lines", "trail", "only")}}
    nested_G(o, thorough)
    o.exhaustive = True
    o.sample({"comment_document": text(ccases[7]["written"]), "stripped": text(ccases[7]["stripped"])})
    # V
    rng = random.Random(common.seed() * 131 + 15)
    alphabet = ["{{T1|x}}", "{{{1}}}", "[[a]]", "{|", "|}", "|-", "*", "#", ":", ";", "<b>", "</b>", "''", "'''", "|", "||", "!!", "=", "==", "__TOC__", "https://x.y/z?q=1",
                "<!--", "-->", "</nowiki", "a", "é", "字", " ", "\n", "----", "\"", "!", "<nowiki>", "<nowiki/>", "<pre>", "</pre>", "<ref>", "{{#if:1|y}}", "[", "]", "{", "}", "~~~~", "\t", "_", "-{", "}-"]
    vcases = []
    for _ in range(6000 if thorough else 800):
        toks = [rng.choice(alphabet) for _ in range(rng.randint(1, 12))]
        c = "".join(toks)
        if re.search(r"(?i)</nowiki\s*>", c):
            continue
        chars = ["SP" if ch == " " else "NL" if ch == "\n" else ch for ch in c]
        vcases.append({"ctx": rng.choice(["top", "targ", "link", "list", "cell"]), "c": chars})
    def inp(ctx, c):
        nw = "<nowiki>" + text(c) + "</nowiki>"
        return {"top": "p" + nw + "q", "targ": "{{T1|" + nw + "}}", "link": "[[a|" + nw + "]]", "list": "* " + nw + "\n", "cell": "{|\n| " + nw + "\n|}"}[ctx]
    items = [(i, {"input": [inp(c["ctx"], c["c"])], "path": [], "ctx": c["ctx"]}) for i, c in enumerate(vcases)]
    obs = pmap(run_nowiki, items)
    batch = []
    for ob in obs:
        c = vcases[ob["idx"]]
        out = ob.get("out", "EXC")
        toks = tokenize(out)
        # re-group the context's multi-character atoms
        pre = {"top": ["p"], "targ": ["("], "link": ["[[a|"], "list": ["*", "SP"], "cell": ["{|", "NL", "|", "SP"]}[c["ctx"]]
        post = {"top": ["q"], "targ": [")"], "link": ["]]"], "list": ["NL"], "cell": ["NL", "|}"]}[c["ctx"]]
        npre = len(tokenize(text(pre)))
        npost = len(tokenize(text(post)))
        if toks[:npre] == tokenize(text(pre)) and toks[len(toks) - npost:] == tokenize(text(post)):
            toks = pre + toks[npre: len(toks) - npost] + post
        batch.append({"k": "ctx", "ctx": c["ctx"], "c": c["c"], "out": toks})
    # V, nested: random deeper contexts, random options, the same long payloads
    def payload():
        while True:
            c = "".join(rng.choice(alphabet) for _ in range(rng.randint(1, 12)))
            if not re.search(r"(?i)</nowiki\s*>", c):
                return c
    ncases = nested_V_cases(rng, 2500 if thorough else 350, 5 if thorough else 4, payload)
    nobs = pmap(run_nested, [(i, {"src": c["src"], "o": c["o"], "q": "", "full": False}) for i, c in enumerate(ncases)])
    for ob in nobs:
        c = ncases[ob["idx"]]
        batch.append({"k": "nest", "fs": c["fs"], "o": c["o"], "c": atoms(c["c"]), "inp": atoms(c["src"]), "out": tokenize(ob.get("out", "EXC"))})
    # V, comments: random texts of plain characters, blanks, line breaks, tabs and comment delimiters
    ptexts = []
    while len(ptexts) < (5000 if thorough else 500):
        t = "".join(rng.choice(PLAIN) for _ in range(rng.randint(2, 14)))
        if not re.search(r"<!---?>", t):        # "<!-->": is "-->" a closing delimiter there?  not decided by the statement, left out
            ptexts.append(t)
    pobs = pmap(run_expand, list(enumerate(ptexts)))
    for ob in pobs:
        batch.append({"k": "cm", "inp": ctok(ptexts[ob["idx"]]), "out": atoms_ck(ob.get("out", "EXC"))})
        o.shape(("cmV", ptexts[ob["idx"]]))
    bad = tlc_judge(o, "Trace_Nowiki", batch)
    cmbad = {i: b for i, b in bad.items() if i > len(obs) + len(nobs)}
    bad = {i: b for i, b in bad.items() if i not in cmbad}
    if cmbad:
        # is expand() the identity on the reference text, as the random driver assumes?  only then the statement is contradicted
        todo = [(i, text(b["expected"])) for i, b in sorted(cmbad.items())]
        ident = {i: r for (i, _), r in zip(todo, sorted(run_expand(todo), key=lambda r: r["idx"]))}
        for i, b in sorted(cmbad.items()):
            ob = pobs[i - len(obs) - len(nobs) - 1]
            src, exp = ptexts[ob["idx"]], text(b["expected"])
            if "exc" in ob:
                o.violation({"input": src, "exception": ob["exc"]}, f"exception {ob['exc']} from {src!r}", cls="V-comment-exception")
            elif b["why"] == "placeholder":
                o.violation({"input": src, "got": ob["out"]}, f"expand({src!r}) = {ob['out']!r}: the internal placeholder character {leak(ob['out'])} is left in the output", cls="V-comment-placeholder")
            elif ident[i].get("out") == exp:
                o.violation({"input": src, "got": ob["out"], "with_comments_deleted": exp, "explained_by_rule": b["like"]},
                            f"expand({src!r}) = {ob['out']!r} but with each comment and only the line break directly before it deleted the text is {exp!r} (which expand() leaves as it is)" + ("; the result is " + LIKE[b["like"]] if b["like"] else ""),
                            cls="V-comment-" + (b["like"] or "other"))
            else:
                o.note_drift({"plain_text": src, "got": ob["out"], "model": exp, "note": "expand() is not the identity on the reference text"})
    o.traces += len(batch)
    o.evaluations += len(batch)
    for i, b in sorted(bad.items()):
        if i > len(obs):
            ob = nobs[i - len(obs) - 1]
            c = ncases[ob["idx"]]
            report_nested(o, {**c, "got": ob.get("out", ob.get("exc")), "what": "expand"}, b, "V-nested")
            continue
        ob = obs[i - 1]
        c = vcases[ob["idx"]]
        o.violation({"context": c["ctx"], "input": ob["src"], "got": ob.get("out"), "expected": text(b["expected"]), "exception": ob.get("exc")},
                    f"expand({ob['src']!r}) returned {ob.get('out')!r}; nowiki content must come out as {text(b['expected'])!r}"
                    + (f" (internal placeholder character {leak(ob.get('out'))} left in the output)" if b["why"] == "placeholder" else ""), cls="V-" + c["ctx"])
    for ob in nobs:
        c = ncases[ob["idx"]]
        o.shape(("nestV", "/".join(c["fs"]), json.dumps(c["o"], sort_keys=True)))
        if "exc" in ob:
            o.violation({"input": c["src"], "options": c["o"], "exception": ob["exc"]}, f"exception {ob['exc']} from {c['src']!r}", cls="V-nested-exception")
        elif [x for x in ob["calls"] if x[0] == "T1" and x[1] == "x"]:
            o.violation({"input": c["src"], "options": c["o"], "template_fn_calls": ob["calls"]}, "something inside <nowiki> was expanded", cls="V-nested-expanded-inside")
    for ob in obs:
        if ob.get("calls") not in ([], ["T1"]):
            o.violation({"input": ob["src"], "template_fn_calls": ob.get("calls")}, "something inside <nowiki> was expanded", cls="V-expanded-inside")
    return o.finish()


def replay(path: str) -> int:
    v = json.loads(Path(path).read_text())
    print(json.dumps(v, indent=1)[:2000])
    return 1


def selftest() -> int:
    """corrupted recorded outputs must be rejected, each with the right verdict"""
    fs = ["dt", "link"]                       # {{<nowiki/>t|[[a|<nowiki>c*</nowiki>]]}}
    pre = tokenize("&lbrace;&lbrace;<nowiki />t&vert;[[a|")
    post = tokenize("]]&rbrace;&rbrace;")
    nest = {"k": "nest", "fs": fs, "o": DEFAULT_O, "c": ["c", "*"]}
    batch = [{"k": "ctx", "ctx": "top", "c": ["[", "a"], "out": ["p", "&lsqb;", "a", "q"]},                       # 1 ok
             {"k": "ctx", "ctx": "top", "c": ["[", "a"], "out": ["p", "[", "a", "q"]},                            # 2 mismatch
             {**nest, "out": pre + ["c", "&ast;"] + post, "inp": atoms("{{<nowiki/>t|[[a|<nowiki>c*</nowiki>]]}}")},  # 3 ok
             {**nest, "out": pre + ["CK"] + post},                                                               # 4 placeholder
             {**nest, "out": pre + ["c", "*"] + post},                                                           # 5 payload not quoted
             {**nest, "out": tokenize("{{<nowiki />t|[[a|") + ["c", "&ast;"] + tokenize("]]}}")},               # 6 frame drift only
             {"k": "nest", "fs": ["T1", "da", "T1"], "o": DEFAULT_O, "c": ["c"], "out": ["(", "x", ")"]},          # 7 loop error: payload not demanded
             # recorded outputs of comment texts: what the comment took with it
             {"k": "cm", "inp": ctok("a\n <!--c-->b"), "out": atoms_ck("a\n b")},                                 # 8 ok
             {"k": "cm", "inp": ctok("a\n <!--c-->b"), "out": atoms_ck("ab")},                                    # 9 line break + indentation
             {"k": "cm", "inp": ctok("a\n<!--c--> b<!--d"), "out": atoms_ck("a b<!--d")},                          # 10 ok (unclosed comment stays)
             {"k": "cm", "inp": ctok("a\n<!--c--> b"), "out": atoms_ck("ab")},                                    # 11 blanks after it
             {"k": "cm", "inp": ctok("a\n\n<!--c-->b"), "out": atoms_ck("ab")},                                   # 12 two line breaks
             {"k": "cm", "inp": ctok("a\n<!--c-->b"), "out": atoms_ck("a\nb")},                                   # 13 line break left
             {"k": "cm", "inp": ctok("a<!--c-->b"), "out": atoms_ck("a b")}]                                      # 14 something else
    o = Outcome(PID, "selftest")
    bad = tlc_judge(o, "Trace_Nowiki[selftest]", batch)
    got = {i: b["why"] for i, b in bad.items() if i <= 7}
    print("verdicts:", got)
    gotc = {i: (b["why"], b["like"]) for i, b in bad.items() if i > 7}
    print("comment verdicts:", gotc)
    comments_ok = gotc == {9: ("comment", "indent"), 11: ("comment", "trail"), 12: ("comment", "lines"), 13: ("comment", "only"), 14: ("comment", "")}
    try:
        tlc_judge(o, "Trace_Nowiki[selftest]", [{**nest, "out": pre + ["c", "&ast;"] + post, "inp": atoms("{{<nowiki/>t|[[b|<nowiki>c*</nowiki>]]}}")}])
        wrong_input_rejected = False
    except common.TLCError:
        wrong_input_rejected = True
    print("wrong written input rejected:", wrong_input_rejected)
    # the model itself: with a mistaken finalize loop TLC finds a nested context that leaves a placeholder
    demos = {}
    for rule in ("flagTA", "two", "cindent", "clines", "ctrail"):   # c*: a mistaken rule of what a comment takes with it -> a line layout
        rd = tlc("Gen_Nowiki", f"Demo_Nowiki_{rule}.cfg", workers=1, check=False, timeout=600)
        demos[rule] = "GenInv" in rd.invariant_violated
    print("Demo configurations violated:", demos)
    if not all(demos.values()) or not comments_ok:
        return 1
    return 0 if got == {2: "mismatch", 4: "placeholder", 5: "payload", 6: "frame", 7: "frame"} and wrong_input_rejected else 1
