"""C15 — nowiki content and comments are inert and recoverable.

M  Nowiki.tla: the documented entity table, Quote/Decode, the required expansion and
   parse leaf for five embedding contexts, and the comment-deletion function; TLC checks
   Decode(Quote(c)) = c and that Quote(c) contains no markup character for every payload.
G  every payload of <= N tokens over a 27-token alphabet x 5 contexts: real expand() must
   return TLC's string, real parse() must yield the single text leaf at the stated path,
   and no template_fn call may originate inside the payload.  Comment documents: real
   expand()/parse() of the written document == of TLC's stripped document.
V  seeded random longer payloads over a wider alphabet are run on the real code and the
   recorded (context, payload, tokenised output) triples validated by TLC (Trace_Nowiki).
"""
from __future__ import annotations

import json
import random
import re
from pathlib import Path

import common
from common import Outcome, Scratch, pmap, tlc

PID = "C15"
ATOM = {"SP": " ", "NL": "\n"}


def text(atoms):
    return "".join(ATOM.get(a, a) for a in atoms)


def make_ctx(d):
    from wikitextprocessor import Wtp

    sub = Path(d) / "s"
    sub.mkdir(parents=True, exist_ok=True)
    ctx = Wtp(db_path=str(sub / "pages.db"), quiet=True, quiet_output=True)
    ctx.add_page("Template:T1", 10, body="({{{1}}})")
    ctx.add_page("Template:TU", 10, body="{{uc:{{{1}}}}}")
    ctx.db_conn.commit()
    return ctx


def dump(node):
    from wikitextprocessor import WikiNode

    if isinstance(node, str):
        return node
    assert isinstance(node, WikiNode)
    return [node.kind.name, node.sarg if hasattr(node, "sarg") else "", [[dump(x) for x in a] for a in (node.largs or [])],
            dict(node.attrs or {}), [dump(c) for c in node.children]]


def leaf_at(root, path):
    """Follow `path` of node kinds from the root; every level must have exactly one child."""
    cur = root
    for kind in path:
        kids = cur.children
        if len(kids) != 1 or isinstance(kids[0], str) or kids[0].kind.name != kind:
            return None, f"expected a single {kind} child, found {[k if isinstance(k, str) else k.kind.name for k in kids]!r}"
        cur = kids[0]
    if path and path[-1] in ("TEMPLATE", "LINK"):
        if len(cur.largs) != 2 or len(cur.largs[1]) != 1 or not isinstance(cur.largs[1][0], str) or cur.children:
            return None, f"expected one text argument, found largs={cur.largs!r}"
        return cur.largs[1][0], None
    kids = cur.children
    if len(kids) != 1 or not isinstance(kids[0], str):
        return None, f"expected a single text child, found {[k if isinstance(k, str) else k.kind.name for k in kids]!r}"
    return kids[0], None


def run_nowiki(chunk):
    common.use_repo()
    res = []
    with Scratch("c15-") as d:
        ctx = make_ctx(d)
        try:
            for idx, c in chunk:
                src = text(c["input"])
                calls = []

                def tfn(name, ht):
                    calls.append(name)
                    return None

                ob = {"idx": idx, "src": src}
                try:
                    ctx.start_page("Pg")
                    ob["out"] = ctx.expand(src, template_fn=tfn)
                    ob["calls"] = list(calls)
                    if c["path"] == ["SKIP"]:
                        ob["leaf"], ob["why"] = None, None
                    else:
                        ctx.start_page("Pg")
                        root = ctx.parse(src)
                        ob["leaf"], ob["why"] = leaf_at(root, c["path"])
                    if c["ctx"] == "top":
                        # sixth context: the same text as the body of a template
                        ctx.add_page("Template:B", 10, body=src)
                        ctx.start_page("Pg")
                        ob["body_out"] = ctx.expand("{{B}}")
                except Exception as e:  # noqa: BLE001
                    ob["exc"] = repr(e)
                res.append(ob)
        finally:
            ctx.db_conn.close()
    return res


def run_comment(chunk):
    common.use_repo()
    res = []
    with Scratch("c15c-") as d:
        ctx = make_ctx(d)
        try:
            for idx, c in chunk:
                w, s = text(c["written"]), text(c["stripped"])
                ob = {"idx": idx, "written": w, "stripped": s}
                try:
                    ctx.start_page("Pg")
                    ob["ew"] = ctx.expand(w)
                    ctx.start_page("Pg")
                    ob["es"] = ctx.expand(s)
                    ctx.start_page("Pg")
                    ob["pw"] = dump(ctx.parse(w))
                    ctx.start_page("Pg")
                    ob["ps"] = dump(ctx.parse(s))
                except Exception as e:  # noqa: BLE001
                    ob["exc"] = repr(e)
                res.append(ob)
        finally:
            ctx.db_conn.close()
    return res


ENT = re.compile(r"&#?[a-z0-9]+;")


def tokenize(s):
    out = []
    i = 0
    lits = ["[[a|", "{|", "|}", "]]"]
    while i < len(s):
        m = ENT.match(s, i)
        if m:
            out.append(m.group(0))
            i = m.end()
            continue
        ch = s[i]
        out.append("SP" if ch == " " else "NL" if ch == "\n" else ch)
        i += 1
    return out


def judge_nowiki(o, c, ob):
    o.evaluations += 1
    case = {"context": c["ctx"], "input": ob["src"], "payload": text(c["c"])}
    if "exc" in ob:
        o.violation({**case, "exception": ob["exc"]}, f"exception {ob['exc']}", cls="exception")
        return
    exp = text(c["expanded"])
    if ob["out"] != exp:
        o.violation({**case, "got": ob["out"], "expected": exp}, f"expand({ob['src']!r}) returned {ob['out']!r}; nowiki content must come out as {exp!r}", cls="expand-" + c["ctx"])
    if "body_out" in ob and ob["body_out"] != exp and ("<!--" in ob["src"] or "-->" in ob["src"]):
        # comment delimiters inside nowiki inside a template BODY: template bodies are stripped of
        # comments before nowiki is looked at; outside the contexts the property quantifies over
        o.note_drift({"template_body": ob["src"], "got": ob["body_out"], "model": exp})
    elif "body_out" in ob and ob["body_out"] != exp:
        o.violation({**case, "template_body": ob["src"], "got": ob["body_out"], "expected": exp},
                    f"a template whose body is {ob['src']!r} expands to {ob['body_out']!r}; nowiki content must come out as {exp!r}", cls="expand-body")
    want_calls = {"targ": ["T1"], "ucbody": ["TU"]}.get(c["ctx"], [])
    if ob["calls"] != want_calls:
        o.violation({**case, "template_fn_calls": ob["calls"]}, f"template calls {ob['calls']!r} were made while expanding {ob['src']!r}: something inside <nowiki> was expanded", cls="expanded-inside")
    leaf = text(c["leaf"])
    if c["path"] != ["SKIP"] and ob["leaf"] != leaf:
        o.violation({**case, "leaf": ob["leaf"], "expected_leaf": leaf, "detail": ob["why"]},
                    f"parse({ob['src']!r}) does not yield the single text node {leaf!r} at {'/'.join(c['path']) or 'ROOT'}: {ob['why'] or ob['leaf']!r}", cls="parse-" + c["ctx"])
    o.shape((c["ctx"], text(c["c"])))


def run(tier: str) -> int:
    o = Outcome(PID, tier)
    o.rule = "every payload of <= N tokens over the 27-token alphabet x 5 embedding contexts is one case; every comment document one case; distinct by (context, payload)"
    o.assumptions = ["payloads are built from the wikitext token alphabet (no private-use characters of the placeholder range, as the package documents)",
                     "comment payloads contain neither '-->' nor nowiki tags"]
    thorough = tier == "thorough"
    r = tlc("Gen_Nowiki", "Gen_Nowiki_nowiki_3.cfg" if thorough else "Gen_Nowiki_nowiki_2.cfg", workers=1, timeout=3000)
    o.add_tlc("Gen_Nowiki[nowiki]", r)
    cases = r.cases
    for ob in pmap(run_nowiki, list(enumerate(cases))):
        judge_nowiki(o, cases[ob["idx"]], ob)
        o.traces += 1
    o.sample({"input": text(cases[len(cases) // 2]["input"]), "expanded": text(cases[len(cases) // 2]["expanded"])})
    r = tlc("Gen_Nowiki", "Gen_Nowiki_comment_1.cfg", workers=1, timeout=3000)
    o.add_tlc("Gen_Nowiki[comment]", r)
    ccases = r.cases
    for ob in pmap(run_comment, list(enumerate(ccases))):
        o.evaluations += 1
        o.traces += 1
        case = {"written": ob["written"], "with_comments_deleted": ob["stripped"]}
        if "exc" in ob:
            o.violation({**case, "exception": ob["exc"]}, f"exception {ob['exc']}", cls="exception")
        elif ob["ew"] != ob["es"]:
            o.violation({**case, "expand_written": ob["ew"], "expand_deleted": ob["es"]}, f"expand({ob['written']!r}) = {ob['ew']!r} but with the comment deleted it is {ob['es']!r}", cls="comment-expand")
        elif ob["pw"] != ob["ps"]:
            o.violation({**case, "parse_written": str(ob["pw"])[:300], "parse_deleted": str(ob["ps"])[:300]}, f"parse trees of {ob['written']!r} with and without its comments differ", cls="comment-parse")
        o.shape(("comment", ob["written"]))
    o.exhaustive = True
    o.sample({"comment_document": text(ccases[7]["written"]), "stripped": text(ccases[7]["stripped"])})
    # V
    rng = random.Random(common.seed() * 131 + 15)
    alphabet = ["{{T1|x}}", "{{{1}}}", "[[a]]", "{|", "|}", "|-", "*", "#", ":", ";", "<b>", "</b>", "''", "'''", "|", "||", "!!", "=", "==", "__TOC__", "https://x.y/z?q=1",
                "<!--", "-->", "</nowiki", "a", "é", "字", " ", "\n", "----", "\"", "!", "<nowiki>", "<nowiki/>", "<pre>", "</pre>", "<ref>", "{{#if:1|y}}", "[", "]", "{", "}", "~~~~", "\t", "_", "-{", "}-"]
    vcases = []
    for _ in range(6000 if thorough else 800):
        toks = [rng.choice(alphabet) for _ in range(rng.randint(1, 12))]
        c = "".join(toks)
        if re.search(r"(?i)</nowiki\s*>", c):
            continue
        chars = ["SP" if ch == " " else "NL" if ch == "\n" else ch for ch in c]
        vcases.append({"ctx": rng.choice(["top", "targ", "link", "list", "cell"]), "c": chars})
    def inp(ctx, c):
        nw = "<nowiki>" + text(c) + "</nowiki>"
        return {"top": "p" + nw + "q", "targ": "{{T1|" + nw + "}}", "link": "[[a|" + nw + "]]", "list": "* " + nw + "\n", "cell": "{|\n| " + nw + "\n|}"}[ctx]
    items = [(i, {"input": [inp(c["ctx"], c["c"])], "path": [], "ctx": c["ctx"]}) for i, c in enumerate(vcases)]
    obs = pmap(run_nowiki, items)
    batch = []
    for ob in obs:
        c = vcases[ob["idx"]]
        out = ob.get("out", "EXC")
        toks = tokenize(out)
        # re-group the context's multi-character atoms
        pre = {"top": ["p"], "targ": ["("], "link": ["[[a|"], "list": ["*", "SP"], "cell": ["{|", "NL", "|", "SP"]}[c["ctx"]]
        post = {"top": ["q"], "targ": [")"], "link": ["]]"], "list": ["NL"], "cell": ["NL", "|}"]}[c["ctx"]]
        npre = len(tokenize(text(pre)))
        npost = len(tokenize(text(post)))
        if toks[:npre] == tokenize(text(pre)) and toks[len(toks) - npost:] == tokenize(text(post)):
            toks = pre + toks[npre: len(toks) - npost] + post
        batch.append({"ctx": c["ctx"], "c": c["c"], "out": toks})
    with Scratch("c15v-") as d:
        tf = d / "b.json"
        tf.write_text(json.dumps(batch))
        rv = tlc("Trace_Nowiki", "t.cfg", cfg_text="SPECIFICATION TSpec\nINVARIANT Verdict\nCHECK_DEADLOCK FALSE\n", workers=1, env={"TRACE_FILE": str(tf)}, timeout=3000)
    o.add_tlc("Trace_Nowiki", rv)
    v = rv.tagged("VERDICT")[0]
    if v["consumed"] != len(batch):
        raise common.TLCError("trace validation incomplete")
    o.traces += len(batch)
    o.evaluations += len(batch)
    for b in v["bad"]:
        ob = obs[b["i"] - 1]
        c = vcases[ob["idx"]]
        o.violation({"context": c["ctx"], "input": ob["src"], "got": ob.get("out"), "expected": text(b["expected"]), "exception": ob.get("exc")},
                    f"expand({ob['src']!r}) returned {ob.get('out')!r}; nowiki content must come out as {text(b['expected'])!r}", cls="V-" + c["ctx"])
    for ob in obs:
        if ob.get("calls") not in ([], ["T1"]):
            o.violation({"input": ob["src"], "template_fn_calls": ob.get("calls")}, "something inside <nowiki> was expanded", cls="V-expanded-inside")
    return o.finish()


def replay(path: str) -> int:
    v = json.loads(Path(path).read_text())
    print(json.dumps(v, indent=1)[:2000])
    return 1


def selftest() -> int:
    batch = [{"ctx": "top", "c": ["[", "a"], "out": ["p", "&lsqb;", "a", "q"]}, {"ctx": "top", "c": ["[", "a"], "out": ["p", "[", "a", "q"]}]
    with Scratch("c15s-") as d:
        tf = d / "b.json"
        tf.write_text(json.dumps(batch))
        rv = tlc("Trace_Nowiki", "t.cfg", cfg_text="SPECIFICATION TSpec\nINVARIANT Verdict\nCHECK_DEADLOCK FALSE\n", workers=1, env={"TRACE_FILE": str(tf)})
    bad = rv.tagged("VERDICT")[0]["bad"]
    print("bad entries:", [b["i"] for b in bad])
    return 0 if [b["i"] for b in bad] == [2] else 1
