"""C16 (session engine) — the per-page session state machine of a Wtp context.

An additional engine of property C16 next to harness/c16.py (which checks the expander twin
case by case).  This one is about *sequences of public calls on one context*:
start_page / start_section / start_subsection / error..wiki_notice / expand / parse /
to_return / create_strip_marker, specified in spec/Session.tla.

M  TLC: MC_Session_msgs (stamps of every message == title/section/subsection current at
        emission [history variable], lists only grow and are empty right after start_page,
        start_section clears the subsection, path restored by every expand/parse),
        MC_Session_tables (cookie table injective / append-only / reset, strip-marker
        numbering), Demo_Session_*.cfg (named deviation switches on which TLC itself finds
        the counterexample: vacuity guard).
G  TLC Gen_Session: every action sequence StartPage.a^k over the bounded alphabet (plus
        the sequences starting on a context without start_page) and `-simulate` walks, each
        with the specification's state after every action; each behaviour is replayed on
        ONE real Wtp context through the public API and the projected real state is
        compared with the specification's state after every action (the replay goes on after
        a mismatch that is only DRIFT, so that what the statement constrains is still judged
        in the rest of the behaviour).
        Re-announcement family (Gen_Session_R): start_page . w . producers for every word w
        over the positioning calls (each of them also with the argument that is current
        already, with state to clear before it) followed by one message-producing call of
        every kind; the stamps come from the documented position `pos` of the model.
V  seeded random long sessions (50-300 calls, wider universes, messages recorded inside
        nested templates) are recorded from the real code as event lists and validated by
        spec/Trace_Session.tla inside TLC (total verdict, failing clauses by name).

Verdict: VIOLATION only for the clauses the C16 statement constrains
  path_restored  expand()/parse() returned and expand_stack differs from before the call
  lists_emptied  a message list is not empty right after start_page
  msg_keys       a recorded message lacks the documented keys (ErrorMessageData: msg, trace,
                 title, section, subsection, called_from, path: tuple)
  msg_title / msg_section / msg_subsection   a message is not stamped with the current page
                 title / section / subsection (the documented keys `section` and `subsection`
                 together say in which section of the page the message was recorded; the
                 documentation defines the current subsection: reset to None by start_page and
                 by every start_section, set by start_subsection)
everything else the model predicts (message text / path value / sortid, attribute values,
cookie table, strip markers, to_return) is DRIFT.
"""
from __future__ import annotations

import concurrent.futures as cf
import copy
import json
import os
import random
import re
import shutil
import tempfile
import time
from pathlib import Path

import common
from common import Outcome, Scratch, pmap, tlc

PID = "C16"
NONE = "<None>"
KINDS = ["error", "warning", "debug", "note", "wiki_notice"]
LISTNAME = {"error": "errors", "warning": "warnings", "debug": "debugs", "note": "notes", "wiki_notice": "wiki_notices"}
DOCKEYS = sorted(["msg", "trace", "title", "section", "subsection", "called_from", "path"])
DEFAULT_SORTID = "XYZunsorted"

# clauses of the comparison that the C16 statement itself constrains
VIOL = ("path_restored", "lists_emptied", "msg_keys", "msg_title", "msg_section", "msg_subsection")
WHY = {
    "path_restored": "expand()/parse() returned but the expansion path differs from the path before the call",
    "lists_emptied": "a message list is not empty right after start_page",
    "msg_keys": "a recorded message lacks the documented keys (msg, trace, title, section, subsection, called_from, path as a tuple)",
    "msg_title": "a recorded message is not stamped with the current page title",
    "msg_section": "a recorded message is not stamped with the current section",
    "msg_subsection": "a recorded message carries a subsection that is not the current one (documented: start_page and every "
                      "start_section reset the subsection to None, start_subsection sets it)",
}

# ---------------------------------------------------------------------------
# concretisation: atoms of the specification <-> the real library
# ---------------------------------------------------------------------------
TEMPLATES = {"loop": "{{loop}}", "t1": "[{{{1}}}]", "t2": "{{t1|{{{1}}}}}", "ping": "{{pong}}", "pong": "{{ping}}"}

SEG_TEXT = {
    "plain": "hello", "loop": "{{loop}}", "badfn": "{{#nosuchfn:x}}", "argbadfn": "{{t1|{{#nosuchfn:x}}}}",
    "argloop": "{{t2|{{loop}}}}", "pingpong": "{{ping}}", "t1a": "{{t1|a}}", "t2z": "{{t2|z}}",
    "ifloop": "{{#if:x|{{loop}}}}", "nosuch": "{{nosuch}}", "arg1": "{{{1}}}", "toomany": "{{{1|a|b}}}",
    "p_plain": "plain", "p_pre": "a</pre>b", "p_b": "<b>x", "p_heading": "== Foo =", "p_section": "x</section>y",
    "p_t1a": "{{t1|a}}", "p_looppre": "{{loop}}</pre>",
}
SEG_KW = {"p_looppre": {"expand_all": True}}
EXPAND_SEGS = [s for s in SEG_TEXT if not s.startswith("p_")]
PARSE_SEGS = [s for s in SEG_TEXT if s.startswith("p_")]

# message atoms of the scripts <-> the text the library records
MSG_TEXT = {
    "loop": "Template loop detected: loop", "loop:ping": "Template loop detected: ping",
    "nosuchfn": "unrecognized parser function '#nosuchfn'", "pre": "unexpected </pre>",
    "toomany": "too many args (3) in argument reference: ('1', 'a', 'b')",
    "b_unclosed": "HTML tag <b> not properly closed", "section": "unexpected </section>",
    "heading": "Heading `==`, `Foo`, `=` has an end token shorter than start token: shorten start and prepend ='s to title",
}
MSG_ATOM = {v: k for k, v in MSG_TEXT.items()}
TRACE_RE = re.compile(r"started on line \d+, detected on line \d+")
MARKER_RE = re.compile("\x7f'\"`UNIQ--([^-]*)-([0-9a-fA-F]+)-QINU`\"'\x7f")


def nz(x):
    """Python value -> string atom."""
    if x is None:
        return NONE
    return x if isinstance(x, str) else "<" + type(x).__name__ + ":" + repr(x) + ">"


def de(a):
    return None if a == NONE else a


def text_of(seg, nw):
    pre = "".join("<nowiki>%s</nowiki> " % c for c in nw)
    return pre + ("\n" if nw else "") + SEG_TEXT[seg]


def new_ctx(d: Path, name: str):
    from wikitextprocessor import Wtp

    sub = Path(d) / name
    sub.mkdir(parents=True, exist_ok=True)
    ctx = Wtp(db_path=str(sub / "pages.db"), quiet=True, quiet_output=True)
    for n, b in TEMPLATES.items():
        ctx.add_page("Template:" + n, 10, body=b)
    ctx.db_conn.commit()
    return ctx


def close_ctx(ctx):
    try:
        ctx.db_conn.close()
    except Exception:
        pass


# ---- projection of the real state ----------------------------------------

def cookie_key(ctx, c, depth=0):
    from wikitextprocessor.core import MAGIC_FIRST

    try:
        kind, args, nowiki = c
    except Exception:
        return "?" + repr(c)

    def dec(s):
        out = []
        for ch in str(s):
            i = ord(ch) - MAGIC_FIRST
            if 0 <= i < len(ctx.cookies) and depth < 20:
                out.append("<" + cookie_key(ctx, ctx.cookies[i], depth + 1) + ">")
            else:
                out.append(ch)
        return "".join(out)

    return str(kind) + ":" + "|".join(dec(a) for a in args) + ("!" if nowiki else "")


def proj_msg(m):
    if not isinstance(m, dict):
        return {"msg": nz(m), "trace": "", "title": "<missing>", "section": "<missing>", "subsection": "<missing>",
                "called_from": "<missing>", "path": [], "keys": [], "tuple": False}
    msg = m.get("msg", "<missing>")
    trace = m.get("trace", "<missing>")
    p = m.get("path", None)
    return {
        "msg": MSG_ATOM.get(msg, nz(msg)),
        "trace": "lineN-N" if isinstance(trace, str) and TRACE_RE.fullmatch(trace) else nz(trace),
        "title": nz(m.get("title", "<missing>")),
        "section": nz(m.get("section", "<missing>")),
        "subsection": nz(m.get("subsection", "<missing>")),
        "called_from": nz(m.get("called_from", "<missing>")),
        "path": [nz(x) for x in p] if isinstance(p, (list, tuple)) else [nz(p)],
        "keys": sorted(str(k) for k in m.keys()),
        "tuple": isinstance(p, tuple),
    }


def proj_lists(ctx):
    return {k: [proj_msg(m) for m in getattr(ctx, LISTNAME[k])] for k in KINDS}


NORET = {"keys": [], "lens": {k: 0 for k in KINDS}, "node": "", "num": 0}


def observe(ctx, prev_lists, op, ret):
    """Projection of the real state after a call (format of Trace_Session's obs)."""
    cur = proj_lists(ctx)
    new, stable = {}, True
    for k in KINDS:
        if op in ("start_page", "reset") or prev_lists is None:
            new[k] = cur[k]
        else:
            n = len(prev_lists[k])
            if cur[k][:n] != prev_lists[k]:
                stable = False
            new[k] = cur[k][n:]
    return {
        "title": nz(ctx.title), "section": nz(ctx.section), "subsection": nz(ctx.subsection),
        "path": [nz(x) for x in ctx.expand_stack],
        "lens": {k: len(cur[k]) for k in KINDS}, "new": new, "stable": stable,
        "cookies": [cookie_key(ctx, c) for c in ctx.cookies],
        "ret": ret or copy.deepcopy(NORET),
    }, cur


def apply(ctx, act):
    """One public call; returns the observable result (ret) in the specification's format."""
    op, a, b, c, d, nw = act["op"], act["a"], act["b"], act["c"], act["d"], act["nw"]
    if op == "start_page":
        ctx.start_page(a)
    elif op == "start_section":
        ctx.start_section(de(a))
    elif op == "start_subsection":
        ctx.start_subsection(de(a))
    elif op == "emit":
        fn = getattr(ctx, a)
        kw = {}
        if d != "":
            kw["trace"] = d
        if c != DEFAULT_SORTID:
            kw["sortid"] = c
        fn(b, **kw)
    elif op == "expand":
        ctx.expand(text_of(a, nw))
    elif op == "parse":
        ctx.parse(text_of(a, nw), **SEG_KW.get(a, {}))
    elif op == "to_return":
        r = ctx.to_return()
        keys = sorted(str(k) for k in r.keys()) if isinstance(r, dict) else []
        lens = {}
        for k in KINDS:
            v = r.get(LISTNAME[k]) if isinstance(r, dict) else None
            lens[k] = len(v) if isinstance(v, list) and v == getattr(ctx, LISTNAME[k]) else -1
        return {"keys": keys, "lens": lens, "node": "", "num": 0}
    elif op == "strip_marker":
        s = ctx.create_strip_marker(a, b)
        m = MARKER_RE.fullmatch(s) if isinstance(s, str) else None
        if not m:
            return {"keys": [], "lens": {k: 0 for k in KINDS}, "node": "?" + nz(s), "num": -1}
        node, num = m.group(1), m.group(2)
        if node == "nowiki":
            n = int(num, 16) if len(num) == 8 else -1
        else:
            n = int(num) if num.isdigit() and str(int(num)) == num else -1
        return {"keys": [], "lens": {k: 0 for k in KINDS}, "node": node, "num": n}
    else:
        raise ValueError(op)
    return None


def mk_act(op, a="", b="", c="", d="", nw=()):
    return {"op": op, "a": a, "b": b, "c": c, "d": d, "nw": list(nw)}


# ---------------------------------------------------------------------------
# G: behaviours generated by TLC replayed on the real code
# ---------------------------------------------------------------------------

def diff_step(obs, st, op, ppath):
    """Failing clauses of one step: real projection `obs` vs the specification state `st`
    (printed by TLC).  Same clause names as Trace_Session!Clauses."""
    f = []
    if obs["title"] != st["title"]:
        f.append("title")
    if obs["section"] != st["section"]:
        f.append("section")
    if obs["subsection"] != st["subsection"]:
        f.append("subsection")
    if obs["path"] != st["path"]:
        f.append("path")
    if op in ("expand", "parse") and obs["path"] != ppath:
        f.append("path_restored")
    if op == "start_page" and any(obs["lens"].values()):
        f.append("lists_emptied")
    if any(obs["lens"][k] != len(st["lists"][k]) for k in KINDS):
        f.append("lists_len")
    if not obs["stable"]:
        f.append("lists_stable")
    news = [m for k in KINDS for m in obs["new"][k]]
    if any(m["keys"] != DOCKEYS or not m["tuple"] for m in news):
        f.append("msg_keys")
    if any(m["title"] != st["stamp_title"] for m in news):
        f.append("msg_title")
    if any(m["section"] != st["stamp_section"] for m in news):
        f.append("msg_section")
    if any(m["subsection"] != st["stamp_subsection"] for m in news):
        f.append("msg_subsection")
    for k in KINDS:
        exp = st["lists"][k]
        n0 = obs["lens"][k] - len(obs["new"][k])
        for j, m in enumerate(obs["new"][k]):
            if n0 + j < len(exp):
                x = exp[n0 + j]
                if m["path"] != x["path"] and "msg_path" not in f:
                    f.append("msg_path")
                if (m["msg"] != x["msg"] or m["trace"] != x["trace"]) and "msg_text" not in f:
                    f.append("msg_text")
                if m["called_from"] != x["called_from"] and "msg_sortid" not in f:
                    f.append("msg_sortid")
    if obs["cookies"] != st["cookies"]:
        f.append("cookies")
    r, e = obs["ret"], st["ret"]
    if sorted(r["keys"]) != sorted(e["keys"]) or r["node"] != e["node"] or r["num"] != e["num"] or any(r["lens"][k] != e["lens"][k] for k in KINDS):
        f.append("ret")
    return f


def stamp_detail(obs, st, op=None):
    """The first message appended by the call whose stamps differ from the specification's."""
    for k in KINDS:
        for m in obs["new"][k]:
            for key in ("title", "section", "subsection"):
                if m[key] != st["stamp_" + key]:
                    text = m["msg"] if op == "emit" else MSG_TEXT.get(m["msg"], m["msg"])
                    return (f"{LISTNAME[k]} message {text!r} has {key}={m[key]!r}, "
                            f"the current {key} is {st['stamp_' + key]!r}")
    return None


def replay_behaviour(ctx, hist, skip=None):
    """Replay one TLC behaviour on a real context; returns (ncalls, first failing step | None).
    `skip`: index of an action that is NOT executed on the real side (selftest).
    The replay stops at the first step that fails a clause of the statement (VIOL) or raises;
    after a step that fails only DRIFT clauses it goes on (the real context keeps its own
    state, the specification its own): the clauses of the statement compare what the real
    call appended / left with the specification's state, whatever happened before.  The first
    failing step is returned; when that one is DRIFT only and a later step fails a clause of
    the statement, the later one is returned under "viol"."""
    prev = proj_lists(ctx)
    ppath = [nz(x) for x in ctx.expand_stack]
    n = 0
    first = None
    for i, h in enumerate(hist):
        act = h["act"]
        op = act["op"]
        try:
            ret = None if i == skip else apply(ctx, act)
        except Exception as ex:  # a public call that raises did not "return": reported as DRIFT
            b = {"step": i, "clauses": ["exception"], "observed": repr(ex)[:300], "expected": h["st"], "asis_num": h.get("asis_num", 0)}
            return n, first or b
        n += 1
        obs, cur = observe(ctx, None if op == "start_page" else prev, op, ret)
        f = diff_step(obs, h["st"], op, ppath)
        if f:
            b = {"step": i, "clauses": f, "observed": obs, "expected": h["st"], "asis_num": h.get("asis_num", 0),
                 "detail": stamp_detail(obs, h["st"], op)}
            if first is None:
                first = b
                if any(c in VIOL for c in f):
                    return n, first
            elif any(c in VIOL for c in f):
                first["viol"] = b
                return n, first
        prev, ppath = cur, obs["path"]
    return n, first


_G: dict = {}
SEPARATOR_TITLE = "Zz (between behaviours)"


def replay_chunk(chunk):
    """chunk: list of indexes into _G['cases']."""
    common.use_repo()
    cases = _G["cases"]
    res = []
    d = Path(tempfile.mkdtemp(prefix="c16s-"))
    try:
        shared = new_ctx(d, "shared")
        nfresh = 0
        before = None  # the behaviour replayed on the shared context before this one
        for idx in chunk:
            hist = cases[idx]["hist"]
            prev_idx = None
            if hist[0]["act"]["op"] == "start_page":
                ctx = shared
                prev_idx, before = before, idx
                if _G.get("separate"):
                    # the specification's behaviour starts on a new context: its first start_page is no
                    # re-announcement.  Keep that true on the shared context (the previous behaviour may
                    # have ended on the same title): a page of another title in between.
                    ctx.start_page(SEPARATOR_TITLE)
            else:
                nfresh += 1
                ctx = new_ctx(d, f"fresh{nfresh}")
            try:
                n, bad = replay_behaviour(ctx, hist)
            finally:
                if ctx is not shared:
                    close_ctx(ctx)
                    shutil.rmtree(d / f"fresh{nfresh}", ignore_errors=True)
            res.append({"idx": idx, "calls": n, "bad": bad, "prev": None if _G.get("separate") else prev_idx})
        close_ctx(shared)
    finally:
        shutil.rmtree(d, ignore_errors=True)
    return res


def acts_of(hist):
    return [h["act"] for h in hist]


def render_act(a):
    op = a["op"]
    if op in ("expand", "parse"):
        return f"{op}({text_of(a['a'], a['nw'])!r})"
    if op == "emit":
        return f"{a['a']}({a['b']!r}" + (f", trace={a['d']!r}" if a["d"] else "") + (f", sortid={a['c']!r}" if a["c"] != DEFAULT_SORTID else "") + ")"
    if op == "strip_marker":
        return f"create_strip_marker({a['a']!r}, {a['b']!r})"
    if op == "to_return":
        return "to_return()"
    return f"{op}({de(a['a'])!r})"


def judge(o: Outcome, case: dict, clauses, op: str, detail=None, position=None):
    """Turn the failing clauses of one step into VIOLATION / DRIFT.
    detail: the offending message; position: (rendered last positioning call, it re-announced
    the current value) - both only make the report more precise."""
    if clauses == ["exception"]:
        # the statement speaks about calls that return; the model predicts that these calls do
        o.note_drift({"after": op, "clauses": ["exception"], "raised": case.get("observed"), "case": _brief(case)})
        return
    viol = [c for c in clauses if c in VIOL]
    drift = [c for c in clauses if c not in VIOL]
    if viol:
        why = f"after {op}: " + "; ".join(WHY[c] for c in viol)
        cls = viol[0]
        if detail and any(c.startswith("msg_") for c in viol):
            why += ": " + detail
        if position and (any(c.startswith("msg_") for c in viol) or position[1]):
            why += f"; the position was last announced by {position[0]}" + (
                " - a call whose argument was the current value already (re-announcement), which has to reset what any other call of it resets" if position[1] else "")
            cls += "/" + position[0].split("(")[0] + ("-same" if position[1] else "")
        o.violation(case, why + f" [clauses: {', '.join(clauses)}]", cls=cls)
    elif drift:
        o.note_drift({"after": op, "clauses": drift, "case": _brief(case)})


def last_position(hist, step):
    """(rendered call, same) of the last start_* call up to `step` (same: flagged by TLC)."""
    for h in reversed(hist[: step + 1]):
        if h["act"]["op"] in ("start_page", "start_section", "start_subsection"):
            return render_act(h["act"]), bool(h.get("same"))
    return None


def _brief(case):
    s = json.dumps(case, default=str)
    return case if len(s) < 1500 else {"kind": case.get("kind"), "calls": case.get("calls", [])[-6:], "clauses": case.get("clauses"),
                                       "observed": str(case.get("observed"))[:500], "expected": str(case.get("expected"))[:500]}


def run_g(o: Outcome, name: str, cases: list, nproc=None):
    _G["cases"] = cases
    _G["separate"] = name == "reannounce"
    started = [i for i, c in enumerate(cases) if c["hist"][0]["act"]["op"] == "start_page"]
    fresh = [i for i, c in enumerate(cases) if c["hist"][0]["act"]["op"] != "start_page"]
    res = pmap(replay_chunk, started + fresh, nproc=nproc)
    nb = 0
    for r in res:
        hist = cases[r["idx"]]["hist"]
        o.evaluations += r["calls"]
        o.traces += 1
        if any(h["act"]["op"] not in ("start_page", "to_return") for h in hist):
            o.shape(("G", common.json_key(acts_of(hist))))
        b = r["bad"]
        if b:
            nb += 1
            acts = acts_of(hist)
            for x in (b, b.get("viol")):
                if not x:
                    continue
                case = {"kind": "G", "gen": name, "acts": acts, "calls": [render_act(a) for a in acts[: x["step"] + 1]],
                        "step": x["step"], "clauses": x["clauses"], "observed": x["observed"], "expected": x["expected"]}
                if r.get("prev") is not None:
                    # same real context as the behaviour replayed before (start_page is what separates them)
                    case["acts_before"] = acts_of(cases[r["prev"]]["hist"])
                    case["calls_before_on_this_context"] = [render_act(a) for a in case["acts_before"]]
                judge(o, case, x["clauses"], render_act(acts[x["step"]]), x.get("detail"), last_position(hist, x["step"]))
    return nb


# ---------------------------------------------------------------------------
# V: random sessions recorded from the real code, validated by TLC
# ---------------------------------------------------------------------------
V_TITLES = ["Pg", "Qx", "Talk:Foo bar", "Ünï/cödé", "a:b (c)", "ERROR_TITLE", "loop"]
V_SECTIONS = [None, "", "English", "Noun", "Étymologie 1", "S1"]
V_SUBSECTIONS = [None, "", "Noun", "Verb", "S1", "Pronunciation 2"]
V_MSGS = ["m1", "something odd", "LUA error in #invoke", "loop", "x=1; y=2", "éè"]
V_TRACES = ["", "", "tb line 1\n  line 2", "tr1"]
V_SORTIDS = [DEFAULT_SORTID, DEFAULT_SORTID, "sid/7", "page/20230101"]
V_NW = ["x", "y", "a b", "", "é", "{{loop}}", "N:x!"]
V_NODES = ["nowiki", "nowiki", "h", "ref", "math"]
V_CONTENTS = ["", "c1", "c2", "==H==", "é", "c:c1"]


def random_act(rng, started: bool, cur=None):
    """cur: the arguments of the positioning calls issued last (title, section, subsection;
    section / subsection forgotten at the calls documented to reset them) - only used to
    issue re-announcements: a positioning call repeated with the argument that is current."""
    if cur and started and rng.random() < 0.09:
        q = rng.random()
        if q < 0.2:
            return mk_act("start_page", cur["title"])
        if q < 0.7:
            return mk_act("start_section", nz(cur["section"]))
        return mk_act("start_subsection", nz(cur["subsection"]))
    r = rng.random()
    if not started and r < 0.45 or r < 0.07:
        return mk_act("start_page", rng.choice(V_TITLES))
    if r < 0.18:
        return mk_act("start_section", nz(rng.choice(V_SECTIONS)))
    if r < 0.28:
        return mk_act("start_subsection", nz(rng.choice(V_SUBSECTIONS)))
    if r < 0.50 or not started and r < 0.80:
        return mk_act("emit", rng.choice(KINDS), rng.choice(V_MSGS), rng.choice(V_SORTIDS), rng.choice(V_TRACES))
    if r < 0.74 and started:
        nw = [rng.choice(V_NW) for _ in range(rng.choice([0, 0, 0, 1, 2, 3]))]
        return mk_act("expand", rng.choice(EXPAND_SEGS), nw=nw)
    if r < 0.84 and started:
        nw = [rng.choice(V_NW) for _ in range(rng.choice([0, 0, 1, 2]))]
        return mk_act("parse", rng.choice(PARSE_SEGS), nw=nw)
    if r < 0.90:
        return mk_act("to_return")
    return mk_act("strip_marker", rng.choice(V_NODES), rng.choice(V_CONTENTS))


def record_session(rng, d: Path, sid: int, ncalls: int):
    """Run one random session on a new real context; one event per public call."""
    ctx = new_ctx(d, f"s{sid}")
    events = []
    try:
        obs, prev = observe(ctx, None, "reset", None)
        events.append({**mk_act("reset"), "sid": sid, "obs": obs})
        started = False
        cur = {"title": None, "section": None, "subsection": None}
        for _ in range(ncalls):
            act = random_act(rng, started, cur)
            if act["op"] == "start_page":
                cur = {"title": act["a"], "section": None, "subsection": None}
            elif act["op"] == "start_section":
                cur.update(section=de(act["a"]), subsection=None)
            elif act["op"] == "start_subsection":
                cur["subsection"] = de(act["a"])
            try:
                ret = apply(ctx, act)
            except Exception as ex:  # the session ends here; reported as DRIFT by run_v
                events.append({**mk_act("reset"), "sid": sid, "obs": events[0]["obs"], "raised": [render_act(act), repr(ex)[:300]]})
                break
            if act["op"] == "start_page":
                started = True
            obs, prev = observe(ctx, prev, act["op"], ret)
            events.append({**act, "sid": sid, "obs": obs})
    finally:
        close_ctx(ctx)
        shutil.rmtree(Path(d) / f"s{sid}", ignore_errors=True)
    return events


TRACE_CFG = "SPECIFICATION TSpec\nINVARIANT Verdict\nINVARIANT ModelInv\nPOSTCONDITION Accepted\nCHECK_DEADLOCK FALSE\n"


def validate_trace(events, timeout=1200):
    """-> (TLCResult, bad list) ; bad = [{i, sid, op, clauses, expected(json)}]
    (r.re: the re-announcements TLC counted while consuming the trace)"""
    with Scratch("c16s-t-") as d:
        tf = d / "trace.json"
        tf.write_text(json.dumps({"events": events}))
        r = tlc("Trace_Session", "trace.cfg", cfg_text=TRACE_CFG, workers=1, env={"TRACE_FILE": str(tf)}, timeout=timeout)
    v = r.tagged("VERDICT")
    if not v:
        raise common.TLCError("trace validation printed no verdict")
    v = v[0]
    if v["consumed"] != len(events):
        raise common.TLCError(f"trace consumed {v['consumed']} of {len(events)} events")
    r.re = {k: x for k, x in v.get("re", {}).items() if k != "lastsame"}
    return r, v["bad"]


def v_chunk(jobs):
    """jobs: list of (sid, seed, ncalls): record the sessions and validate them in one TLC run."""
    common.use_repo()
    out = []
    with Scratch("c16s-v-") as d:
        events = []
        for sid, sd, n in jobs:
            events.extend(record_session(random.Random(sd), d, sid, n))
    r, bad = validate_trace(events)
    firsts = []
    seen = set()
    for b in bad:
        for c in b["clauses"]:
            if (b["sid"], c) in seen:
                continue
            if c.startswith("msg_") and "lists_emptied" in b["clauses"]:
                continue  # stale messages that survived start_page: one finding, not four
            seen.add((b["sid"], c))
            i = b["i"] - 1
            start = max(j for j in range(i + 1) if events[j]["op"] == "reset")
            firsts.append({"clause": c, "clauses": b["clauses"], "events": events[start : i + 1], "expected": b["expected"]})
    raised = [e["raised"] for e in events if "raised" in e]
    shapes = {(e["op"], e["a"], common.json_key(e["nw"])) for e in events if e["op"] in ("expand", "parse")}
    shapes |= {(e["op"], e["a"], e["obs"]["section"], e["obs"]["subsection"]) for e in events if e["op"] == "emit"}
    out.append({"nevents": len(events), "nsessions": len(jobs), "firsts": firsts, "distinct": r.distinct, "generated": r.generated,
                "wall": r.wall, "depth": r.depth, "shapes": sorted(shapes), "raised": raised, "re": r.re,
                "nested": sum(1 for e in events for k in KINDS for m in e["obs"]["new"][k] if len(m["path"]) > 2 and e["op"] != "reset" and e["op"] != "start_page"),
                "sample": [{k: e[k] for k in ("op", "a", "b", "nw")} for e in events[1:7]]})
    return out


def v_worker(items):
    return [x for jobs in items for x in v_chunk(jobs)]


class _R:  # minimal TLCResult look-alike for add_tlc
    def __init__(self, distinct, generated, depth, wall):
        self.distinct, self.generated, self.depth, self.wall = distinct, generated, depth, wall


def run_v(o: Outcome, nsessions: int, per_chunk: int, nproc=None):
    rng = random.Random(common.seed() * 104729 + 16)
    jobs = [(sid, rng.randrange(1 << 30), rng.randint(50, 300)) for sid in range(nsessions)]
    chunks = [jobs[i : i + per_chunk] for i in range(0, len(jobs), per_chunk)]
    res = pmap(v_worker, chunks, nproc=nproc, chunk=1)
    tot_ev = 0
    seen_cls = set()
    re_tot: dict = {}
    for k, r in enumerate(res):
        tot_ev += r["nevents"]
        for n, x in r["re"].items():
            re_tot[n] = re_tot.get(n, 0) + x
        o.traces += r["nsessions"]
        o.evaluations += r["nevents"]
        o.add_tlc(f"Trace_Session[{k}]", _R(r["distinct"], r["generated"], r["depth"], r["wall"]))
        for s in r["shapes"]:
            o.shape(("V",) + tuple(s))
        for call, exc in r["raised"]:
            o.note_drift({"after": call, "clauses": ["exception"], "raised": exc})
        for b in r["firsts"]:
            ev = b["events"][-1]
            case = {"kind": "V", "calls": [render_act(e) for e in b["events"][1:]][-12:], "clauses": b["clauses"],
                    "observed": ev["obs"], "expected": json.loads(b["expected"]), "events": [{k2: e[k2] for k2 in ("op", "a", "b", "c", "d", "nw")} for e in b["events"]]}
            if b["clause"] in VIOL:
                why, cls = WHY[b["clause"]], b["clause"]
                if cls.startswith("msg_"):
                    det = stamp_detail(ev["obs"], case["expected"], ev["op"])
                    pos_ev = next((e for e in reversed(b["events"]) if e["op"] in ("start_page", "start_section", "start_subsection")), None)
                    if det:
                        why += ": " + det
                    if pos_ev:
                        same = bool(case["expected"].get("same"))
                        why += f"; the position was last announced by {render_act(pos_ev)}" + (
                            " - a call whose argument was the current value already (re-announcement), which has to reset what any other call of it resets" if same else "")
                        cls += "/" + pos_ev["op"] + ("-same" if same else "")
                o.violation(case, f"after {render_act(ev) if ev['op'] != 'reset' else 'Wtp()'}: {why} [clauses: {', '.join(b['clauses'])}]", cls=cls)
            else:
                key = (b["clause"], ev["op"], ev["a"])
                if key not in seen_cls:
                    seen_cls.add(key)
                    o.note_drift({"after": render_act(ev) if ev["op"] != "reset" else "Wtp()", "clauses": [b["clause"]], "case": _brief(case)})
    o.extra["session_trace_events"] = o.extra.get("session_trace_events", 0) + tot_ev
    # counted by Trace_Session on the specification's state: start_page(T) on page T (page_dirty: with messages /
    # section / cookies to clear), start_section(S) in section S (section_sub: with a subsection to clear), ...
    o.extra["session_trace_reannouncements"] = re_tot
    if res and not (re_tot.get("section_sub") and re_tot.get("page_dirty") and re_tot.get("subsection")):
        raise common.TLCError(f"the recorded sessions contain no re-announcement of some kind (vacuity): {re_tot}")
    o.extra["session_messages_recorded_inside_nested_paths"] = sum(r["nested"] for r in res)
    if res:
        o.sample({"recorded_session_prefix": res[0]["sample"]})


# ---------------------------------------------------------------------------
# probe beyond the statement: strip-marker contents equal to the cache's counter keys
# ---------------------------------------------------------------------------
STRIP_GEN_CFG = """SPECIFICATION GSpec
CONSTANTS
  Dev <- DevNone
  Titles <- TitlesOne
  Sections <- SecNone
  Subsections <- SecNone
  EmitSet <- EmitNone
  ExpandTexts <- NoText
  ParseTexts <- NoText
  Markers <- MarkersReserved
  MaxMsgs = 0
  MaxMarkers = 0
  MaxLen = %d
  FreshLen = 0
  Family = "seq"
  PosLen = 0
  SimMode = FALSE
INVARIANT GenInv
CHECK_DEADLOCK FALSE
"""


def strip_probe(o: Outcome, r):
    """Behaviours over create_strip_marker with contents 'preprocess' / 'nowiki': where the
    real number differs from the ideal specification, is it the as-built cache (deviation
    StripCounterKeyCollision)?  Not part of the C16 statement: reported in the evidence only."""
    common.use_repo()
    explained = unexplained = agree = 0
    witness = None
    with Scratch("c16s-p-") as d:
        ctx = new_ctx(d, "probe")
        try:
            for c in r.cases:
                hist = c["hist"]
                for i, h in enumerate(hist):
                    ret = apply(ctx, h["act"])
                    o.evaluations += 1
                    if h["act"]["op"] != "strip_marker":
                        continue
                    if ret["num"] == h["st"]["ret"]["num"] and ret["node"] == h["st"]["ret"]["node"]:
                        agree += 1
                    elif ret["num"] == h["asis_num"]:
                        explained += 1
                        witness = witness or {"calls": [render_act(x["act"]) for x in hist[: i + 1]], "real_number": ret["num"], "ideal_number": h["st"]["ret"]["num"]}
                        break
                    else:
                        unexplained += 1
                        o.note_drift({"after": render_act(h["act"]), "clauses": ["ret"], "case": {"calls": [render_act(x["act"]) for x in hist[: i + 1]], "observed": ret, "expected": h["st"]["ret"], "asis": h["asis_num"]}})
                        break
        finally:
            close_ctx(ctx)
    if explained:
        print(f"NOTE property={PID} (beyond the statement, verdict unaffected) StripCounterKeyCollision reproduced on {explained} behaviour(s), "
              f"e.g. {json.dumps(witness)}; proposed_fixes/C16-strip-marker-cache-keys.diff")
    o.extra["session_beyond_statement"] = {"StripCounterKeyCollision": {
        "what": "create_strip_marker keeps its two counters and the contents in one dict: a content equal to 'preprocess' or 'nowiki' gets / changes a counter (same content -> different numbers, different contents -> same number)",
        "behaviours_explained_by_deviation": explained, "agree_with_ideal": agree, "neither": unexplained, "witness": witness}}


# ---------------------------------------------------------------------------
# driver
# ---------------------------------------------------------------------------

def _sim(num, depth, seed_):
    r = tlc("Gen_Session", "Sim_Session.cfg", workers=1, timeout=1500,
            extra=["-simulate", f"num={num}", "-depth", str(depth + 2), "-seed", str(seed_)])
    m = re.search(r"The number of states generated: (\d+)", r.out)
    r.generated = r.distinct = int(m.group(1)) if m else 0
    return r


def coverage_actions(r) -> dict:
    """-coverage 1 per-action counts {action: (distinct, total)}; unlike TLCResult.coverage_actions also the
    actions TLC prints with the location of the sub-expression behind the module name (the \\E actions)."""
    res = {}
    for m in re.finditer(r"<(\w+) line \d+, col \d+ to line \d+, col \d+ of module \w+(?: \([\d ]+\))?>: (\d+):(\d+)", r.out):
        res[m.group(1)] = (int(m.group(2)), int(m.group(3)))
    return res


DEMOS = [
    ("Demo_Session_subsection_kept.cfg", "SubsectionClearedByStartSection"),
    ("Demo_Session_lists_not_cleared.cfg", "CleanAfterStartPage"),
    ("Demo_Session_warning_section.cfg", "StampsTitleSection"),
    ("Demo_Session_cookie_dup.cfg", "CookieInjective"),
    ("Demo_Session_strip_keys.cfg", "StripSameContentSameNumber"),
    # re-announcement shortcuts: "the argument is the current value already, nothing to do"
    ("Demo_Session_same_section.cfg", "StampsSubsection"),
    ("Demo_Session_same_page.cfg", "CleanAfterStartPage"),
    ("Demo_Session_sub_like_section.cfg", "StampsSubsection"),
]


def extend(o: Outcome, tier: str) -> None:
    """Adds the session engine's runs to the Outcome of C16 (does not call finish())."""
    t0 = time.time()
    thorough = tier == "thorough"
    common.use_repo()
    o.rule = (o.rule + " || " if o.rule else "") + (
        "session engine: G = every action sequence StartPage.a^k (k=2 quick / 3 thorough) over the bounded alphabet of spec/Gen_Session "
        "(+ sequences on a context without start_page, + -simulate walks of 14 calls, + re-announcement family: start_page . w . producers for every "
        "word w of 3 quick / 4 thorough positioning calls [start_page/start_section/start_subsection over all titles/sections/subsections, i.e. also "
        "with the argument that is current already, + a mark call] followed by one message-producing call of every kind), one case per behaviour, distinct by action sequence, "
        "non-trivial when it contains a call other than start_page/to_return; V = seeded random sessions of 50-300 calls, distinct by "
        "(op, text) of expand/parse events and (kind, section, subsection) of emitted messages")
    o.assumptions += ["session engine: scripts (push/pop/save/emit order) of the canonical texts in spec/Session.tla are transcribed from core.py/parser.py; "
                      "strip-marker contents differ from the reserved cache keys 'nowiki'/'preprocess' (see session_beyond_statement)"]
    # all TLC runs are started together (threads waiting for subprocesses); in the quick tier the
    # sessions of V are recorded and validated meanwhile; worker processes are forked only after
    # the threads have finished
    with cf.ThreadPoolExecutor(max_workers=12) as ex:
        mcw = 8 if thorough else 4
        f_msgs = ex.submit(tlc, "MC_Session", "MC_Session_msgs_T.cfg" if thorough else "MC_Session_msgs.cfg", workers=mcw, timeout=1500, coverage=True)
        f_tabs = ex.submit(tlc, "MC_Session", "MC_Session_tables_T.cfg" if thorough else "MC_Session_tables.cfg", workers=mcw, timeout=1500, coverage=True)
        demos = DEMOS if thorough else [x for x in DEMOS if x[0] not in ("Demo_Session_cookie_dup.cfg", "Demo_Session_sub_like_section.cfg")]
        f_demo = {cfg: ex.submit(tlc, "MC_Session", cfg, workers=1, timeout=600, check=False) for cfg, _ in demos}
        f_gen = ex.submit(tlc, "Gen_Session", "Gen_Session_T.cfg" if thorough else "Gen_Session_Q.cfg", workers=1, timeout=1500)
        f_sim = ex.submit(_sim, 400 if thorough else 40, 14, common.seed() + 16)
        f_rgen = ex.submit(tlc, "Gen_Session", "Gen_Session_RT.cfg" if thorough else "Gen_Session_R.cfg", workers=1, timeout=1500)
        f_strip = ex.submit(tlc, "Gen_Session", "strip.cfg", workers=1, timeout=600, cfg_text=STRIP_GEN_CFG % (5 if thorough else 3))
        if not thorough:
            run_v(o, 10, 10, nproc=1)
        futures = [f_msgs, f_tabs, f_gen, f_sim, f_rgen, f_strip] + list(f_demo.values())
        cf.wait(futures)
    for f in futures:
        f.result()  # machinery failures surface here
    if thorough:
        run_v(o, 320, 8)
    np_ = None if thorough else 1
    # ---- G
    r = f_gen.result()
    o.add_tlc("Gen_Session", r)
    cases = r.cases
    if not cases:
        raise common.TLCError("Gen_Session printed no behaviour")
    bad_g = run_g(o, "exhaustive", cases, nproc=np_)
    mid = cases[len(cases) // 2]
    o.sample({"behaviour": [render_act(a) for a in acts_of(mid["hist"])], "spec_state_after_last": mid["hist"][-1]["st"]})
    r = f_sim.result()
    o.add_tlc("Sim_Session", r)
    sims = r.cases
    if not sims:
        raise common.TLCError("Sim_Session printed no walk")
    bad_s = run_g(o, "simulate", sims, nproc=np_)
    o.sample({"simulated_walk": [render_act(a) for a in acts_of(sims[0]["hist"])]})
    # ---- G, re-announcement family
    r = f_rgen.result()
    o.add_tlc("Gen_Session[reannounce]", r)
    rcases = r.cases
    if not rcases:
        raise common.TLCError("Gen_Session (re-announcement family) printed no behaviour")
    bad_r = run_g(o, "reannounce", rcases, nproc=np_)
    # how many behaviours re-announce (flag `same`, set by TLC) a page / section / subsection, and how many
    # re-announce a section while a subsection is set (expected subsection stamp '' afterwards)
    rstat = {"start_page": 0, "start_section": 0, "start_subsection": 0, "start_section_with_subsection_to_clear": 0}
    for c in rcases:
        ops = set()
        for i, h in enumerate(c["hist"]):
            if h.get("same"):
                ops.add(h["act"]["op"])
                if h["act"]["op"] == "start_section" and i and c["hist"][i - 1]["st"]["subsection"] != NONE:
                    ops.add("start_section_with_subsection_to_clear")
        for x in ops:
            rstat[x] += 1
    if not all(rstat.values()):
        raise common.TLCError(f"re-announcement family without re-announcements of some kind (vacuity): {rstat}")
    o.extra["session_reannouncement_behaviours"] = {"behaviours": len(rcases), "with_same": rstat, "producers_after_each_word":
                                                    [render_act(h["act"]) for h in rcases[0]["hist"] if h["act"]["op"] in ("emit", "expand", "parse")][-10:]}
    mid = rcases[len(rcases) // 2]
    o.sample({"reannouncement_behaviour": [render_act(a) for a in acts_of(mid["hist"])][:5], "stamps_after_word": {k: mid["hist"][4]["st"][k] for k in ("stamp_title", "stamp_section", "stamp_subsection")} if len(mid["hist"]) > 4 else None})
    o.extra["session_behaviours"] = {"exhaustive": len(cases), "simulated": len(sims), "reannounce": len(rcases), "mismatching": bad_g + bad_s + bad_r}
    r = f_strip.result()
    o.add_tlc("Gen_Session[strip keys]", r)
    strip_probe(o, r)
    # ---- M
    cov = {}
    for name, f in (("MC_Session_msgs", f_msgs), ("MC_Session_tables", f_tabs)):
        r = f.result()
        o.add_tlc(name, r)
        for a, v in coverage_actions(r).items():
            cov[a] = cov.get(a, 0) + v[1]
    o.extra["session_action_coverage"] = cov
    never = [a for a, n in cov.items() if n == 0] + [a for a in ("DoReStartPage", "DoReStartSection", "DoReStartSubsection") if a not in cov]
    if never:
        raise common.TLCError(f"actions never taken in MC_Session (vacuity): {never}")
    demo = {}
    for cfg, inv in demos:
        r = f_demo[cfg].result()
        demo[cfg] = r.invariant_violated
        if inv not in r.invariant_violated:
            raise common.TLCError(f"{cfg} no longer produces the counterexample to {inv} (vacuity guard)")
    o.extra["session_demo_counterexamples"] = demo
    o.extra["session_wall_s"] = round(time.time() - t0, 1)


def run(tier: str) -> int:
    """Standalone run of the session engine; evidence goes to a scratch directory (never to
    /verif/evidence/C16.json).  The directory is kept only when a violation was written."""
    own = None
    if not os.environ.get("VERIF_EVIDENCE_DIR"):
        own = tempfile.mkdtemp(prefix="c16s-evidence-")
        os.environ["VERIF_EVIDENCE_DIR"] = own
    ev = Path(os.environ["VERIF_EVIDENCE_DIR"])
    common.EVID = ev
    common.REPLAYS = ev / "replays"
    o = Outcome(PID, tier)
    try:
        extend(o, tier)
        rc = o.finish()
    except BaseException:
        if own:
            shutil.rmtree(own, ignore_errors=True)
            os.environ.pop("VERIF_EVIDENCE_DIR", None)
        raise
    if own:
        if rc == 0:
            shutil.rmtree(own, ignore_errors=True)
        else:
            print(f"(evidence and replay files of this standalone run: {own})")
        os.environ.pop("VERIF_EVIDENCE_DIR", None)
    return rc


def replay(path: str) -> int:
    """Re-run a recorded violating case on the current tree; 1 = still violating."""
    v = json.loads(Path(path).read_text())
    case = v["case"]
    common.use_repo()
    print("why:", v["why"])
    with Scratch("c16s-r-") as d:
        if case["kind"] == "G":
            hist = [{"act": a, "st": None} for a in case["acts"]]
            r = None
            if case.get("gen") == "exhaustive":
                r = tlc("Gen_Session", "Gen_Session_T.cfg" if len(hist) > 3 else "Gen_Session_Q.cfg", workers=1, timeout=1500)
            elif case.get("gen") == "reannounce":
                r = tlc("Gen_Session", "Gen_Session_RT.cfg" if len(hist) > 15 else "Gen_Session_R.cfg", workers=1, timeout=1500)
            found = None
            if r is not None:
                key = common.json_key(case["acts"])
                for c in r.cases:
                    if common.json_key(acts_of(c["hist"])) == key:
                        found = c["hist"]
                        break
            if found is None:  # a simulated walk: compare the failing step with the recorded expectation
                ctx = new_ctx(d, "r")
                try:
                    for a in case.get("acts_before", []):
                        apply(ctx, a)
                    prev, ppath = proj_lists(ctx), []
                    for i, a in enumerate(case["acts"][: case["step"] + 1]):
                        ret = apply(ctx, a)
                        obs, cur = observe(ctx, None if a["op"] == "start_page" else prev, a["op"], ret)
                        if i == case["step"]:
                            f = diff_step(obs, case["expected"], a["op"], ppath)
                            print("step", i, render_act(a), "failing clauses now:", f)
                            return 1 if any(c in VIOL for c in f) else 0
                        prev, ppath = cur, obs["path"]
                finally:
                    close_ctx(ctx)
                return 0
            ctx = new_ctx(d, "r")
            try:
                for a in case.get("acts_before", []):
                    apply(ctx, a)
                if case.get("gen") == "reannounce":
                    ctx.start_page(SEPARATOR_TITLE)
                n, bad = replay_behaviour(ctx, found)
            finally:
                close_ctx(ctx)
            print("calls:", [render_act(a) for a in case["acts"]])
            print("failing now:", bad and [{"step": x["step"], "clauses": x["clauses"], "detail": x.get("detail")} for x in (bad, bad.get("viol")) if x])
            return 1 if bad and any(c in VIOL for x in (bad, bad.get("viol")) if x for c in x["clauses"]) else 0
        # V: re-execute the recorded calls on a new context and validate again
        ctx = new_ctx(d, "r")
        events = []
        try:
            obs, prev = observe(ctx, None, "reset", None)
            events.append({**mk_act("reset"), "sid": 0, "obs": obs})
            for e in case["events"][1:]:
                ret = apply(ctx, e)
                obs, prev = observe(ctx, prev, e["op"], ret)
                events.append({**e, "sid": 0, "obs": obs})
        finally:
            close_ctx(ctx)
        _, bad = validate_trace(events)
        for b in bad[:5]:
            print("event", b["i"], b["op"], "failing clauses:", b["clauses"])
        return 1 if any(c in VIOL for b in bad for c in b["clauses"]) else 0


def selftest() -> int:
    """Binding demo: (a) a recorded trace is accepted, the same trace with ONE corrupted
    recorded field is rejected with the clause named; (b) a TLC behaviour replays without
    mismatch, the same behaviour with ONE action dropped on the real side mismatches; (c) a
    behaviour of the re-announcement family replays without mismatch, with the re-announcing
    start_section not executed the stale subsection stamp of the next message is rejected."""
    common.use_repo()
    ok = True
    with Scratch("c16s-s-") as d:
        events = record_session(random.Random(5), d, 0, 120) + record_session(random.Random(6), d, 1, 80)
    _, bad0 = validate_trace(events)
    print(f"(a) unmodified trace of {len(events)} events: bad = {len(bad0)}")
    ok &= not bad0
    k = next(i for i, e in enumerate(events) if e["op"] in ("expand", "emit", "parse") and any(e["obs"]["new"][q] for q in KINDS) and e["obs"]["section"] not in (NONE, ""))
    ev2 = copy.deepcopy(events)
    q = next(q for q in KINDS if ev2[k]["obs"]["new"][q])
    ev2[k]["obs"]["new"][q][0]["section"] = "CORRUPTED"
    _, bad1 = validate_trace(ev2)
    print(f"    message section corrupted in event {k + 1}: bad = {[(b['i'], b['clauses']) for b in bad1]}")
    ok &= len(bad1) == 1 and bad1[0]["i"] == k + 1 and bad1[0]["clauses"] == ["msg_section"]
    k = next(i for i, e in enumerate(events) if e["op"] in ("expand", "emit", "parse") and any(e["obs"]["new"][q] for q in KINDS) and e["obs"]["subsection"] not in (NONE, ""))
    ev2 = copy.deepcopy(events)
    q = next(q for q in KINDS if ev2[k]["obs"]["new"][q])
    ev2[k]["obs"]["new"][q][0]["subsection"] = ""
    _, bad1 = validate_trace(ev2)
    print(f"    message subsection blanked in event {k + 1}: bad = {[(b['i'], b['clauses']) for b in bad1]}")
    ok &= len(bad1) == 1 and bad1[0]["i"] == k + 1 and bad1[0]["clauses"] == ["msg_subsection"]
    k = next(i for i, e in enumerate(events) if e["op"] == "expand")
    ev3 = copy.deepcopy(events)
    ev3[k]["obs"]["path"].append("Template:leaked")
    _, bad2 = validate_trace(ev3)
    print(f"    path corrupted after expand in event {k + 1}: bad = {[(b['i'], b['clauses']) for b in bad2][:3]}")
    ok &= bool(bad2) and bad2[0]["i"] == k + 1 and "path_restored" in bad2[0]["clauses"]
    k = next(i for i, e in enumerate(events) if e["op"] == "start_page" and i > 30)
    ev4 = copy.deepcopy(events)
    ev4[k]["obs"]["lens"]["note"] = 1
    _, bad3 = validate_trace(ev4)
    print(f"    one note left after start_page in event {k + 1}: bad = {[(b['i'], b['clauses']) for b in bad3][:3]}")
    ok &= bool(bad3) and "lists_emptied" in bad3[0]["clauses"]
    # (b)
    r = tlc("Gen_Session", "Gen_Session_Q.cfg", workers=1, timeout=600)
    cases = [c for c in r.cases if [h["act"]["op"] for h in c["hist"]] == ["start_page", "start_section", "emit"] and c["hist"][1]["act"]["a"] != NONE]
    hist = cases[0]["hist"]
    with Scratch("c16s-s-") as d:
        ctx = new_ctx(d, "x")
        try:
            _, b0 = replay_behaviour(ctx, hist)
            _, b1 = replay_behaviour(ctx, hist, skip=1)
        finally:
            close_ctx(ctx)
    print(f"(b) behaviour {[render_act(a) for a in acts_of(hist)]}: faithful replay mismatch = {b0}; "
          f"replay without the 2nd call: step {b1 and b1['step']} clauses {b1 and b1['clauses']}")
    ok &= b0 is None and b1 is not None and "section" in b1["clauses"]
    # (c) re-announcement family: start_section(S) ; start_subsection(U) ; start_section(S) [flagged `same` by TLC]
    r = tlc("Gen_Session", "Gen_Session_R.cfg", workers=1, timeout=600)
    hist = next(c["hist"] for c in r.cases
                if [(h["act"]["op"], h["act"]["a"]) for h in c["hist"][1:4]] == [("start_section", "S1"), ("start_subsection", "U1"), ("start_section", "S1")])
    with Scratch("c16s-s-") as d:
        ctx = new_ctx(d, "x")
        try:
            _, c0 = replay_behaviour(ctx, hist)
            _, c1 = replay_behaviour(ctx, hist, skip=3)
        finally:
            close_ctx(ctx)
    v = c1 and c1.get("viol")
    print(f"(c) behaviour {[render_act(a) for a in acts_of(hist)][:5]}.. (same = {[h['same'] for h in hist[:4]]}): faithful replay mismatch = {c0}; "
          f"re-announcing call not executed: step {c1 and c1['step']} {c1 and c1['clauses']} (DRIFT), then step {v and v['step']} {v and v['clauses']}: {v and v['detail']}")
    ok &= c0 is None and hist[3]["same"] and c1 is not None and c1["clauses"] == ["subsection"] and bool(v) and v["step"] == 4 and "msg_subsection" in v["clauses"]
    print("selftest", "ok" if ok else "FAILED")
    return 0 if ok else 1
