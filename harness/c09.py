"""C09 — processing a page does not depend on what the context processed before.

M  Context.tla lists every retained cell with its reset point and the page kinds as
   readers/writers; TLC checks non-interference for all histories (ideal design) and
   shows the counterexample histories of the as-built design (Demo_Context_asbuilt).
G  TLC enumerates every history of page kinds up to the bound with, per step, the set
   of cells the model says interfere (as-is with the listed findings); each history is
   run on ONE real context, every page also on a FRESH context over the same database;
   parse tree / expansion / recorded messages must be equal.  A difference on a step
   the as-is model explains by a listed finding is a KNOWN-FINDING, any other a VIOLATION.
V  seeded random longer histories (length <= 30) over the same catalogue.
I  INVOCATION-level histories inside ONE page (ContextInvoke.tla): a page is no longer one atom.
   G: TLC enumerates histories of 2-4 #invoke kinds (counter module, module requiring it, global
   setter/readers, string patcher/reader, in-band failures, failures that end in an exception on the
   Python side, nested failing invocations through frame:preprocess / frame:expandTemplate, page
   breaks) with the outcome the specification demands of EVERY invocation (each top-level #invoke
   starts from the initial module state); the harness runs each history on one page of a long-lived
   real context in three renderings (one expand() per invocation, all in one text, through a
   template) and compares every invocation.  The expected values come from TLC, not from a second run
   of the real code (a fresh context shows the same wrong page).  V: random histories of 5-12
   invocations with page breaks are recorded and replayed by Trace_ContextInvoke.
N  NESTED PROGRAMS inside ONE top-level invocation (round 7, ContextInvoke!ProgInv): a driver module runs a
   sequence of steps - nested invocations reached through frame:preprocess / an argument expanded when it is
   read / frame:expandTemplate that write or read a global, string.* / table.* fields, module-level and
   require()d state; own reads and writes of the caller; nested drivers running a sub-program.  G: TLC
   enumerates the nest cases (NCASE) with the demanded outcome of every step; V: random programs are
   recorded and replayed by Trace_ContextInvoke.  What a nested invocation writes must be visible neither
   to the rest of its caller nor to a later sibling.
O  OPTIONS OF ONE CALL as cells (round 8, Context.tla OptCells): the arguments of expand() / parse() (timeout,
   expand_invoke, expand_parserfns, pre_expand, templates_to_expand / _to_not_expand / additional_expand /
   do_not_pre_expand, template_fn / post_template_fn, expand_all, quiet) vary between the pages of a history: writer
   kinds process one probe text with one option set, reader kinds the same text with the defaults; slowModule (a
   module that runs 1-2 s) is the reader of the time limit.  Expected: the fresh context.  A difference the model
   with the deviations TimeLimitKept / CallOptionsKept explains is NAMED by it (which option of which earlier call);
   a verdict about a kind that depends on wall-clock time is re-executed alone before it is believed.
H  OBJECTS HANDED OUT by the constructors of the retained libraries (round 9; ContextInvoke!ObjKinds, Context!lobjects):
   writer kinds obtain an object (mw.title.new / makeTitle / getCurrentTitle / basePageTitle / subPageTitle, mw.language.new /
   getContentLanguage, mw.html.create, mw.message.new) and write its writable fields, reader kinds obtain the object of the
   same request again - later on the same page, after a page break, through another constructor - and report them.
   Demanded: what a fresh context hands out.  Deviations: HandedOutObjectsMemoised (class of a seeded change),
   ContentLanguageObjectShared (as-is: ONE content-language object per Lua runtime; candidate finding until listed).
"""
from __future__ import annotations

import json
import multiprocessing as mp
import random
import re
import time
from pathlib import Path

import common
import luastub
from common import Outcome, Scratch, pmap, tlc

PID = "C09"

MODULE_S = r"""
local p = {}
function p.global(frame) local before = tostring(LEAKED) LEAKED = "set" return "g:" .. before end
function p.str(frame) local before = tostring(string.leaked) string.leaked = "set" return "s:" .. before end
function p.smeta(frame)
  local before = tostring(("x").leaked)
  local mt = getmetatable("")
  if mt and type(mt.__index) == "table" then mt.__index.leaked = "set" end
  return "m:" .. before
end
function p.required(frame) local d = require("Module:Data") local before = tostring(d.leaked) d.leaked = "set" return "r:" .. before end
function p.retained(frame) local before = tostring(mw.text.leaked) mw.text.leaked = "set" return "t:" .. before end
function p.loaddata(frame)
  local d = mw.loadData("Module:Data")
  local before = tostring(d.leaked) .. "/" .. tostring(d.n)
  pcall(function() d.leaked = "set" end)
  pcall(function() rawset(d, "leaked", "set") end)
  return "d:" .. before
end
function p.loadjson(frame)
  local d = mw.loadJsonData("Module:J.json")
  local before = tostring(d.leaked) .. "/" .. tostring(d.list and #d.list)
  pcall(function() d.leaked = "set" end)
  pcall(function() table.insert(d.list, "x") end)
  return "j:" .. before
end
function p.strip(frame) return frame:extensionTag("nowiki", "x") .. frame:extensionTag("nowiki", "y") end
function p.err(frame) error("boom") end
function p.loop(frame) while true do end end
return p
"""
MODULE_DATA = "return { n = 1 }\n"
# the reader of the time limit: spins until the clock of the sandbox (granules of 1 s) has advanced twice, i.e. for
# 1-2 s of wall-clock time: longer than any small limit of a writer (< 1 s: over at the first tick), far below the
# default of 60 s
MODULE_SLOW = """
local p = {}
function p.f(frame)
  local t0 = os.time()
  local n = 0
  while os.time() - t0 < 2 do n = n + 1 end
  return "slow-done"
end
return p
"""
SMALL_LIMIT = 0.5
# the probe text of the option kinds: a template, a parser function, an #invoke, a template marked as needing
# pre-expansion, an undefined template, a failing #invoke (messages), a template with <nowiki>
PROBE = "a{{T1|x}}b{{#if:1|yes|no}}c{{#invoke:S|global}}d{{Pre}}e{{Undefined template}}f{{#invoke:S|err}}g{{Nw}}h\n* {{T1|\'\'y}}"


def _probe_template_fn(name, ht):
    return "<TF %s %s>" % (name, sorted(ht.items(), key=str)) if name == "T1" else None


def _probe_post_template_fn(name, ht, expanded):
    return "<PT %s %s>" % (name, expanded) if name in ("Pre", "Nw") else None


PAGES = {
    "unclosedMarkup": ("parse", "'''bold ''it\n* item [[link|te\n== h ==\n<span>x", {}),
    "unclosedTable": ("parse", "{|\n! h\n|-\n| a || b\n* x", {}),
    "preTag": ("parse", "<pre>\n* not list\n {{T1|a}}", {}),
    "manyCalls": ("expand", "".join("{{T1|%d}}" % i for i in range(130)), {}),
    "templateLoop": ("expand", "x{{A}}y{{T1|{{A}}}}", {}),
    "templateNowiki": ("expand", "[[l|t]]{{Nw}}{{T1|a}}{{Nw}}", {}),
    "sectionError": ("section-expand", "{{#invoke:S|err}}{{A}}", {}),
    "luaGlobal": ("expand", "{{#invoke:S|global}}{{#invoke:S|global}}", {}),
    "luaString": ("expand", "{{#invoke:S|str}}{{#invoke:S|str}}", {}),
    "luaStringMeta": ("expand", "{{#invoke:S|smeta}}{{#invoke:S|smeta}}", {}),
    "luaRequired": ("expand", "{{#invoke:S|required}}{{#invoke:S|required}}", {}),
    "luaRetained": ("expand", "{{#invoke:S|retained}}{{#invoke:S|retained}}", {}),
    "luaHandedOut": ("expand", "{{#invoke:PObj|objects}}{{#invoke:PObj|objects}}", {}),     # (round 9) Context!lobjects
    "luaLoadData": ("expand", "{{#invoke:S|loaddata}}{{#invoke:S|loaddata}}", {}),
    "luaLoadJson": ("expand", "{{#invoke:S|loadjson}}{{#invoke:S|loadjson}}", {}),
    "luaStripMarker": ("expand", "{{#invoke:S|strip}}", {}),
    "luaError": ("expand", "a{{#invoke:S|err}}b{{#invoke:S|nofn}}c", {}),
    "luaTimeout": ("expand", "a{{#invoke:S|loop}}b", {"timeout": 1}),
    "parseExpandAll": ("parse", "== h ==\n{{T1|'''x}}\n* {{T1|y}}\n{|\n| {{A}}\n|}", {"expand_all": True}),
    "otherContextWithExtTags": ("other", "", {}),
    "otherContextRedefiningTag": ("other2", "", {}),
    "extTagPage": ("parse", "<foo a=b>x</foo> <hiero>y</hiero> <span>z</span>\n<references>\n<ref name=r>t</ref>\n</references>\n<br>w</br>", {}),
    # ---- options of one call (Context!OptKinds): writers = the probe text with one option set, readers = defaults ----
    "optProbe": ("expand", PROBE, {}),
    "optParseProbe": ("parse", PROBE, {}),
    "optTimeLimit": ("expand", PROBE, {"timeout": SMALL_LIMIT}),
    "optNoInvoke": ("expand", PROBE, {"expand_invoke": False}),
    "optNoParserFns": ("expand", PROBE, {"expand_parserfns": False}),
    "optPreExpand": ("expand", PROBE, {"pre_expand": True}),
    "optTemplateSets": ("expand", PROBE, {"pre_expand": True, "templates_to_expand": {"T1", "Nw"}, "templates_to_not_expand": {"Pre"}}),
    "optTemplateFns": ("expand", PROBE, {"template_fn": _probe_template_fn, "post_template_fn": _probe_post_template_fn}),
    "optQuiet": ("expand", PROBE, {"quiet": True}),
    "optAll": ("expand", PROBE, {"expand_invoke": False, "expand_parserfns": False, "pre_expand": True, "templates_to_expand": {"T1"},
                                 "templates_to_not_expand": {"Pre"}, "template_fn": _probe_template_fn,
                                 "post_template_fn": _probe_post_template_fn, "quiet": True}),
    "optParsePreExpand": ("parse", PROBE, {"pre_expand": True, "additional_expand": {"T1"}, "do_not_pre_expand": {"Nw"}}),
    "optParseHooks": ("parse", PROBE, {"expand_all": True, "template_fn": _probe_template_fn, "post_template_fn": _probe_post_template_fn}),
    "slowModule": ("expand", "s{{#invoke:Slow|f}}t", {}),
}
# kinds whose result depends on wall-clock time: kept rare by the generator (Gen_Context!SlowOK), never in the random
# histories, and a difference on them is re-executed alone before it is believed
SLOW_KINDS = ("luaTimeout", "slowModule")
OPTION_KINDS = sorted(k for k in PAGES if k.startswith("opt"))
# a difference on these pages can be a matter of the clock (they wait for it, or their own call runs under a small limit)
TIMING_KINDS = set(SLOW_KINDS) | {k for k, v in PAGES.items() if "timeout" in v[2]}
OPT_CELLS = {"otimelimit": "timeout=", "oinvoke": "expand_invoke=", "oparserfns": "expand_parserfns=", "opreexpand": "pre_expand=",
             "otmplsets": "templates_to_expand= / templates_to_not_expand= / additional_expand= / do_not_pre_expand=",
             "otmplfns": "template_fn= / post_template_fn=", "oexpandall": "expand_all=", "oquiet": "quiet="}


# kind -> cells of Context!OptCells its call sets (only to word the why; the expected values come from TLC)
_ARG_CELL = {"timeout": "otimelimit", "expand_invoke": "oinvoke", "expand_parserfns": "oparserfns", "pre_expand": "opreexpand",
             "templates_to_expand": "otmplsets", "templates_to_not_expand": "otmplsets", "additional_expand": "otmplsets",
             "do_not_pre_expand": "otmplsets", "template_fn": "otmplfns", "post_template_fn": "otmplfns", "expand_all": "oexpandall",
             "quiet": "oquiet"}
OPTION_SETS = {k: {_ARG_CELL[a] for a in v[2]} for k, v in PAGES.items()}


def _opts_text(kind):
    return ", ".join("%s=%s" % (a, sorted(v) if isinstance(v, set) else getattr(v, "__name__", v)) for a, v in PAGES[kind][2].items())


def make_ctx(path):
    from wikitextprocessor import Wtp

    return Wtp(db_path=str(path), quiet=True, quiet_output=True)


def populate(path):
    ctx = make_ctx(path)
    luastub.install(ctx)
    luastub.add_module(ctx, "S", MODULE_S)
    luastub.add_module(ctx, "Data", MODULE_DATA)
    ctx.add_page("Module:J.json", 828, body='{"n": 1, "list": ["noun"]}', model="json")
    ctx.add_page("Template:T1", 10, body="({{{1}}})")
    ctx.add_page("Template:Nw", 10, body="n<nowiki>[[q]] {{T1|z}}</nowiki>w<!-- c -->")
    ctx.add_page("Template:A", 10, body="{{B}}")
    ctx.add_page("Template:B", 10, body="[{{A}}]")
    luastub.add_module(ctx, "Slow", MODULE_SLOW)
    luastub.add_module(ctx, "PObj", PAGE_OBJ_MODULE)
    ctx.add_page("Template:Pre", 10, body="[pre {{T1|p}}]", need_pre_expand=True)
    ctx.db_conn.commit()
    ctx.db_conn.close()


def dump(node):
    if isinstance(node, str):
        return node
    return [node.kind.name, str(getattr(node, "sarg", "")), [[dump(x) for x in a] for a in (node.largs or [])],
            sorted((node.attrs or {}).items()), [dump(c) for c in node.children]]


def msgs(ctx):
    r = ctx.to_return()
    return {k: [(m["msg"], m["title"], m["section"], m["called_from"], tuple(m["path"])) for m in v] for k, v in r.items()}


def process(ctx, kind, scratch, n):
    """One page: start_page + the action; returns the observable result."""
    mode, text, opts = PAGES[kind]
    if mode == "other":
        from wikitextprocessor import Wtp

        other = Wtp(db_path=str(Path(scratch) / f"other{n}" / "o.db") if (Path(scratch) / f"other{n}").mkdir() is None else None,
                    quiet=True, quiet_output=True, extension_tags={"foo": {"parents": ["phrasing"], "content": ["phrasing"]}})
        other.db_conn.close()
        return ["other-context-created"]
    if mode == "other2":
        from wikitextprocessor import Wtp

        (Path(scratch) / f"other{n}").mkdir()
        other = Wtp(db_path=str(Path(scratch) / f"other{n}" / "o.db"), quiet=True, quiet_output=True,
                    extension_tags={"references": {"parents": ["flow"], "content": ["flow", "phrasing"], "no-end-tag": True},
                                    "br": {"parents": ["phrasing"], "content": ["phrasing"]}})
        other.db_conn.close()
        return ["other-context-created"]
    ctx.start_page("Page " + kind)
    try:
        if mode == "parse":
            res = dump(ctx.parse(text, **opts))
        elif mode == "section-expand":
            ctx.start_section("Sec")
            res = ctx.expand(text, **opts)
        else:
            res = ctx.expand(text, **opts)
    except Exception as e:  # noqa: BLE001
        res = "EXCEPTION " + repr(e)
    return [res, msgs(ctx), list(ctx.expand_stack), len(ctx.parser_stack)]


def run_history(args):
    """Runs in a fresh process (module-level state of the library must start fresh)."""
    hist, dbdir = args
    common.use_repo()
    out = []
    with Scratch("c09h-") as d:
        import shutil

        shutil.copytree(dbdir, d / "db")
        ctx = make_ctx(d / "db" / "pages.db")
        try:
            for n, kind in enumerate(hist):
                out.append(process(ctx, kind, d, n))
        finally:
            ctx.db_conn.close()
    return out


def run_many(items, nproc=16):
    ctx = mp.get_context("fork")
    with ctx.Pool(nproc, maxtasksperchild=1) as pool:
        return pool.map(run_history, items, chunksize=1)


# --------------------------------------------------------------------------
# I: invocation-level histories inside one page (spec/ContextInvoke.tla)
# --------------------------------------------------------------------------
INV_MODULES = {
    "Ctr": 'local p = {}\nlocal n = 0\nfunction p.bump(frame) n = n + 1 return "c=" .. n end\n'
           'function p.bump2(frame) n = n + 1 n = n + 1 return "c=" .. n end\n'
           'function p.peek(frame) return "c=" .. n end\nfunction p.inc() n = n + 1 return n end\nreturn p\n',
    "Req": 'local p = {}\nfunction p.reqbump(frame) return "r=" .. require("Module:Ctr").inc() end\nreturn p\n',
    "G": 'local p = {}\nfunction p.gset(frame) local b = tostring(MARK) MARK = "set" return "g=" .. b end\n'
         'function p.gget(frame) return "g=" .. tostring(MARK) end\nreturn p\n',
    "R": 'local p = {}\nfunction p.rget(frame) return "x=" .. tostring(MARK) end\nreturn p\n',
    "Str": 'local p = {}\nfunction p.sset(frame) local b = tostring(string.leaked) string.leaked = "set" return "s=" .. b end\n'
           'function p.sget(frame) return "s=" .. tostring(string.leaked) end\nreturn p\n',
    "F": 'local p = {}\nfunction p.err(frame) error("boom") end\nfunction p.badutf(frame) return "\\255\\254" end\n'
         'function p.loop(frame) while true do end end\n'
         # runs until the clock of the sandbox (granules of 1 s) has advanced twice: 1-2 s, longer than INV_TIMEOUT, far below the default
         'function p.slow(frame) local t0 = os.time() while os.time() - t0 < 2 do end return "w=done" end\nreturn p\n',
    "LD": 'local p = {}\n'
          'local function wr(d) local b = tostring(d.x) pcall(function() d.x = "set" end) return "d=" .. b end\n'
          'function p.ldset(frame) return wr(mw.loadData("Module:LDdata")) end\n'
          'function p.ldget(frame) return "d=" .. tostring(mw.loadData("Module:LDdata").x) end\n'
          'function p.ljset(frame) return wr(mw.loadJsonData("Module:LJ.json")) end\n'
          'function p.ljget(frame) return "d=" .. tostring(mw.loadJsonData("Module:LJ.json").x) end\n'
          'return p\n',
    "LDdata": 'return { x = "init", list = { "a", "b" } }\n',
    "Nil": "return nil\n",
    "Syn": "local p = {\n",
    "Bad": 'error("load boom")\n',
    "N": 'local p = {}\n'
         'function p.nest(frame) MARK = "set" return "n[" .. frame:preprocess("{{#invoke:" .. frame.args[1] .. "|" .. frame.args[2] .. "}}") .. "]" end\n'
         'function p.tnest(frame) MARK = "set" return "n[" .. frame:expandTemplate{title = "Inv", args = {frame.args[1], frame.args[2]}} .. "]" end\n'
         'return p\n',
    "Tab": 'local p = {}\nfunction p.tset(frame) local b = tostring(table.leaked) table.leaked = "set" return "t=" .. b end\n'
           'function p.tget(frame) return "t=" .. tostring(table.leaked) end\nreturn p\n',
    "V": 'local p = {}\nfunction p.view(frame) return "v=" .. tostring(MARK) .. "," .. tostring(string.leaked) .. "," .. tostring(table.leaked) end\n'
         'return p\n',
}
# the driver of the nested programs: every argument is one step, taken in order.  "P:Mod:fn[:a;b;..]" /
# "T:Mod:fn[:a;b;..]" make a nested #invoke through frame:preprocess / frame:expandTemplate (in the extra
# arguments "~" stands for ":"), "O" reports the three cells as this invocation sees them, "Wg"/"Ws"/"Wt" set
# one of them, any other text is the expansion of an argument that was itself an #invoke (arguments are
# expanded when frame.args[i] is read, i.e. from inside this running call)
NEST_DRIVER = r"""
local p = {}
function p.run(frame)
  local out = {}
  local i = 1
  while true do
    local a = frame.args[i]
    if a == nil then break end
    if a ~= "" then
      local via, mod, fn, rest = a:match("^([PT]):(%w+):(%w+):?(.*)$")
      if via then
        local extra = {}
        for x in rest:gmatch("[^;]+") do extra[#extra + 1] = (x:gsub("~", ":")) end
        if via == "P" then
          local text = "{{#invoke:" .. mod .. "|" .. fn
          for _, x in ipairs(extra) do text = text .. "|" .. x end
          out[#out + 1] = frame:preprocess(text .. "}}")
        else
          local targs = {mod, fn}
          for _, x in ipairs(extra) do targs[#targs + 1] = x end
          out[#out + 1] = frame:expandTemplate{title = "@T@", args = targs}
        end
      elseif a == "O" then out[#out + 1] = "o=" .. tostring(MARK) .. "," .. tostring(string.leaked) .. "," .. tostring(table.leaked)
      elseif a == "Wg" then MARK = "@W@" out[#out + 1] = "w"
      elseif a == "Ws" then string.leaked = "@W@" out[#out + 1] = "w"
      elseif a == "Wt" then table.leaked = "@W@" out[#out + 1] = "w"
      else out[#out + 1] = a end
    end
    i = i + 1
  end
  return "[" .. table.concat(out, "/") .. "]"
end
return p
"""
# (round 9) objects handed out by the constructors of the retained libraries (ContextInvoke!ObjKinds): ow_<c> obtains an
# object from constructor c, reports the state of its writable fields and writes them; or_<c> obtains and reports.
# Fields: `fragment` (documented as writable for title objects) where the object has one, and a field of the module's own.
OBJ_TARGET = "Obj target"
OBJ_CTORS = {
    "tnew": 'mw.title.new(T)', "tmake": 'mw.title.makeTitle(0, T)', "tbase": 'mw.title.new(T .. "/sub").basePageTitle',
    "tcur": 'mw.title.getCurrentTitle()', "tsub": 'mw.title.new(T):subPageTitle("sub")',
    "lnew": 'mw.language.new("en")', "lcont": 'mw.language.getContentLanguage()',
    "html": 'mw.html.create("div")', "msg": 'mw.message.new("obj-msg")',
}
INV_MODULES["Obj"] = (
    'local p = {}\nlocal T = "%s"\nlocal ctors = {\n' % OBJ_TARGET
    + "".join('  %s = function() return %s end,\n' % kv for kv in sorted(OBJ_CTORS.items()))
    + r"""}
local function state(o)
  if type(o) ~= "table" then return "noobject" end
  local own, frag = o.leaked, o.fragment
  if own == nil and (frag == nil or frag == "") then return "init" end
  if own == "set" or frag == "set" then return "set" end
  return "other"
end
for c, make in pairs(ctors) do
  p["or_" .. c] = function(frame) return "o=" .. state(make()) end
  p["ow_" .. c] = function(frame)
    local o = make()
    local before = state(o)
    if type(o) == "table" then
      if o.fragment ~= nil then o.fragment = "set" end
      o.leaked = "set"
    end
    return "o=" .. before
  end
end
return p
""")
# page level (Context.tla, cell lobjects): ONE page kind obtains an object from every constructor (but the content-language
# one, see OBJ_DEV), reports its writable fields as it was handed out and then writes them
PAGE_OBJ_MODULE = (
    'local p = {}\nlocal T = "%s"\nlocal ctors = {\n' % OBJ_TARGET
    + "".join('  {"%s", function() return %s end},\n' % kv for kv in sorted(OBJ_CTORS.items()) if kv[0] != "lcont")
    + r"""}
function p.objects(frame)
  local out = {}
  for _, c in ipairs(ctors) do
    local o = c[2]()
    out[#out + 1] = c[1] .. "=" .. tostring(o.leaked) .. "/" .. tostring(o.fragment)
    if o.fragment ~= nil then o.fragment = "set" end
    o.leaked = "set"
  end
  return "o:" .. table.concat(out, ",") .. ";"
end
return p
""")
OBJ_KINDS = {pre + c for c in OBJ_CTORS for pre in ("ow_", "or_")}
OBJ_DEV = "ContentLanguageObjectShared"
# kinds after which the context hands the written object out again ON THE UNCHANGED TREE (as-is deviation OBJ_DEV): a history
# with one of them gets a context of its own (the engine runs many histories on one long-lived context, one page each)
OBJ_CONTAMINATING = {"ow_lcont"}
OBJ_WRITERS = {"ow_" + c for c in OBJ_CTORS}
INV_MODULES["Nest"] = NEST_DRIVER.replace("@W@", "own").replace("@T@", "InvA")
INV_MODULES["Nest2"] = NEST_DRIVER.replace("@W@", "sub").replace("@T@", "InvB")     # (InvA inside InvA would be a template loop)
NEST_MAXARGS = 4            # Template:InvA hands on four arguments
# kind of ContextInvoke.tla -> (module, function) of the concrete #invoke
INV_SIMPLE = {
    "bump": ("Ctr", "bump"), "bump2": ("Ctr", "bump2"), "peek": ("Ctr", "peek"), "reqbump": ("Req", "reqbump"),
    "gset": ("G", "gset"), "gget": ("G", "gget"), "rget": ("R", "rget"), "sset": ("Str", "sset"), "sget": ("Str", "sget"),
    "ldset": ("LD", "ldset"), "ldget": ("LD", "ldget"), "ljset": ("LD", "ljset"), "ljget": ("LD", "ljget"),
    "nofn": ("F", "nofn"), "err": ("F", "err"), "loaderr": ("Bad", "f"), "nomod": ("Nomod", "f"), "nilmod": ("Nil", "f"),
    "synmod": ("Syn", "f"), "badutf": ("F", "badutf"), "timeout": ("F", "loop"),
    # (round 8) the time limit as an option of the call
    "lim_peek": ("Ctr", "peek"), "slow": ("F", "slow"), "lim_slow": ("F", "slow"),
}
INV_SIMPLE.update({k: ("Obj", k) for k in OBJ_KINDS})
INV_LIMITED = {"timeout", "lim_peek", "lim_slow"}       # ContextInvoke!Limited: the call of these kinds is given timeout=INV_TIMEOUT
INV_SLOW = {"timeout", "slow", "lim_slow"}              # wait for the clock of the sandbox (seconds)
# kinds that only make sense with one expand() per invocation (the option set belongs to the CALL)
INV_CALLS_ONLY = {"page", "lim_peek", "slow", "lim_slow"}
INV_PREFIX = {"lim_peek": "c=", "slow": "w=", "lim_slow": "w=", "bump": "c=", "bump2": "c=", "peek": "c=", "reqbump": "r=", "gset": "g=", "gget": "g=", "rget": "x=", "sset": "s=", "sget": "s=",
              "ldset": "d=", "ldget": "d=", "ljset": "d=", "ljget": "d="}
INV_PREFIX.update({k: "o=" for k in OBJ_KINDS})
# kinds that occur only as nested steps of a program
NEST_ONLY = {"tset": ("Tab", "tset"), "tget": ("Tab", "tget"), "view": ("V", "view")}
NEST_PREFIX = dict(INV_PREFIX, tset="t=", tget="t=", view="v=")
INV_TIMEOUT = 0.05   # seconds; the sandbox clock has 1 s granules, so the loop is stopped within about a second
INV_RENDERINGS = ("calls", "text", "tmpl")
INV_SEP = " ; "


def inv_inner(kind):
    via, inner = kind.split("_", 1)
    return ("nest" if via == "n" else "tnest"), inner


def nest_modfn(k):
    return ("Nest2", "run") if k == "prog" else INV_SIMPLE.get(k) or NEST_ONLY[k]


def nest_arg(st, top=True):
    """Argument of the driver that stands for one step.  top=False: inside the extra arguments of a "P:" / "T:" step."""
    if st["via"] == "own":
        return st["k"]
    mod, fn = ("Nest2", "run") if st["k"] == "prog" else nest_modfn(st["k"])
    if st["via"] == "A":        # the argument itself is an #invoke
        assert top, "an argument that is an #invoke cannot be written inside a P:/T: step"
        return "{{#invoke:%s|%s%s}}" % (mod, fn, "".join("|" + nest_arg(x) for x in st["sub"]))
    a = "%s:%s:%s" % (st["via"], mod, fn)
    if st["sub"]:
        assert len(st["sub"]) <= NEST_MAXARGS
        a += ":" + ";".join(nest_arg(x, False).replace(":", "~") for x in st["sub"])
    assert top or "~" not in a
    return a


def nest_text(prog):
    return "{{#invoke:Nest|run%s}}" % "".join("|" + nest_arg(st) for st in prog)


def nest_render(outs):
    """Concrete text the model outcome of a program stands for."""
    parts = []
    for x in outs:
        if x["k"] == "prog":
            parts.append(nest_render(x["sub"]))
        elif x["via"] == "own":
            parts.append("o=" + ",".join(x["vals"]) if x["k"] == "O" else "w")
        else:
            parts.append(NEST_PREFIX[x["k"]] + ",".join(x["vals"]))
    return "[" + "/".join(parts) + "]"


def nest_abstract(prog, text):
    """Observed text of a program -> step records in the shape of ContextInvoke!StepOut (anything unexpected -> k 'other')."""
    pos = 0

    def other(t):
        return [{"via": "own", "k": "other", "vals": [t[:80]], "sub": []}]

    def items():        # "[" item ("/" item)* "]" with item = "[...]" | token
        nonlocal pos
        if pos >= len(text) or text[pos] != "[":
            raise ValueError
        pos += 1
        res = []
        if text[pos:pos + 1] == "]":
            pos += 1
            return res
        while True:
            if text[pos:pos + 1] == "[":
                res.append(items())
            else:
                m = re.compile(r"[^\[\]/]*").match(text, pos)
                res.append(m.group(0))
                pos = m.end()
            if text[pos:pos + 1] == "/":
                pos += 1
            elif text[pos:pos + 1] == "]":
                pos += 1
                return res
            else:
                raise ValueError

    def fit(steps, got):
        if len(steps) != len(got):
            raise ValueError
        res = []
        for st, g in zip(steps, got):
            if st["k"] == "prog":
                if not isinstance(g, list):
                    raise ValueError
                res.append({"via": st["via"], "k": "prog", "vals": [], "sub": fit(st["sub"], g)})
                continue
            if isinstance(g, list):
                raise ValueError
            if st["via"] == "own" and st["k"] != "O":
                res.append({"via": "own", "k": st["k"], "vals": [] if g == "w" else [g[:80]], "sub": []})
                continue
            pre = "o=" if st["via"] == "own" else NEST_PREFIX[st["k"]]
            n = 3 if st["k"] in ("O", "view") else 1
            vals = g[len(pre):].split(",") if g.startswith(pre) else []
            if len(vals) != n or not all(re.fullmatch(r"\w+", v) for v in vals):
                vals = ["other:" + g[:80]]
            res.append({"via": st["via"], "k": st["k"], "vals": vals, "sub": []})
        return res

    try:
        tree = items()
        if pos != len(text):
            raise ValueError
        return fit(prog, tree)
    except (ValueError, IndexError):
        return other(text)


def nest_walk(exp, got, path=()):
    """Pairs (path, expected leaf step, observed leaf step) in order; a structural mismatch ends the walk with got = None."""
    if len(exp) != len(got):
        yield path, exp[0] if exp else None, None
        return
    for i, (e, g) in enumerate(zip(exp, got)):
        if e["k"] != g["k"] or e["via"] != g["via"]:
            yield path + (i + 1,), e, None
            return
        if e["k"] == "prog":
            yield from nest_walk(e["sub"], g["sub"], path + (i + 1,))
        else:
            yield path + (i + 1,), e, g


def nest_leaks(e, g):
    """The observed step shows a value that only ANOTHER invocation can have written: "set" (nested writers) or
    "sub" (own write of a nested driver) where the model has another value, or a counter above the model's."""
    if g is None or len(e["vals"]) != len(g["vals"]):
        return False
    for a, b in zip(e["vals"], g["vals"]):
        if a != b and (b in ("set", "sub") or (a.isdigit() and b.isdigit() and int(b) > int(a))):
            return True
    return False


def inv_text(kind, rendering):
    if isinstance(kind, dict):      # a nested program (the one top-level invocation of the driver)
        return nest_text(kind["prog"])
    if kind in INV_SIMPLE:
        mod, fn = INV_SIMPLE[kind]
        args = ""
    else:
        outer, inner = inv_inner(kind)
        mod, fn = "N", outer
        args = "|%s|%s" % INV_SIMPLE[inner]
    if rendering == "tmpl":     # the #invoke sits in the body of a template (parent frame present)
        return "{{Call|%s|%s%s}}" % (mod, fn, args)
    return "{{#invoke:%s|%s%s}}" % (mod, fn, args)


def inv_render(o, kind=None, res=None, v=None):
    """Concrete text the model outcome stands for."""
    kind = kind or o["k"]
    res = res or o["res"]
    v = o["v"] if v is None else v
    if kind not in INV_SIMPLE:
        _, inner = inv_inner(kind)
        return "n[" + inv_render(o, inner, o["ires"], o["iv"]) + "]"
    mod, fn = INV_SIMPLE[kind]
    if res == "val":
        return INV_PREFIX[kind] + v
    if res == "empty":
        return ""
    word = "timeout" if res == "timeout" else "execution"
    return '<strong class="error">Lua %s error in Module:%s function %s</strong>' % (word, mod, fn)


_INV_ERR = re.compile(r'<strong class="error">Lua (execution|timeout) error in Module:(\w+) function (\w+)</strong>')


def inv_abstract(kind, text):
    """Observed text -> record shape of ContextInvoke!Out (V direction); anything unexpected -> res 'other'."""
    def simple(k, t):
        if t == "":
            return "empty", ""
        m = _INV_ERR.fullmatch(t)
        if m:
            if (m.group(2), m.group(3)) != INV_SIMPLE[k]:
                return "other", t[:60]
            return ("timeout" if m.group(1) == "timeout" else "err"), ""
        pre = INV_PREFIX.get(k)
        if pre and t.startswith(pre) and re.fullmatch(r"\w+", t[len(pre):]):
            return "val", t[len(pre):]
        return "other", t[:60]

    if kind == "page":
        return {"k": kind, "res": "page", "v": "", "ires": "none", "iv": ""}
    if kind in INV_SIMPLE:
        res, v = simple(kind, text)
        return {"k": kind, "res": res, "v": v, "ires": "none", "iv": ""}
    _, inner = inv_inner(kind)
    if text.startswith("n[") and text.endswith("]"):
        ires, iv = simple(inner, text[2:-1])
        return {"k": kind, "res": "val", "v": "", "ires": ires, "iv": iv}
    return {"k": kind, "res": "other", "v": text[:60], "ires": "none", "iv": ""}


def inv_populate(path):
    ctx = make_ctx(path)
    luastub.install(ctx)
    for name, src in INV_MODULES.items():
        luastub.add_module(ctx, name, src)
    ctx.add_page("Module:LJ.json", 828, body='{"x": "init", "list": ["a", "b"]}', model="json")
    ctx.add_page("Template:Inv", 10, body="{{#invoke:{{{1}}}|{{{2}}}}}")
    ctx.add_page("Template:Call", 10, body="{{#invoke:{{{1}}}|{{{2}}}|{{{3|}}}|{{{4|}}}}}")
    for name in ("InvA", "InvB"):
        ctx.add_page("Template:" + name, 10, body="{{#invoke:{{{1}}}|{{{2}}}|{{{3|}}}|{{{4|}}}|{{{5|}}}|{{{6|}}}}}")
    ctx.db_conn.commit()
    ctx.db_conn.close()


def inv_run_one(ctx, title, hist, rendering):
    """One history on one page of ctx; returns the text of every invocation ('' for a page break)."""
    ctx.start_page(title)
    try:
        if rendering == "calls":
            out = []
            for j, kind in enumerate(hist):
                if kind == "page":
                    ctx.start_page(title + "/%d" % j)
                    out.append("")
                else:
                    out.append(ctx.expand(inv_text(kind, "calls"), timeout=INV_TIMEOUT if isinstance(kind, str) and kind in INV_LIMITED else None))
            return out
        text = INV_SEP.join(inv_text(k, rendering) for k in hist)
        got = ctx.expand(text, timeout=INV_TIMEOUT if any(k in INV_LIMITED for k in hist if isinstance(k, str)) else None)
        parts = got.split(INV_SEP)
        return parts if len(parts) == len(hist) else ["UNSPLITTABLE " + got[:300]] * len(hist)
    except Exception as e:  # noqa: BLE001
        return ["EXCEPTION " + repr(e)[:300]] * len(hist)


def inv_worker(chunk):
    """chunk = [(dbdir, id, hist, rendering, expected-or-None)].  One long-lived context per chunk, one page
    per history; a history whose result differs from the expectation is run again on a fresh context so
    that the report can tell state kept inside the page from state kept across pages."""
    common.use_repo()
    import shutil

    res = []
    reruns = 0
    with Scratch("c09i-") as d:
        shutil.copytree(chunk[0][0], d / "db")
        ctx = make_ctx(d / "db" / "pages.db")
        try:
            for n, (_, hid, hist, rendering, expected) in enumerate(chunk):
                got = inv_run_one(ctx, "Inv %s" % hid, hist, rendering)
                again = None
                if expected is not None and got != expected and reruns < 3:
                    reruns += 1
                    shutil.copytree(chunk[0][0], d / ("f%d" % n))
                    f = make_ctx(d / ("f%d" % n) / "pages.db")
                    try:
                        again = inv_run_one(f, "Inv %s" % hid, hist, rendering)
                    finally:
                        f.db_conn.close()
                res.append((got, again))
        finally:
            ctx.db_conn.close()
    return res


def _inv_chunks(chunks):
    return [inv_worker(c) for c in chunks]


def inv_pmap(items, chunk):
    """pmap(inv_worker) in which every history that waits for the clock is a chunk of its own (they spread over the workers)."""
    # (a history with a writer of a handed-out object gets a context of its own: what the model with the named deviations
    # predicts for the HISTORY can then be compared with the whole run; later pages are part of the histories: kind "page")
    slow = [i for i, it in enumerate(items) if any(isinstance(k, str) and (k in INV_SLOW or k in OBJ_WRITERS) for k in it[2])]
    rest = [i for i in range(len(items)) if i not in set(slow)]
    groups = [[i] for i in slow] + [rest[j:j + chunk] for j in range(0, len(rest), chunk)]
    res = pmap(_inv_chunks, [[items[i] for i in g] for g in groups], chunk=1)
    out = [None] * len(items)
    for g, r in zip(groups, res):
        for i, x in zip(g, r):
            out[i] = x
    return out


def inv_trace_run(histories, progs=()):
    """progs = [{"case": {pre, prog, post}, "got": {pre, prog, post}}]: recorded nest cases (judged as NCASE)."""
    with Scratch("c09it-") as dd:
        tf = dd / "h.json"
        tf.write_text(json.dumps({"hists": histories, "progs": list(progs)}))
        return tlc("Trace_ContextInvoke", "t.cfg", cfg_text="SPECIFICATION TSpec\nINVARIANT Emit\nCHECK_DEADLOCK FALSE\n",
                   workers=1, env={"TRACE_FILE": str(tf)}, timeout=1800)


NEST_DEV = "NestedInvokeSharesLoadedModules"
NEST_WHY_SHARED = ("; the model with the deviation NestedSharesCallerEnv (a nested #invoke runs in the environment of its caller "
                   "itself instead of in a clone of it) predicts exactly the observed outputs")
VIA_WORDS = {"P": "frame:preprocess", "A": "an argument expanded when the function reads it", "T": "frame:expandTemplate",
             "own": "the running invocation itself"}


def nest_hist(case):
    return list(case["pre"]) + [{"prog": case["prog"]}] + list(case["post"])


def nest_expected(out):
    return [inv_render(x) for x in out["pre"]] + [nest_render(out["prog"])] + [inv_render(x) for x in out["post"]]


def nest_abstract_case(case, got):
    """Observed texts of a nest case -> record shape of ContextInvoke!CaseOutcomes."""
    n = len(case["pre"])
    return {"pre": [inv_abstract(k, t) for k, t in zip(case["pre"], got[:n])],
            "prog": nest_abstract(case["prog"], got[n]),
            "post": [inv_abstract(k, t) for k, t in zip(case["post"], got[n + 1:])]}


def nest_rand_prog(rng, top=True, via=None):
    """Random program: own writes first (a module instance that is found again keeps the environment it was
    loaded in, so a later own write would not reach it - as coded; kept out of the universe), then nested
    invocations / own reads / (top level) nested drivers."""
    kinds = ["gset", "sset", "tset", "bump", "reqbump", "gget", "sget", "tget", "view", "peek"]
    vias = ["P", "A", "T"] if top or via == "A" else ["P", "T"]
    prog = [{"via": "own", "k": rng.choice(["Wg", "Ws", "Wt"]), "sub": []} for _ in range(rng.choice([0, 0, 1, 2]))]
    for _ in range(rng.randint(2, 6) if top else rng.randint(1, NEST_MAXARGS - len(prog) - 1)):
        x = rng.random()
        if x < 0.15:
            prog.append({"via": "own", "k": "O", "sub": []})
        elif x < 0.4 and top:
            v = rng.choice(vias)
            prog.append({"via": v, "k": "prog", "sub": nest_rand_prog(rng, False, v)})
        else:
            prog.append({"via": rng.choice(vias), "k": rng.choice(kinds), "sub": []})
    prog.append({"via": "own", "k": "O", "sub": []})
    return prog


INV_WHY_KEPT = ("; the as-coded model with the deviation EnvKeptOnAbort (the environment pushed on lua_env_stack by an "
                "invocation that ends in an exception on the Python side -- missing / non-compiling / nil module, timeout, "
                "non-UTF-8 result, also nested -- is not popped, so the following top-level invocations skip "
                "_lua_reset_env) predicts exactly the observed outputs")


INV_WHY_OBJMEMO = ("; the model with the deviation HandedOutObjectsMemoised (a constructor of a retained library keeps the objects it "
                   "has built in the library - which no reset and no start_page reaches - and hands the same object out again for the "
                   "same request) predicts exactly the observed outputs")


def obj_words(kind):
    return ("the object handed out by %s (T = %r) carries field values (fragment / a field of the module's own) that ANOTHER invocation "
            "wrote into the object IT was handed: objects handed out by library constructors must carry nothing an earlier invocation "
            "wrote" % (OBJ_CTORS[kind[3:]], OBJ_TARGET))


INV_WHY_LIMKEPT = ("; the model with the deviation TimeLimitKept (the time limit given to ONE call expand(..., timeout=t) stays in the Lua "
                   "runtime and a later call that gives no limit runs under it instead of the default) predicts exactly the observed "
                   "outputs - the option set of one call must not affect later calls")


def invocation_histories(o, tier, gen, demo, dld, demos_nest):
    """gen / demo: TLCResults of Gen_ContextInvoke_<tier>.cfg and Demo_ContextInvoke_envkept.cfg."""
    thorough = tier == "thorough"
    o.add_tlc("Gen_ContextInvoke (invocation histories on one page; law MeetsDemand)", gen)
    o.extra["demo_envkept_violates_MeetsDemand"] = bool(demo.invariant_violated)
    o.extra["demo_loaddata_violates_MeetsDemand"] = bool(dld.invariant_violated)
    if not dld.invariant_violated:
        raise common.TLCError("Demo_ContextInvoke_loaddata lost its counterexample")
    if not demo.invariant_violated:
        raise common.TLCError("Demo_ContextInvoke_envkept lost its counterexample")
    cases = gen.cases
    if len(cases) < 1000:
        raise common.TLCError("Gen_ContextInvoke produced only %d cases" % len(cases))
    ncases = gen.tagged("NCASE")
    if len(ncases) < 500:
        raise common.TLCError("Gen_ContextInvoke produced only %d nest cases" % len(ncases))
    for name, r in demos_nest.items():
        o.extra["demo_%s_violates_%s" % (name, "CaseMeetsDemand" if name.startswith("nest") else "MeetsDemand_on_invocation_histories")] = bool(r.invariant_violated)
        if not r.invariant_violated:
            raise common.TLCError("Demo_ContextInvoke_%s lost its counterexample" % name)
    rng = random.Random(common.seed() * 67 + 909)
    # (OBJ_CONTAMINATING: as-is they change what LATER histories on the same context see; covered by the G histories)
    vkinds = sorted(set(INV_SIMPLE) - INV_SLOW - {"lim_peek"} - OBJ_CONTAMINATING) + ["n_nomod", "n_nilmod", "n_synmod", "n_badutf", "n_nofn", "n_err", "n_loaderr",
                                                      "n_bump", "t_nomod", "t_badutf", "t_bump", "page"]   # (the loadData kinds are in INV_SIMPLE)
    vh = [[rng.choice(vkinds) for _ in range(rng.randint(5, 12))] for _ in range(400 if thorough else 60)]
    # (round 8) random histories in which some calls are given a time limit (quick invocations only: nothing waits)
    rng8 = random.Random(common.seed() * 89 + 911)
    vh += [[rng8.choice(vkinds + ["lim_peek"] * 8) for _ in range(rng8.randint(5, 12))] for _ in range(60 if thorough else 10)]
    nrng = random.Random(common.seed() * 71 + 907)
    tops = ["gset", "sset", "bump", "reqbump", "gget", "rget", "sget", "peek", "nomod", "err", "n_bump", "n_nomod"]
    vn = [{"pre": [nrng.choice(tops) for _ in range(nrng.choice([0, 0, 1, 2]))], "prog": nest_rand_prog(nrng),
           "post": [nrng.choice(tops) for _ in range(nrng.choice([0, 1, 1, 2]))]} for _ in range(300 if thorough else 40)]
    with Scratch("c09i-") as d:
        dbdir = d / "base"
        dbdir.mkdir()
        inv_populate(dbdir / "pages.db")
        # the solo behaviour of every kind (own page, fresh context) must match the model: the
        # attribution of a difference to the HISTORY rests on it
        kinds = sorted(set(INV_SIMPLE) | {k for c in cases for k in c["hist"] if k != "page"})
        solo_items = [(dbdir, "solo-%s-%s" % (k, r), [k], r, None) for k in kinds for r in INV_RENDERINGS
                      if r == "calls" or k not in INV_CALLS_ONLY]
        solo_items.sort(key=lambda it: it[2][0] not in INV_SLOW)
        solo = {}
        for (_, _, h, r, _), (got, _) in zip(solo_items, pmap(inv_worker, solo_items, chunk=1)):
            solo[(h[0], r)] = got[0]
        items = []
        for n, c in enumerate(cases):
            exp = [inv_render(x) if x["k"] != "page" else "" for x in c["out"]]
            if any(k in INV_CALLS_ONLY for k in c["hist"]):
                rs = ("calls",)
            elif len(c["hist"]) <= 3 if thorough else (len(c["hist"]) == 2 and c["hist"][1] in INV_PREFIX and c["hist"][0] not in INV_PREFIX):
                rs = INV_RENDERINGS     # quick: the pairs <failing or nested kind, probe>
            else:       # the longer histories take the renderings in turn
                rs = (INV_RENDERINGS[n % len(INV_RENDERINGS)],)
            for r in rs:
                items.append((dbdir, "%d-%s" % (n, r), c["hist"], r, exp))
        # slow (time limit) histories first, small chunks: they spread over the workers
        items.sort(key=lambda it: not any(k in INV_SLOW for k in it[2]))
        # nest cases: all top-level invocations of the case in one text / one expand() per top-level invocation
        nitems = []
        for n, c in enumerate(ncases):
            both = thorough or c["nest"]["pre"] or c["nest"]["post"] or len(c["nest"]["prog"]) == 1
            for r in (("text", "calls") if both else (("text", "calls")[n % 2],)):
                nitems.append((dbdir, "N%d-%s" % (n, r), nest_hist(c["nest"]), r, nest_expected(c["out"])))
        vitems = [(dbdir, "v%d" % n, h, "calls", None) for n, h in enumerate(vh)]
        vitems += [(dbdir, "vn%d" % n, nest_hist(c), "calls", None) for n, c in enumerate(vn)]
        vres = pmap(inv_worker, vitems, chunk=max(1, len(vitems) // 16))
        vnres = vres[len(vh):]
        vres = vres[:len(vh)]
        # V: the recorded random histories are replayed through the model by TLC (in the background)
        from concurrent.futures import ThreadPoolExecutor

        bg = ThreadPoolExecutor(1)
        f_rv = bg.submit(inv_trace_run, [[inv_abstract(k, t) for k, t in zip(h, got)] for h, (got, _) in zip(vh, vres)],
                         [{"case": c, "got": nest_abstract_case(c, got)} for c, (got, _) in zip(vn, vnres)])
        results = inv_pmap(items + nitems, max(1, len(items + nitems) // 128))
        nresults = results[len(items):]
        results = results[:len(items)]
        # Timing rule: a history that waits for the clock and differs from the model is executed again ALONE (the
        # pools are over, the TLC job of the V direction too) before the difference is believed
        timing = {"executed_again_alone": 0, "not_confirmed": 0}
        for j, (it, (got, _)) in enumerate(zip(items, results)):
            if got != it[4] and any(k in INV_SLOW | INV_LIMITED for k in it[2]) and timing["executed_again_alone"] < 12:
                f_rv.result()
                timing["executed_again_alone"] += 1
                results[j] = inv_worker([it])[0]
                if results[j][0] == it[4]:
                    timing["not_confirmed"] += 1
                    o.note_drift({"timing_dependent_difference_not_confirmed": {"history": it[2], "rendering": it[3], "first_run": got}})
        o.extra["invocation_timing_rechecks"] = timing
    def known_loaddata(origin, hist, rendering, i, got, exp_i):
        """Invocation #i shows what the as-is model with LoadDataTableMutableWithinPage predicts (and the ideal does not)."""
        case = {"origin": origin, "rendering": rendering, "history": hist[: i + 1], "invocation": inv_text(hist[i], rendering),
                "got": got[i][:200], "model": exp_i[:200], "all_outputs": [g[:80] for g in got]}
        o.classify(case, f"invocation #{i + 1} ({hist[i]}) of one page reads {got[i][:80]!r} from the table of mw.loadData / mw.loadJsonData where "
                         f"the specification demands {exp_i!r}: the value was written by an earlier invocation of the page (the cached "
                         "table is handed out writable and the cache is only cleared by start_page)",
                   ["LoadDataTableMutableWithinPage"], cls="invocation-history:loadData")


    def known_obj(origin, hist, rendering, i, got, exp_i):
        """Invocation #i shows what the as-is model with ContentLanguageObjectShared predicts (and the ideal does not)."""
        case = {"origin": origin, "rendering": rendering, "history": hist[: i + 1], "invocation": inv_text(hist[i], rendering),
                "got": got[i][:200], "model": exp_i[:200], "all_outputs": [g[:80] for g in got]}
        why = (f"invocation #{i + 1} ({hist[i]}) gets from mw.language.getContentLanguage() an object in state {got[i][:80]!r} where the "
               f"specification demands {exp_i!r}: the fields were written by an earlier invocation (same page or an earlier page) - the "
               "library hands out ONE object, a local of the retained module mw_language, for the whole life of the Lua runtime")
        # repaired in /repo (3431c97): not listed in known_findings.json, so classify() reports it as a VIOLATION if it returns
        o.classify(case, why, [OBJ_DEV], cls="invocation-history:" + OBJ_DEV)

    def known_asis(origin, hist, rendering, i, got, exp_i):
        (known_obj if hist[i] in OBJ_KINDS else known_loaddata)(origin, hist, rendering, i, got, exp_i)

    def judge(origin, hist, rendering, i, got, exp_i, again, kept_explains, limkept_explains=False, objmemo_explains=False):
        kind = hist[i]
        case = {"origin": origin, "rendering": rendering, "history": hist[: i + 1], "invocation": inv_text(kind, rendering),
                "got": got[i][:200], "model": exp_i[:200], "alone_on_a_fresh_page": str(solo.get((kind, rendering)))[:200],
                "all_outputs": [g[:80] for g in got]}
        if solo.get((kind, rendering)) != exp_i:
            # the real code disagrees with the model already without any history: the model says more than
            # the statement (rendering of a failure ...) or the defect is not one of C09
            o.note_drift({"invocation_model_vs_code": case})
            return
        if again is None and i == 0:
            where = "earlier pages of the context"
        elif again is None:
            where = "the earlier invocations %r of the context" % (hist[:i],)
        elif again[i] == got[i]:
            where = "the earlier invocations %r of the SAME page (a fresh context running this page shows the same)" % (hist[:i],)
        else:
            where = "earlier pages of the context"
        why = (f"invocation #{i + 1} ({kind}) of one page gives {got[i][:80]!r} where the specification demands {exp_i!r} (every top-level "
               f"#invoke starts from the initial module state, and the same invocation alone gives exactly that): state left by {where} is visible to it")
        if kept_explains:
            why += INV_WHY_KEPT
        if limkept_explains:
            why += INV_WHY_LIMKEPT
        if isinstance(kind, str) and kind in OBJ_KINDS:
            why += "; " + obj_words(kind)
        if objmemo_explains:
            why += INV_WHY_OBJMEMO
        o.violation(case, why, cls="invocation-history:" + ("EnvKeptOnAbort" if kept_explains else "TimeLimitKept" if limkept_explains else
                                                             "HandedOutObjectsMemoised" if objmemo_explains else
                                                             "handed-out-object" if isinstance(kind, str) and kind in OBJ_KINDS else kind))

    for (_, hid, hist, rendering, exp), (got, again) in zip(items, results):
        o.evaluations += len(hist)
        o.traces += 1
        o.shape(("inv", rendering, tuple(hist)))
        if got == exp:
            continue
        c = cases[int(hid.split("-")[0])]
        kept = [inv_render(x) if x["k"] != "page" else "" for x in c["kept"]]
        asis = [inv_render(x) if x["k"] != "page" else "" for x in c["asis"]] or exp
        for i in range(len(hist)):
            if got[i] == exp[i]:
                continue
            if got[i] == asis[i]:       # explained by the as-is lifetime of the loadData tables / of the content-language object (named deviations)
                known_asis("I/G", hist, rendering, i, got, exp[i])
                continue
            limkept = [inv_render(x) if x["k"] != "page" else "" for x in c.get("limkept", [])]
            objmemo = [inv_render(x) if x["k"] != "page" else "" for x in c.get("objmemo", [])]
            judge("I/G", hist, rendering, i, got, exp[i], again, bool(kept) and got == kept, bool(limkept) and got == limkept,
                  bool(objmemo) and got == objmemo)
            break

    # ---- nested programs ----
    untrusted = set()
    # NestedInvokeSharesLoadedModules: reproduced on the unchanged tree in round 7 and listed in known_findings.json
    # (repair proposed: proposed_fixes/C09-nested-invoke-own-module-instances.diff).  The steps the as-is model explains
    # by it go through Outcome.classify: KNOWN-FINDING while listed as open, VIOLATION otherwise.

    def leaf_text(x):
        return nest_render([x])[1:-1]

    def nest_judge(origin, case, rendering, got, exp, asis, shared, again):
        """got: observed texts of the top-level invocations of the case; exp / asis / shared: model records {pre, prog, post}."""
        hist = nest_hist(case)
        exp_t = nest_expected(exp)
        n = len(case["pre"])
        asis_t = nest_expected(asis)
        for i in range(len(hist)):
            if got[i] == exp_t[i]:
                continue
            if i == n:
                break
            if got[i] == asis_t[i]:
                continue
            judge(origin, hist, rendering, i, got, exp_t[i], again, False)
            return
        else:
            return
        base = {"origin": origin, "rendering": rendering, "history": hist[: n + 1], "invocation": nest_text(case["prog"]),
                "got": got[n][:300], "model": exp_t[n][:300]}
        g = nest_abstract(case["prog"], got[n])
        asis_leaf = {pth: x for pth, x, _ in nest_walk(asis["prog"], asis["prog"])}
        solo = len(case["prog"]) == 1 and not case["pre"] and not case["post"]
        for path, e, gs in nest_walk(exp["prog"], g):
            if gs is not None and gs["vals"] == e["vals"]:
                continue
            num = ".".join(map(str, path))
            what = ("own read of the running invocation" if e["via"] == "own"
                    else "nested {{#invoke:%s|%s}} reached through %s" % (*nest_modfn(e["k"]), VIA_WORDS[e["via"]]))
            shown = leaf_text(gs) if gs is not None else got[n][:80]
            head = (f"step #{num} ({what}) of ONE top-level invocation {nest_text(case['prog'])} gives {shown!r} where the specification "
                    f"demands {leaf_text(e)!r}")
            a = asis_leaf.get(path)
            if gs is not None and a is not None and gs["vals"] == a["vals"]:
                why = (head + ": the page modules loaded by a nested #invoke stay in package.loaded for the rest of the top-level call "
                       "(only top-level invocations reset it), so a later nested #invoke using the same module meets the state - and "
                       "the environment - the earlier one left")
                # a finding only while known_findings.json lists the deviation; otherwise classify() reports a VIOLATION
                o.classify(dict(base, step=num), why, [NEST_DEV], cls="nested-program:" + NEST_DEV)
                continue
            key = (e["via"], e["k"])
            if key in untrusted or not nest_leaks(e, gs):
                # no value of another invocation shows: the model says more than the statement (what a nested
                # invocation sees of its caller, renderings ...)
                o.note_drift({"nested_program_model_vs_code": dict(base, step=num)})
                if solo:
                    untrusted.add(key)
                return
            if e["via"] == "own":
                who = "what a nested #invoke of this very call wrote is visible to the calling invocation afterwards"
            else:
                who = "what another (earlier, sibling) #invoke under the same top-level call wrote is visible to this nested #invoke"
            where = ""
            if again is not None:
                where = (" (a fresh context running this page shows the same)" if again[n] == got[n]
                         else " (a fresh context running this page does not show it: state of earlier pages)")
            why = head + ": " + who + where
            by_shared = got[n] == nest_expected(shared)[n] and shared["prog"] != asis["prog"]
            if by_shared:
                why += NEST_WHY_SHARED
            o.violation(dict(base, step=num, all_outputs=[x[:120] for x in got]), why,
                        cls="nested-program:" + ("NestedSharesCallerEnv" if by_shared else e["k"]))
            return

    order = sorted(range(len(nitems)), key=lambda j: (len(nitems[j][2]), len(nitems[j][2][0]["prog"]) if isinstance(nitems[j][2][0], dict) else 9))
    for j in order:
        (_, hid, hist, rendering, exp_t), (got, again) = nitems[j], nresults[j]
        c = ncases[int(hid[1:].split("-")[0])]
        o.evaluations += len(hist)
        o.traces += 1
        o.shape(("nest", rendering, json.dumps(c["nest"], sort_keys=True)))
        if got != exp_t:
            nest_judge("N/G", c["nest"], rendering, got, c["out"], c["asis"], c["shared"], again)

    rv = f_rv.result()
    bg.shutdown()
    o.add_tlc("Trace_ContextInvoke", rv)
    nverdicts = {c["i"] - 1: c for c in rv.tagged("NCASE")}
    if len(nverdicts) != len(vn):
        raise common.TLCError("Trace_ContextInvoke judged %d of %d nest cases" % (len(nverdicts), len(vn)))
    for n, (c, (got, _)) in enumerate(zip(vn, vnres)):
        o.evaluations += len(c["pre"]) + 1 + len(c["post"])
        o.traces += 1
        o.shape(("nestV", json.dumps(c, sort_keys=True)))
        vd = nverdicts[n]
        if not vd["law"]:
            raise common.TLCError("ContextInvoke: CaseMeetsDemand fails on %r without deviation" % (c,))
        if not vd["ok"]:
            nest_judge("N/V", c, "calls", got, vd["exp"], vd["asis"], vd["shared"], None)
    o.extra["nested_programs"] = {
        "G_cases": len(ncases), "G_runs": len(nitems), "V_programs": len(vn),
        "cases_where_as_is_differs": sum(1 for c in ncases if c["asis"] != c["out"]),
        "cases_where_NestedSharesCallerEnv_differs": sum(1 for c in ncases if c["shared"] != c["asis"])}
    o.sample({"nest_case": ncases[len(ncases) // 2]["nest"], "text": nest_text(ncases[len(ncases) // 2]["nest"]["prog"]),
              "demanded": nest_expected(ncases[len(ncases) // 2]["out"])})
    verdicts = {c["i"] - 1: c for c in rv.cases}
    if len(verdicts) != len(vh):
        raise common.TLCError("Trace_ContextInvoke judged %d of %d histories" % (len(verdicts), len(vh)))
    for n, (h, (got, _)) in enumerate(zip(vh, vres)):
        o.evaluations += len(h)
        o.traces += 1
        o.shape(("invV", tuple(h)))
        vd = verdicts[n]
        if not vd["law"]:
            raise common.TLCError("ContextInvoke: MeetsDemand fails on %r without deviation" % (h,))
        unexplained = [j for j in vd["bad"] if not (vd["asis"][j - 1] != vd["exp"][j - 1] and inv_abstract(h[j - 1], got[j - 1]) == vd["asis"][j - 1])]
        if unexplained and any(k in INV_LIMITED for k in h) and timing["executed_again_alone"] < 16:
            # Timing rule: some call of this history ran under a small time limit: executed again alone; the
            # demanded outcomes stay those TLC computed for the history
            timing["executed_again_alone"] += 1
            with Scratch("c09ir-") as d2:
                (d2 / "base").mkdir()
                inv_populate(d2 / "base" / "pages.db")
                (got, _), = inv_worker([(d2 / "base", "r", h, "calls", None)])
            vd = dict(vd, bad=[i + 1 for i in range(len(h)) if inv_abstract(h[i], got[i]) != vd["exp"][i]], keptExplains=False, objMemoExplains=False,
                      limKeptExplains=[inv_abstract(k, t) for k, t in zip(h, got)] == vd.get("limkept"))
            if not vd["bad"]:
                timing["not_confirmed"] += 1
                o.note_drift({"timing_dependent_difference_not_confirmed": {"history": h, "origin": "I/V"}})
        for i in sorted(j - 1 for j in vd["bad"]):
            x, a = vd["exp"][i], vd["asis"][i]
            exp_i = inv_render(x) if x["k"] != "page" else ""
            if a != x and inv_abstract(h[i], got[i]) == a:
                known_asis("I/V", h, "calls", i, got, exp_i)
                continue
            judge("I/V", h, "calls", i, got, exp_i, None, bool(vd["keptExplains"]), bool(vd.get("limKeptExplains")), bool(vd.get("objMemoExplains")))
            break
    o.extra["handed_out_objects"] = {"constructors": OBJ_CTORS, "G_histories": sum(1 for c in cases if any(k in OBJ_KINDS for k in c["hist"])),
                                     "histories_where_as_is_differs": sum(1 for c in cases if c["asis"] and any(k in OBJ_KINDS for k in c["hist"])),
                                     "histories_where_HandedOutObjectsMemoised_differs": sum(1 for c in cases if c.get("objmemo"))}
    o.extra["invocation_histories"] = {"G_histories": len(cases), "G_runs": len(items), "renderings": list(INV_RENDERINGS),
                                       "V_histories": len(vh), "kinds": len(kinds) + 1,
                                       "histories_where_EnvKeptOnAbort_differs": sum(1 for c in cases if c["kept"])}
    o.sample({"invocation_history": cases[len(cases) // 3]["hist"], "demanded": [inv_render(x) for x in cases[len(cases) // 3]["out"] if x["k"] != "page"]})


def run(tier: str) -> int:
    o = Outcome(PID, tier)
    o.rule = "every history of page kinds up to MaxLen is one case (distinct by history); non-trivial = length >= 2"
    o.assumptions = ["each history runs in its own process so that module-level state starts fresh",
                     "Lua through offline stand-ins; the catalogue has one concrete page per page kind of Context.tla",
                     "nested programs: own writes of the driver come first (a module instance found again keeps the environment of "
                     "its first load, as coded; not a matter of the statement); at most two levels of nesting"]
    thorough = tier == "thorough"
    # the TLC runs of the invocation-level engine go on in the background meanwhile
    from concurrent.futures import ThreadPoolExecutor

    bg = ThreadPoolExecutor(4)
    f_gen = bg.submit(tlc, "Gen_ContextInvoke", "Gen_ContextInvoke_%s.cfg" % ("thorough" if thorough else "quick"), workers=1, timeout=3000)
    f_demo = bg.submit(tlc, "Gen_ContextInvoke", "Demo_ContextInvoke_envkept.cfg", workers=1, check=False)
    f_dld = bg.submit(tlc, "Gen_ContextInvoke", "Demo_ContextInvoke_loaddata.cfg", workers=1, check=False)
    f_dn = {n: bg.submit(tlc, "Gen_ContextInvoke", "Demo_ContextInvoke_%s.cfg" % n, workers=1, check=False)
            for n in ("nestshared", "nestmodules", "timelimit", "objmemo", "contlang")}
    # (round 8) the model checking of the page-level model and its Demo configs run in the background as well
    f_mc = bg.submit(tlc, "Gen_Context", "MC_Context_ideal.cfg", workers=8, timeout=1800)
    f_mco = bg.submit(tlc, "Gen_Context", "MC_Context_options.cfg", workers=2, timeout=1800)
    f_dmo = {n: bg.submit(tlc, "Gen_Context", "Demo_Context_%s.cfg" % n, workers=1, check=False) for n in ("asbuilt", "timelimit", "calloptions", "objmemo")}
    t_page = [time.time()]
    r = tlc("Gen_Context", "Gen_Context_known_3.cfg" if thorough else "Gen_Context_known_2.cfg", workers=1, timeout=3000)
    t_page.append(time.time())
    o.add_tlc("Gen_Context histories", r)
    cases = [c for c in r.cases if c["hist"]]
    rng = random.Random(common.seed() * 61 + 9)
    kinds = sorted(k for k in PAGES if k not in SLOW_KINDS and k not in OPTION_KINDS)
    extra = []
    for _ in range(150 if thorough else 24):
        extra.append([rng.choice(kinds) for _ in range(rng.randint(6, 30))])
    # (round 8) further random histories in which the option sets of the calls vary too
    rng8 = random.Random(common.seed() * 83 + 908)
    kinds8 = sorted(k for k in PAGES if k not in SLOW_KINDS)
    for _ in range(60 if thorough else 12):
        extra.append([rng8.choice(kinds8 if rng8.random() < 0.5 else OPTION_KINDS) for _ in range(rng8.randint(6, 24))])
    with Scratch("c09-") as d:
        dbdir = d / "base"
        dbdir.mkdir()
        populate(dbdir / "pages.db")
        fresh = {k: v[0] for k, v in zip(PAGES, run_many([([k], dbdir) for k in PAGES]))}
        if fresh["slowModule"][0] != "sslow-donet" or any(fresh["slowModule"][1].values()):
            raise RuntimeError("the slow module does not finish under the default time limit on a fresh context: %r" % (fresh["slowModule"],))
        results = run_many([(c["hist"], dbdir) for c in cases])
        vres = run_many([(h, dbdir) for h in extra])
        # Timing rule: a difference on a page whose result depends on wall-clock time (SLOW_KINDS) is believed only
        # when the history, executed again ALONE (nothing else of this check running), shows it again
        recheck = {}
        for hist, res in [(c["hist"], r) for c, r in zip(cases, results)] + list(zip(extra, vres)):
            if any(k in TIMING_KINDS and res[i] != fresh[k] for i, k in enumerate(hist)) and len(recheck) < 40:
                recheck.setdefault(tuple(hist), None)
        if recheck:     # alone: also the TLC jobs in the background have to be over
            for f in [f_gen, f_demo, f_dld, f_mc, f_mco] + list(f_dn.values()) + list(f_dmo.values()):
                f.result()
        for h in recheck:
            recheck[h] = run_many([(list(h), dbdir)], nproc=1)[0]
    o.extra["timing_rechecks"] = {"histories_executed_again_alone": len(recheck),
                                  "differences_not_confirmed": sum(1 for h, r in recheck.items() for i, k in enumerate(h)
                                                                   if k in TIMING_KINDS and r[i] == fresh[k])}
    known = sorted(o.known)
    t_page.append(time.time())
    # V: the recorded random histories are replayed through the model by TLC
    with Scratch("c09v-") as dd:
        tf = dd / "h.json"
        tf.write_text(json.dumps(extra))
        rv = tlc("Trace_Context", "t.cfg", cfg_text="SPECIFICATION TSpec\nCONSTANTS\n  Known <- KnownC09\nINVARIANT Emit\nCHECK_DEADLOCK FALSE\n",
                 workers=1, env={"TRACE_FILE": str(tf)}, timeout=1800)
    o.add_tlc("Trace_Context", rv)
    vmodel = {c["i"] - 1: (c["interferes"], c["optkept"]) for c in rv.cases}

    def compare(hist, res, interferes, optkept, origin):
        o.evaluations += len(hist)
        o.traces += 1
        if len(hist) >= 2:
            o.shape(tuple(hist) if len(hist) <= 3 else ("long", len(hist), hash(tuple(hist))))
        again = recheck.get(tuple(hist))
        for i, kind in enumerate(hist):
            if res[i] == fresh[kind]:
                continue
            case = {"origin": origin, "history": hist[: i + 1], "page_kind": kind, "page": PAGES[kind][1][:200],
                    "in_history": json.dumps(res[i], default=str)[:500], "fresh_context": json.dumps(fresh[kind], default=str)[:500]}
            if PAGES[kind][2]:
                case["options"] = _opts_text(kind)
            if kind in TIMING_KINDS:
                if again is None or again[i] == fresh[kind]:
                    # not executed again (too many) or not confirmed alone: a matter of the load of the machine
                    o.note_drift({"timing_dependent_difference_not_confirmed": case})
                    continue
                case["executed_again_alone"] = json.dumps(again[i], default=str)[:500]
            cells = interferes[i] if interferes is not None else None
            explained = []
            if cells:
                m = {"lsmeta": "StringMetatableShared", "lretain": "RetainedLibraryTablesShared", "tags": "ExtensionTagsShared"}
                explained = sorted({m[c] for c in cells if c in m})
            why = f"page kind {kind!r} gives a different result after {hist[:i]!r} than on a fresh context"
            kept = sorted(optkept[i]) if optkept is not None and not explained else []
            if "lobjects" in kept:
                # the model in which the constructors hand out memoised objects says which earlier page wrote into them
                kept = []       # (the written objects are met whatever options the earlier calls were given)
                js = [j for j in range(i) if hist[j] == "luaHandedOut"]
                why += ("; the page obtains objects from " + ", ".join(v for c, v in sorted(OBJ_CTORS.items()) if c != "lcont") + " (T = %r), reports "
                        "their writable fields (a field of the module's own / fragment) and then writes them; the model with the deviation "
                        "HandedOutObjectsMemoised (a constructor of a retained library hands out the object it built for an earlier request again) "
                        "says this page can meet what page #%d wrote into ITS objects - objects handed out by library constructors must carry "
                        "nothing an earlier invocation / page wrote" % (OBJ_TARGET, js[-1] + 1))
                case["cells_possibly_met"] = ["lobjects"]
            if kept:
                # the model in which options of a call stay in force (TimeLimitKept / CallOptionsKept) says which
                # option of which earlier call this page can see
                who = []
                for c in kept:
                    js = [j for j in range(i) if c in OPTION_SETS.get(hist[j], ())]
                    who.append("%s given to the call of page #%d (%s: %s)" % (OPT_CELLS[c], js[-1] + 1, hist[js[-1]], _opts_text(hist[js[-1]]))
                               if js else OPT_CELLS[c])
                why += ("; the call of this page was given " + (_opts_text(kind) or "no options (defaults)") + ", and the model in which the "
                        "options of one call stay in force for later calls (" + ("TimeLimitKept: the time limit of an earlier #invoke is "
                        "left in the Lua runtime and not replaced by the default" if kept == ["otimelimit"] else "CallOptionsKept") +
                        ") says this page can see: " + "; ".join(who) + " - option sets given to one call must not affect later calls / pages")
                case["options_of_earlier_calls_possibly_in_force"] = kept
            o.classify(case, why, explained, cls=kind + (":option-kept" if kept else ""))

    for c, res in zip(cases, results):
        compare(c["hist"], res, c["interferes"], c["optkept"], "G")
    for j, (h, res) in enumerate(zip(extra, vres)):
        compare(h, res, vmodel[j][0], vmodel[j][1], "V")
    r = f_mc.result()
    o.add_tlc("MC_Context_ideal (NonInterference, all histories <= 4 over the kinds without the option kinds)", r)
    o.add_tlc("MC_Context_options (NonInterference, all histories <= 6 over all kinds incl. the option kinds; VIEW MCView)", f_mco.result())
    for n, f in f_dmo.items():
        dmo = f.result()
        o.extra["demo_%s_violates_NonInterference" % n] = bool(dmo.invariant_violated)
        if not dmo.invariant_violated:
            raise common.TLCError("Demo_Context_%s lost its counterexample" % n)
    t_page.append(time.time())
    o.extra["page_level_wall_s"] = dict(zip(("Gen_Context", "real_code_histories", "Trace_Context_and_compare"),
                                            (round(b - a, 1) for a, b in zip(t_page, t_page[1:]))))
    t_inv = time.time()
    g_res, d_res, l_res = f_gen.result(), f_demo.result(), f_dld.result()
    t_wait = time.time() - t_inv
    invocation_histories(o, tier, g_res, d_res, l_res, {n: f.result() for n, f in f_dn.items()})
    o.extra["invocation_histories"]["wall_s"] = {"waiting_for_TLC": round(t_wait, 1), "total": round(time.time() - t_inv, 1)}
    bg.shutdown()
    o.rule += ("; invocation level: every history of #invoke kinds on one page x rendering is one case "
               "(distinct by history and rendering), all have length >= 2; nested programs: every nest case (top-level "
               "invocations, ONE invocation of the driver running a program of nested invocations / own reads and writes, "
               "top-level invocations) x rendering is one case")
    o.exhaustive = True
    o.sample({"history": cases[len(cases) // 2]["hist"], "fresh_result_of_luaGlobal": json.dumps(fresh["luaGlobal"], default=str)[:200]})
    return o.finish()


def inv_trace(histories):
    """histories = [[event, ...], ...] in the record shape of ContextInvoke!Out -> verdicts of Trace_ContextInvoke."""
    return sorted(inv_trace_run(histories).cases, key=lambda c: c["i"])


def inv_record(hist, rendering="calls"):
    """Run one history on a fresh real context and abstract the observed outputs."""
    with Scratch("c09ir-") as d:
        (d / "base").mkdir()
        inv_populate(d / "base" / "pages.db")
        (got, _), = inv_worker([(d / "base", "r", hist, rendering, None)])
    return got, [inv_abstract(k, t) for k, t in zip(hist, got)]


def nest_record(case, rendering="calls"):
    """Run one nest case on a fresh real context and abstract the observed outputs."""
    with Scratch("c09nr-") as d:
        (d / "base").mkdir()
        inv_populate(d / "base" / "pages.db")
        (got, _), = inv_worker([(d / "base", "r", nest_hist(case), rendering, None)])
    return got, nest_abstract_case(case, got)


def nest_trace(progs):
    return sorted(inv_trace_run([], progs).tagged("NCASE"), key=lambda c: c["i"])


def replay(path: str) -> int:
    v = json.loads(Path(path).read_text())
    print(json.dumps(v, indent=1)[:2500])
    case = v.get("case", {})
    if str(case.get("origin", "")).startswith("N/"):
        common.use_repo()
        hist = case["history"]
        n = [i for i, k in enumerate(hist) if isinstance(k, dict)][0]
        nc = {"pre": hist[:n], "prog": hist[n]["prog"], "post": hist[n + 1:]}
        got, rec = nest_record(nc, case.get("rendering", "calls"))
        vd = nest_trace([{"case": nc, "got": rec}])[0]
        print("re-run on a fresh context:", got)
        print("demanded:", nest_expected(vd["exp"]))
        print("Trace_ContextInvoke: recorded outcome meets the demand:", vd["ok"], "| the as-is model explains it:", vd["asisExplains"],
              "| NestedSharesCallerEnv explains it:", vd["sharedExplains"])
        return 0 if vd["ok"] or vd["asisExplains"] else 1
    if str(case.get("origin", "")).startswith("I/"):
        common.use_repo()
        hist = case["history"]
        got, events = inv_record(hist, case.get("rendering", "calls"))
        vd = inv_trace([events])[0]
        print("re-run on a fresh context:", got)
        print("Trace_ContextInvoke: events contradicting the specification:", vd["bad"], "| EnvKeptOnAbort explains the run:", vd["keptExplains"])
        return 1 if vd["bad"] else 0
    return 1


def selftest() -> int:
    r = tlc("Gen_Context", "Demo_Context_asbuilt.cfg", workers=1, check=False)
    print("as-built design violates NonInterference in the model:", bool(r.invariant_violated))
    d = tlc("Gen_ContextInvoke", "Demo_ContextInvoke_envkept.cfg", workers=1, check=False)
    print("EnvKeptOnAbort violates MeetsDemand in the model:", bool(d.invariant_violated))
    common.use_repo()
    hist = ["nomod", "bump", "bump"]
    got, events = inv_record(hist)
    corrupt = json.loads(json.dumps(events))
    corrupt[2]["v"] = "2"          # what a context that keeps the environment of the aborted invocation would show
    wrongkind = json.loads(json.dumps(events))
    wrongkind[1]["res"] = "err"
    vds = inv_trace([events, corrupt, wrongkind])
    print("recorded", got, "->", [(x["bad"], x["keptExplains"]) for x in vds])
    ok = (vds[0]["bad"] == [] and vds[1]["bad"] == [3] and vds[1]["keptExplains"] is True
          and vds[2]["bad"] == [2] and vds[2]["keptExplains"] is False)
    # G side: a corrupted expectation is rejected by the comparison
    exp_ok = [inv_render(x) for x in events]
    print("rendering of the recorded events equals the observed text:", exp_ok == got)
    ok = ok and exp_ok == got and bool(r.invariant_violated) and bool(d.invariant_violated)
    # nested programs: the model with a nested invocation in its caller's environment / with shared package.loaded
    # violates the demand; a recorded program passes, a recording in which the sibling and the caller see the
    # nested write is rejected (and explained by NestedSharesCallerEnv), one where only the sibling sees it is rejected
    for name in ("nestshared", "nestmodules"):
        dn = tlc("Gen_ContextInvoke", "Demo_ContextInvoke_%s.cfg" % name, workers=1, check=False)
        print("Demo_ContextInvoke_%s violates CaseMeetsDemand in the model:" % name, bool(dn.invariant_violated))
        ok = ok and bool(dn.invariant_violated)
    nc = {"pre": ["gset"], "post": ["gget"],
          "prog": [{"via": "P", "k": "gset", "sub": []}, {"via": "T", "k": "view", "sub": []}, {"via": "own", "k": "O", "sub": []}]}
    ngot, rec = nest_record(nc)
    both = json.loads(json.dumps(rec))
    both["prog"][1]["vals"][0] = "set"
    both["prog"][2]["vals"][0] = "set"
    sibling = json.loads(json.dumps(rec))
    sibling["prog"][1]["vals"][0] = "set"
    nv = nest_trace([{"case": nc, "got": x} for x in (rec, both, sibling)])
    print("recorded", ngot, "->", [(x["ok"], x["sharedExplains"]) for x in nv])
    ok = ok and [(x["ok"], x["sharedExplains"]) for x in nv] == [(True, False), (False, True), (False, False)]
    ok = ok and nest_expected(rec) == ngot and nest_leaks(rec["prog"][1], both["prog"][1]) and not nest_leaks(rec["prog"][1], rec["prog"][1])
    # (round 8) options of one call: the models in which they stay in force violate the laws; a recorded <call with a
    # small time limit, slow invocation without one> passes, the recording of a context that keeps the limit is rejected
    # and explained by TimeLimitKept
    for mod, cfg in (("Gen_Context", "Demo_Context_timelimit.cfg"), ("Gen_Context", "Demo_Context_calloptions.cfg"),
                     ("Gen_ContextInvoke", "Demo_ContextInvoke_timelimit.cfg")):
        dv = tlc(mod, cfg, workers=1, check=False)
        print(cfg, "violates its law in the model:", bool(dv.invariant_violated))
        ok = ok and bool(dv.invariant_violated)
    lgot, lev = inv_record(["lim_peek", "slow"])
    lbad = json.loads(json.dumps(lev))
    lbad[1].update(res="timeout", v="")
    lv = inv_trace([lev, lbad])
    print("recorded", lgot, "->", [(x["bad"], x["limKeptExplains"]) for x in lv])
    ok = ok and [(x["bad"], x["limKeptExplains"]) for x in lv] == [([], False), ([2], True)]
    # (round 9) objects handed out by library constructors: the models in which they are memoised / in which the one
    # content-language object lives as long as the runtime violate the laws; a recorded <write through mw.title.new, read
    # through mw.title.makeTitle> passes, the recording of a context that hands the written object out again is rejected
    # and explained by HandedOutObjectsMemoised
    for mod, cfg in (("Gen_Context", "Demo_Context_objmemo.cfg"), ("Gen_ContextInvoke", "Demo_ContextInvoke_objmemo.cfg"),
                     ("Gen_ContextInvoke", "Demo_ContextInvoke_contlang.cfg")):
        dv = tlc(mod, cfg, workers=1, check=False)
        print(cfg, "violates its law in the model:", bool(dv.invariant_violated))
        ok = ok and bool(dv.invariant_violated)
    ogot, oev = inv_record(["ow_tnew", "page", "or_tmake"])
    obad = json.loads(json.dumps(oev))
    obad[2]["v"] = "set"
    ov = inv_trace([oev, obad])
    print("recorded", ogot, "->", [(x["bad"], x["objMemoExplains"]) for x in ov])
    ok = ok and [(x["bad"], x["objMemoExplains"]) for x in ov] == [([], False), ([3], True)]
    print("selftest", "ok" if ok else "FAILED")
    return 0 if ok else 1
