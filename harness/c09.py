"""C09 — processing a page does not depend on what the context processed before.

M  Context.tla lists every retained cell with its reset point and the page kinds as
   readers/writers; TLC checks non-interference for all histories (ideal design) and
   shows the counterexample histories of the as-built design (Demo_Context_asbuilt).
G  TLC enumerates every history of page kinds up to the bound with, per step, the set
   of cells the model says interfere (as-is with the listed findings); each history is
   run on ONE real context, every page also on a FRESH context over the same database;
   parse tree / expansion / recorded messages must be equal.  A difference on a step
   the as-is model explains by a listed finding is a KNOWN-FINDING, any other a VIOLATION.
V  seeded random longer histories (length <= 30) over the same catalogue.
"""
from __future__ import annotations

import json
import multiprocessing as mp
import random
from pathlib import Path

import common
import luastub
from common import Outcome, Scratch, tlc

PID = "C09"

MODULE_S = r"""
local p = {}
function p.global(frame) local before = tostring(LEAKED) LEAKED = "set" return "g:" .. before end
function p.str(frame) local before = tostring(string.leaked) string.leaked = "set" return "s:" .. before end
function p.smeta(frame)
  local before = tostring(("x").leaked)
  local mt = getmetatable("")
  if mt and type(mt.__index) == "table" then mt.__index.leaked = "set" end
  return "m:" .. before
end
function p.required(frame) local d = require("Module:Data") local before = tostring(d.leaked) d.leaked = "set" return "r:" .. before end
function p.retained(frame) local before = tostring(mw.text.leaked) mw.text.leaked = "set" return "t:" .. before end
function p.loaddata(frame)
  local d = mw.loadData("Module:Data")
  local before = tostring(d.leaked) .. "/" .. tostring(d.n)
  pcall(function() d.leaked = "set" end)
  pcall(function() rawset(d, "leaked", "set") end)
  return "d:" .. before
end
function p.loadjson(frame)
  local d = mw.loadJsonData("Module:J.json")
  local before = tostring(d.leaked) .. "/" .. tostring(d.list and #d.list)
  pcall(function() d.leaked = "set" end)
  pcall(function() table.insert(d.list, "x") end)
  return "j:" .. before
end
function p.strip(frame) return frame:extensionTag("nowiki", "x") .. frame:extensionTag("nowiki", "y") end
function p.err(frame) error("boom") end
function p.loop(frame) while true do end end
return p
"""
MODULE_DATA = "return { n = 1 }\n"

PAGES = {
    "unclosedMarkup": ("parse", "'''bold ''it\n* item [[link|te\n== h ==\n<span>x", {}),
    "unclosedTable": ("parse", "{|\n! h\n|-\n| a || b\n* x", {}),
    "preTag": ("parse", "<pre>\n* not list\n {{T1|a}}", {}),
    "manyCalls": ("expand", "".join("{{T1|%d}}" % i for i in range(130)), {}),
    "templateLoop": ("expand", "x{{A}}y{{T1|{{A}}}}", {}),
    "templateNowiki": ("expand", "[[l|t]]{{Nw}}{{T1|a}}{{Nw}}", {}),
    "sectionError": ("section-expand", "{{#invoke:S|err}}{{A}}", {}),
    "luaGlobal": ("expand", "{{#invoke:S|global}}{{#invoke:S|global}}", {}),
    "luaString": ("expand", "{{#invoke:S|str}}{{#invoke:S|str}}", {}),
    "luaStringMeta": ("expand", "{{#invoke:S|smeta}}{{#invoke:S|smeta}}", {}),
    "luaRequired": ("expand", "{{#invoke:S|required}}{{#invoke:S|required}}", {}),
    "luaRetained": ("expand", "{{#invoke:S|retained}}{{#invoke:S|retained}}", {}),
    "luaLoadData": ("expand", "{{#invoke:S|loaddata}}{{#invoke:S|loaddata}}", {}),
    "luaLoadJson": ("expand", "{{#invoke:S|loadjson}}{{#invoke:S|loadjson}}", {}),
    "luaStripMarker": ("expand", "{{#invoke:S|strip}}", {}),
    "luaError": ("expand", "a{{#invoke:S|err}}b{{#invoke:S|nofn}}c", {}),
    "luaTimeout": ("expand", "a{{#invoke:S|loop}}b", {"timeout": 1}),
    "parseExpandAll": ("parse", "== h ==\n{{T1|'''x}}\n* {{T1|y}}\n{|\n| {{A}}\n|}", {"expand_all": True}),
    "otherContextWithExtTags": ("other", "", {}),
    "otherContextRedefiningTag": ("other2", "", {}),
    "extTagPage": ("parse", "<foo a=b>x</foo> <hiero>y</hiero> <span>z</span>\n<references>\n<ref name=r>t</ref>\n</references>\n<br>w</br>", {}),
}


def make_ctx(path):
    from wikitextprocessor import Wtp

    return Wtp(db_path=str(path), quiet=True, quiet_output=True)


def populate(path):
    ctx = make_ctx(path)
    luastub.install(ctx)
    luastub.add_module(ctx, "S", MODULE_S)
    luastub.add_module(ctx, "Data", MODULE_DATA)
    ctx.add_page("Module:J.json", 828, body='{"n": 1, "list": ["noun"]}', model="json")
    ctx.add_page("Template:T1", 10, body="({{{1}}})")
    ctx.add_page("Template:Nw", 10, body="n<nowiki>[[q]] {{T1|z}}</nowiki>w<!-- c -->")
    ctx.add_page("Template:A", 10, body="{{B}}")
    ctx.add_page("Template:B", 10, body="[{{A}}]")
    ctx.db_conn.commit()
    ctx.db_conn.close()


def dump(node):
    if isinstance(node, str):
        return node
    return [node.kind.name, str(getattr(node, "sarg", "")), [[dump(x) for x in a] for a in (node.largs or [])],
            sorted((node.attrs or {}).items()), [dump(c) for c in node.children]]


def msgs(ctx):
    r = ctx.to_return()
    return {k: [(m["msg"], m["title"], m["section"], m["called_from"], tuple(m["path"])) for m in v] for k, v in r.items()}


def process(ctx, kind, scratch, n):
    """One page: start_page + the action; returns the observable result."""
    mode, text, opts = PAGES[kind]
    if mode == "other":
        from wikitextprocessor import Wtp

        other = Wtp(db_path=str(Path(scratch) / f"other{n}" / "o.db") if (Path(scratch) / f"other{n}").mkdir() is None else None,
                    quiet=True, quiet_output=True, extension_tags={"foo": {"parents": ["phrasing"], "content": ["phrasing"]}})
        other.db_conn.close()
        return ["other-context-created"]
    if mode == "other2":
        from wikitextprocessor import Wtp

        (Path(scratch) / f"other{n}").mkdir()
        other = Wtp(db_path=str(Path(scratch) / f"other{n}" / "o.db"), quiet=True, quiet_output=True,
                    extension_tags={"references": {"parents": ["flow"], "content": ["flow", "phrasing"], "no-end-tag": True},
                                    "br": {"parents": ["phrasing"], "content": ["phrasing"]}})
        other.db_conn.close()
        return ["other-context-created"]
    ctx.start_page("Page " + kind)
    try:
        if mode == "parse":
            res = dump(ctx.parse(text, **opts))
        elif mode == "section-expand":
            ctx.start_section("Sec")
            res = ctx.expand(text, **opts)
        else:
            res = ctx.expand(text, **opts)
    except Exception as e:  # noqa: BLE001
        res = "EXCEPTION " + repr(e)
    return [res, msgs(ctx), list(ctx.expand_stack), len(ctx.parser_stack)]


def run_history(args):
    """Runs in a fresh process (module-level state of the library must start fresh)."""
    hist, dbdir = args
    common.use_repo()
    out = []
    with Scratch("c09h-") as d:
        import shutil

        shutil.copytree(dbdir, d / "db")
        ctx = make_ctx(d / "db" / "pages.db")
        try:
            for n, kind in enumerate(hist):
                out.append(process(ctx, kind, d, n))
        finally:
            ctx.db_conn.close()
    return out


def run_many(items, nproc=16):
    ctx = mp.get_context("fork")
    with ctx.Pool(nproc, maxtasksperchild=1) as pool:
        return pool.map(run_history, items, chunksize=1)


def run(tier: str) -> int:
    o = Outcome(PID, tier)
    o.rule = "every history of page kinds up to MaxLen is one case (distinct by history); non-trivial = length >= 2"
    o.assumptions = ["each history runs in its own process so that module-level state starts fresh",
                     "Lua through offline stand-ins; the catalogue has one concrete page per page kind of Context.tla"]
    thorough = tier == "thorough"
    r = tlc("Gen_Context", "MC_Context_ideal.cfg", workers=8, timeout=1800)
    o.add_tlc("MC_Context_ideal (NonInterference, all histories <= 4)", r)
    dmo = tlc("Gen_Context", "Demo_Context_asbuilt.cfg", workers=1, check=False)
    o.extra["demo_asbuilt_violates_NonInterference"] = bool(dmo.invariant_violated)
    if not dmo.invariant_violated:
        raise common.TLCError("Demo_Context_asbuilt lost its counterexample")
    r = tlc("Gen_Context", "Gen_Context_known_3.cfg" if thorough else "Gen_Context_known_2.cfg", workers=1, timeout=3000)
    o.add_tlc("Gen_Context histories", r)
    cases = [c for c in r.cases if c["hist"]]
    rng = random.Random(common.seed() * 61 + 9)
    kinds = sorted(k for k in PAGES if k != "luaTimeout")
    extra = []
    for _ in range(150 if thorough else 24):
        extra.append([rng.choice(kinds) for _ in range(rng.randint(6, 30))])
    with Scratch("c09-") as d:
        dbdir = d / "base"
        dbdir.mkdir()
        populate(dbdir / "pages.db")
        fresh = {k: v[0] for k, v in zip(PAGES, run_many([([k], dbdir) for k in PAGES]))}
        results = run_many([(c["hist"], dbdir) for c in cases])
        vres = run_many([(h, dbdir) for h in extra])
    known = sorted(o.known)
    # V: the recorded random histories are replayed through the model by TLC
    with Scratch("c09v-") as dd:
        tf = dd / "h.json"
        tf.write_text(json.dumps(extra))
        rv = tlc("Trace_Context", "t.cfg", cfg_text="SPECIFICATION TSpec\nCONSTANTS\n  Known <- KnownC09\nINVARIANT Emit\nCHECK_DEADLOCK FALSE\n",
                 workers=1, env={"TRACE_FILE": str(tf)}, timeout=1800)
    o.add_tlc("Trace_Context", rv)
    vmodel = {c["i"] - 1: c["interferes"] for c in rv.cases}

    def compare(hist, res, interferes, origin):
        o.evaluations += len(hist)
        o.traces += 1
        if len(hist) >= 2:
            o.shape(tuple(hist) if len(hist) <= 3 else ("long", len(hist), hash(tuple(hist))))
        for i, kind in enumerate(hist):
            if res[i] == fresh[kind]:
                continue
            case = {"origin": origin, "history": hist[: i + 1], "page_kind": kind, "page": PAGES[kind][1][:200],
                    "in_history": json.dumps(res[i], default=str)[:500], "fresh_context": json.dumps(fresh[kind], default=str)[:500]}
            cells = interferes[i] if interferes is not None else None
            explained = []
            if cells:
                m = {"lsmeta": "StringMetatableShared", "lretain": "RetainedLibraryTablesShared", "tags": "ExtensionTagsShared"}
                explained = sorted({m[c] for c in cells if c in m})
            o.classify(case, f"page kind {kind!r} gives a different result after {hist[:i]!r} than on a fresh context", explained, cls=kind)

    for c, res in zip(cases, results):
        compare(c["hist"], res, c["interferes"], "G")
    for j, (h, res) in enumerate(zip(extra, vres)):
        compare(h, res, vmodel[j], "V")
    o.exhaustive = True
    o.sample({"history": cases[len(cases) // 2]["hist"], "fresh_result_of_luaGlobal": json.dumps(fresh["luaGlobal"], default=str)[:200]})
    return o.finish()


def replay(path: str) -> int:
    v = json.loads(Path(path).read_text())
    print(json.dumps(v, indent=1)[:2500])
    return 1


def selftest() -> int:
    r = tlc("Gen_Context", "Demo_Context_asbuilt.cfg", workers=1, check=False)
    print("as-built design violates NonInterference in the model:", bool(r.invariant_violated))
    return 0 if r.invariant_violated else 1
