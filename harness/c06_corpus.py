"""C06 attack corpus: Lua modules that try to leave the sandbox, executed for real.

Every attack is the body of `function p.main(frame)`; `S` is the scratch directory of the
attack (string local), `W(x)` builds the success witness "WIT:<x>".  An attack counts as
successful only on real evidence: the witness string came back from #invoke, a file
appeared in / vanished from the scratch directory, the pages table changed, or the
process was terminated from inside Lua.
`needs` = forbidden classes of the model that explain the success (any of them);
`dev` = the modelled deviation it exploits.
"""
from __future__ import annotations

RET = "RetainedHostModules"
PAR = "PartialHelpersExposeContext"
ABS = "LoaderAbsolutePath"

PRELUDE = """
local S = frame.args[1]
local function W(x) return "WIT:" .. tostring(x) end
local function try(f, ...) local ok, r = pcall(f, ...) if ok then return r end return nil end
"""

A = []


def atk(name, body, needs, dev, group):
    A.append({"name": name, "body": body, "needs": needs, "dev": dev, "group": group})


# ---- require of host names -------------------------------------------------------------
atk("req_io_write", """
local io = require("io")
local f = io.open(S .. "/pwn_io.txt", "w") f:write("x") f:close()
return W(type(io.open))""", ["host:io"], RET, "require")
atk("req_io_read", """
local f = require("io").open(S .. "/victim.txt", "r")
return W(f:read("*a"))""", ["host:io"], RET, "require")
atk("req_io_popen", """
local h = require("io").popen("echo popen-ok") local s = h:read("*a") h:close()
return W(s)""", ["host:io"], RET, "require")
atk("req_os_execute", """
local rc = require("os").execute("touch " .. S .. "/pwn_exec")
return W(rc)""", ["host:os"], RET, "require")
atk("req_os_getenv", """return W(require("os").getenv("PATH"))""", ["host:os"], RET, "require")
atk("req_os_remove", """
local ok = require("os").remove(S .. "/victim.txt")
return W(ok)""", ["host:os"], RET, "require")
atk("req_os_exit", """require("os").exit(42) return "no" """, ["host:os"], RET, "require")
atk("req_python_builtins", """
local py = require("python")
local f = py.builtins.open(S .. "/pwn_py.txt", "w") f.write("x") f.close()
return W(py.builtins.len("abc"))""", ["bridge:python"], RET, "require")
atk("req_python_eval", """return W(require("python").eval("1+1"))""", ["bridge:python"], RET, "require")
atk("req_G_loadstring", """
local g = require("_G")
return W(g.loadstring("return 6*7")())""", ["host:_G"], RET, "require")
atk("req_G_io", """return W(type(require("_G").io.open))""", ["host:_G"], RET, "require")
atk("req_G_debug_hook", """
local g = require("_G")
return W(type(g.debug.sethook) .. type(g.debug.getregistry))""", ["host:_G"], RET, "require")
atk("req_package_loadlib", """return W(type(require("package").loadlib))""", ["host:package"], RET, "require")
atk("req_package_loaded_io", """return W(type(require("package").loaded.io.open))""", ["host:package"], RET, "require")
atk("req_debug", """local d = require("debug") return d.sethook and W(type(d.sethook)) or "no" """, ["host:debug"], RET, "require")
atk("cached_mod_io", """return W(type(_cached_mod("io").open))""", ["host:io"], RET, "cache")
atk("cached_mod_python", """return W(type(_cached_mod("python").builtins))""", ["bridge:python"], RET, "cache")

# ---- globals that must be absent ---------------------------------------------------------
for g in ("io", "python", "load", "loadstring", "dofile", "loadfile", "setfenv", "getfenv", "module",
          "new_require", "collectgarbage", "newproxy"):
    cls = {"io": "host:io", "python": "bridge:python", "setfenv": "host:fenv", "getfenv": "host:fenv",
           "module": "host:fenv", "new_require": "host:fenv"}.get(g, "host:load")
    if g in ("collectgarbage", "newproxy"):
        continue
    atk("global_" + g, f"""if {g} ~= nil then return W(type({g})) end return "absent" """, [cls, "host:_G"], "", "globals")
atk("global_os_execute", """
for _, k in ipairs({"execute", "exit", "getenv", "remove", "rename", "tmpname", "setlocale"}) do
  if os[k] ~= nil then return W(k) end
end return "absent" """, ["host:os"], "", "globals")
atk("global_debug_beyond_traceback", """
for k, v in pairs(debug) do if k ~= "traceback" then return W(k) end end
return "absent" """, ["host:debug"], "", "globals")

# ---- walking _G / metatables -------------------------------------------------------------
atk("walk_G", """
local seen, hit = {}, nil
local bad = { execute = true, popen = true, loadstring = true, sethook = true, getregistry = true, loadlib = true, dofile = true }
local function walk(t, path, depth)
  if hit or seen[t] or depth > 6 then return end
  seen[t] = true
  for k, v in _orig_next, t do
    if type(k) == "string" and bad[k] and v ~= nil then hit = path .. "." .. k return end
    if type(v) == "table" then walk(v, path .. "." .. tostring(k), depth + 1) end
  end
  local m = getmetatable(t)
  if type(m) == "table" then walk(m, path .. ".<mt>", depth + 1) end
end
walk(_G, "_G", 0)
if hit then return W(hit) end return "nothing" """, ["host:io", "host:os", "host:debug", "host:package", "host:load", "host:_G"], "", "walk")
atk("strmeta_index", """
local m = getmetatable("")
local t = m and m.__index
if type(t) ~= "table" then return "no" end
for _, k in ipairs({"execute", "open", "loadstring", "sethook"}) do if t[k] ~= nil then return W(k) end end
return "string-lib-only" """, ["host:os", "host:io", "host:load", "host:debug"], "", "walk")
atk("strmeta_method_env", """
local f = ("x").rep
local ok, e = pcall(function() return getfenv(f) end)
if ok and type(e) == "table" and e.io then return W("fenv") end
return "no" """, ["host:fenv", "host:_G"], "", "walk")
atk("pobject_metatable", """
local m = getmetatable(mw_decode_python)
if type(m) ~= "table" then return "no-mt" end
local ok, g = pcall(m.__index, mw_decode_python, "__globals__")
if ok and g ~= nil then return W(tostring(g):sub(1, 40)) end
return "filtered" """, ["py:dict"], "", "bridge")

# ---- Python helper introspection -----------------------------------------------------------
atk("partial_args_ctx", """
local c = mw_current_title_python.args[0]
return W(tostring(c) .. " db_path=" .. tostring(c.db_path))""", ["py:Wtp"], PAR, "helpers")
atk("partial_ctx_add_page", """
local c = mw_python_get_page_content.args[0]
c.add_page("C06 Pwned", 0, "written from Lua")
return W(c.page_exists("C06 Pwned", 0))""", ["py:Wtp"], PAR, "helpers")
atk("partial_ctx_db_delete", """
local c = mw_python_get_page_info.args[0]
c.db_conn.execute("DELETE FROM pages WHERE title = 'Module:c06victim'")
return W("deleted")""", ["py:Wtp"], PAR, "helpers")
atk("partial_ctx_lua_runtime", """
local c = mw_jsondecode_python.args[0]
local g = c.lua.globals()
return W(type(g.io.open) .. type(g.os.execute))""", ["py:Wtp"], PAR, "helpers")
atk("partial_ctx_mutate", """
local c = mw_current_title_python.args[0]
c.title = "Hijacked"
return W(mw_current_title_python())""", ["py:Wtp"], PAR, "helpers")
atk("partial_env_stack", """
local dq = _python_top_env.args[0]
local n = dq.maxlen
dq.clear()
return W("cleared:" .. tostring(_python_top_env()))""", ["py:deque", "py:RecDeque"], PAR, "helpers")
atk("partial_frame_stack", """
local dq = current_frame_python.args[0]
return W(tostring(dq):sub(1, 20))""", ["py:deque", "py:RecDeque"], PAR, "helpers")
atk("partial_keywords", """
local k = mw_python_get_page_content.keywords
return W(tostring(k))""", ["py:dict"], PAR, "helpers")
atk("fn_dunder_globals", """
local ok, g = pcall(function() return mw_decode_python.__globals__ end)
if ok and g ~= nil then return W("globals") end
return "denied" """, ["py:dict"], "", "bridge")
atk("fn_dunder_closure", """
local ok, g = pcall(function() return frame.getTitle.__closure__ end)
if ok and g ~= nil then return W("closure") end
return "denied" """, ["py:tuple", "py:cell"], "", "bridge")
atk("fn_underscore_self", """
local ok, g = pcall(function() return frame.preprocess.__self__ end)
if ok and g ~= nil then return W("self") end
ok, g = pcall(function() return mw_current_title_python._x end)
return "denied" """, ["py:Wtp"], "", "bridge")
atk("raw_arg_tuple", """
local raw = rawget(frame.args, "_orig")
local t = raw and raw[2]
if type(t) ~= "userdata" then return "no-tuple" end
local ok, c = pcall(function() return t.__class__ end)
if ok and c ~= nil then return W(tostring(c)) end
ok, c = pcall(function() return t.count end)
if ok and c ~= nil then return W("method") end
return "items-only" """, ["py:type", "py:method-of-tuple"], "", "bridge")
# ---- frames ------------------------------------------------------------------------------
atk("frame_chain", """
local f, n = frame, 0
while f and n < 10 do
  for k, v in _orig_next, f do
    if type(v) == "userdata" then
      local ok, a = pcall(function() return v.args end)
      if ok and a ~= nil then return W("frame." .. tostring(k) .. ".args") end
    end
  end
  f = f:getParent() n = n + 1
end
local cf = mw.getCurrentFrame()
return "frames:" .. n .. ":" .. type(cf) """, ["py:Wtp"], "", "frames")

# ---- cache / loader abuse ----------------------------------------------------------------
atk("loader_abs_path", """
local t = require(S .. "/outside/secret")
return W(t.secret)""", ["host:file-read"], ABS, "loader")
atk("loader_abs_path_colon", """
local t = require((S .. "/outside/secret"):gsub("/", ":"))
return W(t.secret)""", ["host:file-read"], ABS, "loader")
atk("loader_abs_loadData", """
local t = mw.loadData(S .. "/outside/secret")
return W(t.secret)""", ["host:file-read"], ABS, "loader")
atk("loader_dotdot", """
local up = string.rep("../", 14)
for _, p in ipairs({up, string.rep("....//", 14), string.rep("..:", 14)}) do
  local ok, t = pcall(require, p .. S:sub(2) .. "/outside/secret")
  if ok and type(t) == "table" and t.secret then return W(t.secret) end
end
return "blocked" """, ["host:file-read"], "", "loader")
atk("loader_error_leak", """
local ok, e = pcall(require, S .. "/outside/notlua")
if not ok and tostring(e):find("TOPSECRET") then return W("leak:" .. tostring(e):sub(1, 80)) end
return "no-leak" """, ["host:file-read"], ABS, "loader")
atk("loader_set_python_loader", """
local ok = pcall(_lua_set_python_loader, function(n) return "return 1" end)
if ok then return W("loader replaced") end
return "refused" """, ["host:load"], "", "loader")
atk("reset_env_base", """
local e = _lua_reset_env()
if e.io ~= nil or e.loadstring ~= nil then return W("base env has host libs") end
return "base-env-clean" """, ["host:io", "host:load"], "", "loader")
atk("package_fake", """
if package.loadlib or package.loaded.io or package.path or package.cpath then return W("package") end
return "fake-package" """, ["host:package"], "", "loader")
atk("coroutine_env", """
local ok, co = pcall(require, "coroutine")
if not ok then return "no-coroutine" end
local r = co.wrap(function() return (io ~= nil or loadstring ~= nil or python ~= nil) and "leak" or "same" end)()
if r == "leak" then return W(r) end
return r""", ["host:_G"], "", "coroutine")
atk("xpcall_traceback", """
local _, tb = xpcall(function() error("x") end, debug.traceback)
if tostring(tb):find("luaexec.py") then return "trace-mentions-host" end
return "plain" """, ["host:debug"], "", "walk")


# ---- references carried by error values -----------------------------------------------------
# A Python helper that raises hands the exception OBJECT to the module's pcall; attributes of an
# exception without a leading underscore (AttributeError.obj, .args, .name ...) pass the attribute
# filter.  The attack calls every function it can reach (mw.*, title objects, frame, environment
# helpers) with a few argument vectors, keeps the error values and looks for the context behind them.
atk("error_value_references", """
local cur = mw.title.getCurrentTitle()
local cands = { {}, {cur.fullText}, {cur.text}, {cur}, {""}, {0}, {cur.fullText, 0}, {frame}, {{}} }
local seen, found = {}, nil
local function is_ctx(o)
  if type(o) ~= "userdata" then return false end
  for _, a in ipairs({"db_conn", "add_page", "expand", "lua", "db_path"}) do
    local ok, v = pcall(function() return o[a] end)
    if ok and v ~= nil then return true end
  end
  return false
end
local function inspect(e, depth)
  if found or type(e) ~= "userdata" or depth > 3 then return end
  if is_ctx(e) then found = e return end
  for _, a in ipairs({"obj", "args", "name", "value", "object", "filename", "__cause__", "__context__", "reason", "start", "end", "doc"}) do
    local ok, v = pcall(function() return e[a] end)
    if ok and v ~= nil then
      if is_ctx(v) then found = v return end
      if type(v) == "userdata" then
        inspect(v, depth + 1)
        for i = 0, 3 do local ok2, w = pcall(function() return v[i] end) if ok2 and w ~= nil then inspect(w, depth + 1) end end
      end
    end
  end
end
local function fuzz(f)
  for _, args in ipairs(cands) do
    local ok, e = pcall(f, unpack(args))
    if not ok then inspect(e, 0) end
    if found then return end
  end
end
local function walk(t, depth)
  if found or depth > 3 or seen[t] then return end
  seen[t] = true
  for k, v in pairs(t) do
    if type(v) == "function" then
      if type(k) ~= "string" or not (k:find("exit") or k:find("reset") or k:find("set_") or k:find("clear") or k == "error" or k == "assert" or k == "pcall" or k == "xpcall") then fuzz(v) end
    elseif type(v) == "table" then walk(v, depth + 1)
    elseif type(v) == "userdata" then pcall(function() fuzz(v) end) end
    if found then return end
  end
end
-- methods and computed properties of title objects live behind metatables: name them
for _, t in ipairs({cur, mw.title.new(cur.fullText), mw.title.new("Template:T"), mw.title.makeTitle(0, cur.text)}) do
  if type(t) == "table" then
    for _, m in ipairs({"getContent", "fileExists", "isSubpageOf", "inNamespace", "inNamespaces", "hasSubjectNamespace",
                        "subPageTitle", "partialUrl", "fullUrl", "localUrl", "canonicalUrl", "talkPageTitle", "subjectPageTitle"}) do
      local ok, f = pcall(function() return t[m] end)
      if ok and type(f) == "function" then
        for _, args in ipairs(cands) do
          local ok2, e = pcall(f, t, unpack(args))
          if not ok2 then inspect(e, 0) end
        end
      end
    end
    for _, prop in ipairs({"exists", "isRedirect", "contentModel", "redirectTarget", "file", "id", "protectionLevels", "cascadingProtection", "basePageTitle", "rootPageTitle"}) do
      local ok, e = pcall(function() return t[prop] end)
      if not ok then inspect(e, 0) end
    end
  end
  if found then break end
end
pcall(walk, cur, 0)
pcall(walk, frame, 0)
pcall(walk, mw, 0)
if found then
  local ok, r = pcall(function() return tostring(found.db_path) end)
  return W("ctx-from-error-value:" .. tostring(ok and r))
end
return "no-reference-in-error-values" """, ["py:Wtp"], "", "errors")


# ---- references carried by return values ----------------------------------------------------
# A helper may hand back a live host object (a Page of the store's memo, the context, a mutable
# container) instead of text: the attack builds title objects for every kind of page the store holds
# (ordinary, redirect with an existing target, dangling redirect, missing, module), calls every function
# it can reach with a few argument vectors, and walks the RETURNED values raw (next/rawget: private
# fields, no metamethods) looking for userdata that answers to data attributes of host objects.
atk("return_value_references", """
local cur = mw.title.getCurrentTitle()
local ATTRS = {"body", "redirect_to", "namespace_id", "need_pre_expand", "model", "db_conn", "db_path", "lua", "errors", "cookies", "expand_stack"}
local found, seen = nil, {}
local function is_host(u)
  if type(u) ~= "userdata" then return nil end
  for _, a in ipairs(ATTRS) do
    local ok, v = pcall(function() return u[a] end)
    if ok and v ~= nil then return a end
  end
  return nil
end
local function scan(v, depth, how)
  if found or depth > 5 then return end
  if type(v) == "userdata" then
    local a = is_host(v)
    if a then found = {how = how, attr = a, obj = v} end
    return
  end
  if type(v) ~= "table" or seen[v] then return end
  seen[v] = true
  local k, x = next(v)
  while k ~= nil and not found do
    scan(x, depth + 1, how .. "/" .. tostring(k))
    if type(k) ~= "string" and type(k) ~= "number" then scan(k, depth + 1, how .. "/<key>") end
    k, x = next(v, k)
  end
end
local names = {"Template:C06rdr", "Template:C06dang", "Template:C06tgt", "Template:C06none", "Module:c06victim", cur.fullText}
local cands = { {}, {cur.fullText}, {cur}, {""}, {0}, {frame} }
for _, n in ipairs(names) do
  table.insert(cands, {n})
  local ns, text = n:match("^(%a+):(.*)$")
  for _, t in ipairs({try(mw.title.new, n), ns and try(mw.title.makeTitle, ns, text) or nil}) do
    if type(t) == "table" then
      for _, prop in ipairs({"exists", "isRedirect", "redirectTarget", "contentModel", "id", "basePageTitle", "rootPageTitle", "talkPageTitle", "subjectPageTitle"}) do
        scan(try(function() return t[prop] end), 0, n .. "." .. prop)
      end
      scan(try(function() return t:getContent() end), 0, n .. ":getContent()")
      scan(t, 0, n)
      table.insert(cands, {t})
    end
  end
end
local walked = {}
local function walk(t, depth, how)
  if found or depth > 3 or walked[t] then return end
  walked[t] = true
  for k, v in pairs(t) do
    if type(v) == "function" then
      if type(k) ~= "string" or not (k:find("exit") or k:find("reset") or k:find("set_") or k:find("clear") or k == "error" or k == "assert" or k == "pcall" or k == "xpcall") then
        for _, args in ipairs(cands) do
          local r = { pcall(v, unpack(args)) }
          if r[1] then for i = 2, #r do scan(r[i], 0, how .. "." .. tostring(k) .. "()") end end
          if found then return end
        end
      end
    elseif type(v) == "table" then walk(v, depth + 1, how .. "." .. tostring(k))
    elseif type(v) == "userdata" then scan(v, 0, how .. "." .. tostring(k)) end
    if found then return end
  end
end
pcall(walk, mw, 0, "mw")
pcall(walk, frame, 0, "frame")
if found then
  local wrote = pcall(function() found.obj[found.attr] = found.obj[found.attr] end)
  return W("host-object-in-return-value:" .. found.how .. " attr=" .. found.attr .. " writable=" .. tostring(wrote))
end
return "no-host-object-in-return-values" """, ["py:Page", "py:Wtp"], "", "returns")


def module_source(a) -> str:
    return "local p = {}\nfunction p.main(frame)\n" + PRELUDE + a["body"] + "\nend\nreturn p\n"


def corpus(tier: str):
    return list(A)
