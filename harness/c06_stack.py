"""C06, fourth engine: the sandbox BOOKKEEPING as attacker-controlled state (spec/SandboxReachStack.tla).

The load engine (c06_load.py) binds a chunk to "the environment the entry point asked for" under a
WELL-FORMED environment stack.  The stack is not private to the dispatcher: every module environment
contains the helpers the sandbox uses for its own bookkeeping (_python_append_env, _python_top_env,
_lua_reset_env, _new_loader, _new_loadData, _cached_mod, _save_mod, _lua_set_timeout ...), page code
may call them with hostile arguments in any order BEFORE it uses an entry point, and page code can
even run while the stack is really empty (a metatable trap left on the retained `mw` table fires in
the environment reset of the next top-level #invoke).  Every loader path has the form
"_python_top_env() or <fallback>"; the unit of a case here is

   context of the page code  x  history of (bookkeeping manipulation | load) steps

  context = inv (module code of a top-level #invoke) | nested (of a nested #invoke) |
            reset (a trap firing inside the environment reset: the stack is empty)
  step    = push nil/false/a number/a table made by page code | a nested invocation that pushes and
            returns (popped by the dispatcher) | _lua_reset_env() | _save_mod(T, fake) | helpers
            without influence on environments | load through nested #invoke, require, mw.loadData,
            mw.loadJsonData, _new_loader(T), package.loaders[2], _new_loader(T, own table),
            _cached_mod;  in the same invocation / a later #invoke / a later page

M  MC_SandboxReachStack(.cfg/_T.cfg): StackConfined (no chunk of page source runs in the host table
   or a clone of it, no forbidden name visible - whatever page code did to the bookkeeping) and the
   declarative reference (ChunkEnvFromSandbox, RunsInRequestedEnvS, FallbackIsBase,
   DataEnvIgnoresStack, ResidueOnlyFromReset, SRunAgrees).  Demo_SandboxReachStack_*.cfg: with a
   fallback switched to the host table TLC itself finds the manipulation + load that leaks.
G  Gen_SandboxReachStack: TLC enumerates every case with what the design demands per step (what the
   consumer gets, what type(_python_top_env()) says, which names page code sees, what is left on the
   stack afterwards) and the outcomes under every modelled deviation.  The harness performs the
   steps with the REAL helpers of a real module environment (driver module c06st; the module under
   load carries the probe body of the load engine, extended by a marker global that only the table
   made by page code has), reads the deque and the real global table from the Python side.

VIOLATION only when page code really reports a forbidden name from the inside or really writes into
the host global table.  Everything else the model predicts (kind of value, type of the stack top,
residue, visibility of the marker) is DRIFT when the code differs.
"""
from __future__ import annotations

import json
import os
import re
import shutil
import sys
import tempfile
import time
from concurrent.futures import ThreadPoolExecutor
from pathlib import Path

import common
import luafix
import c06_load
from c06_load import SINK, _Quiet, fmt_shape, seen_names, source
from common import Scratch, tlc

LEAK_LABELS = ["HostFallbackLoader", "HostFallbackLoader+FallbackNilOnly",
               "DataEnvFromStack+HostFallbackLoadData", "DataEnvFromStack+HostFallbackLoadData+FallbackNilOnly"]
DEV_LABELS = LEAK_LABELS + ["DataEnvFromStack"]
MARKER_DEFAULT = "c06foreign"

# ---------------------------------------------------------------------------
# concretisation: the driver modules
# ---------------------------------------------------------------------------

DRIVER = r"""
local p = {}
local MARKER = "@MARKER@"
local function clean(s) return (string.gsub(tostring(s), "[^\32-\122|~]", "?")) end   -- printable ASCII, no braces
local function describe(ok, m)
  local reps = {}
  local got
  if not ok then
    got = "error"
    reps[#reps + 1] = clean(m)
  elseif type(m) == "table" then
    got = "table"
    reps[#reps + 1] = clean(rawget(m, "result"))
    local f = rawget(m, "probe")              -- a function of the module, called later
    if type(f) == "function" then
      local ok2, r = pcall(f)
      reps[#reps + 1] = clean(r)
    end
  elseif m == nil then
    got = "nil"
  else
    got = type(m)
    reps[#reps + 1] = clean(m)
  end
  return got, table.concat(reps, " ")
end
-- a table of page code's own making: a copy of this module's environment plus a marker global
local function foreign()
  local f = {}
  for k, v in pairs(_G) do f[k] = v end
  f.__c06r = nil
  f[MARKER] = true
  f._G = f
  return f
end
local function value(v)
  if v == "nil" then return nil end
  if v == "false" then return false end
  if v == "scalar" then return 5 end
  if v == "foreign" then return foreign() end
  error("unknown value class " .. tostring(v))
end
local NA = "UNAVAILABLE"
-- one step; kind.arg
local function doop(frame, op, name)
  local T = "Module:" .. name
  local kind, arg = string.match(op, "^(%a+)%.(.+)$")
  if kind == "push" then
    if type(_python_append_env) ~= "function" and type(_python_append_env) ~= "userdata" then return NA, "" end
    local ok, e = pcall(_python_append_env, value(arg))
    if not ok then return "REFUSED", clean(e) end
    return "ok", ""
  elseif kind == "npush" then
    if frame == nil then return NA, "" end
    local ok, txt = pcall(frame.preprocess, frame, "{{#invoke:c06sth|push|" .. arg .. "}}")
    if not ok or txt ~= "pushed" then return NA, clean(txt) end
    return "ok", ""
  elseif kind == "reset" then
    if type(_lua_reset_env) ~= "function" then return NA, "" end
    local ok, e = pcall(_lua_reset_env)
    if not ok then return "REFUSED", clean(e) end
    return "ok", ""
  elseif kind == "save" then
    if type(_save_mod) ~= "function" then return NA, "" end
    local ok, e = pcall(_save_mod, T, "c06fake")
    if not ok then return "REFUSED", clean(e) end
    return "ok", ""
  elseif kind == "noop" then
    local h = _G[arg]
    if h == nil then return NA, "" end
    if arg == "_lua_set_timeout" then pcall(h, 50)
    elseif arg == "_lua_set_python_loader" then pcall(h, function() return nil end)
    else pcall(h) end
    return "ok", ""
  elseif kind == "load" then
    if arg == "nested" then
      if frame == nil then return NA, "" end
      local ok2, txt = pcall(frame.preprocess, frame, "{{#invoke:" .. name .. "|main}}")
      txt = clean(txt)
      return ((ok2 and string.sub(txt, 1, 5) == "MSEEN") and "text" or "error"), txt
    end
    local ok, m
    if arg == "require" then ok, m = pcall(require, T)
    elseif arg == "loadData" then ok, m = pcall(mw.loadData, T)
    elseif arg == "loadJsonData" then ok, m = pcall(mw.loadJsonData, T)
    elseif arg == "cachedmod" then
      if type(_cached_mod) ~= "function" then return NA, "" end
      ok, m = pcall(_cached_mod, T)
    elseif arg == "loader" or arg == "loaderenv" then
      if type(_new_loader) ~= "function" then return NA, "" end
      ok, m = pcall(function()
        local f, msg
        if arg == "loaderenv" then f, msg = _new_loader(T, foreign()) else f, msg = _new_loader(T) end
        if not f then error(msg, 0) end
        return f() end)
    elseif arg == "pkgloader" then
      if type(package) ~= "table" or type(package.loaders) ~= "table" then return NA, "" end
      ok, m = pcall(function()
        local ld = package.loaders[2] or package.loaders[1]
        local f, msg = ld(T) if not f then error(msg, 0) end return f() end)
    else return NA, "unknown entry" end
    return describe(ok, m)
  end
  return NA, "unknown op"
end
local function runops(frame, name, ops)
  local out = {}
  for op in string.gmatch(ops or "", "[^;]+") do
    __c06r = nil
    local ok, got, rep = pcall(doop, frame, op, name)
    if not ok then got, rep = "DRIVERERROR", clean(got) end
    local top = "?"
    if _python_top_env ~= nil then
      local ok3, t = pcall(_python_top_env)
      top = ok3 and type(t) or "?"
    end
    out[#out + 1] = op .. "=" .. got .. "=" .. top .. "=" .. tostring(rep) .. " SINK:" .. clean(__c06r)
  end
  return "ST{" .. table.concat(out, "}{") .. "}"
end
-- context inv / nested: module code of an invocation
function p.run(frame)
  return runops(frame, frame.args[1], frame.args[2])
end
-- context reset: leave a trap on the retained mw table; it fires inside the environment reset of the next
-- top-level #invoke (string.uupper = mw.ustring.upper in _lua_set_functions), while the stack is empty
function p.plant(frame)
  local name, ops = frame.args[1], frame.args[2]
  local smw = require("mw")                    -- the retained table, not this invocation's clone
  local real = rawget(smw, "ustring")
  if type(real) ~= "table" then return "notrap" end
  rawset(smw, "c06res", nil)
  rawset(smw, "ustring", setmetatable({}, {__index = function(t, k)
    rawset(smw, "ustring", real)
    local ok, res = pcall(runops, nil, name, ops)
    rawset(smw, "c06res", ok and res or ("TRAPERROR " .. clean(res)))
    return real[k]
  end}))
  return "planted"
end
function p.collect(frame)
  local smw = require("mw")
  local r = rawget(smw, "c06res")
  rawset(smw, "c06res", nil)
  return tostring(r)
end
return p
"""
OUTER = r"""
local p = {}
function p.outer(frame)
  return frame:preprocess("{{#invoke:c06st|run|" .. frame.args[1] .. "|" .. frame.args[2] .. "}}")
end
return p
"""
HELPER = r"""
local h = {}
function h.push(frame)
  local v = frame.args[1]
  if v == "nil" then _python_append_env(nil)
  elseif v == "foreign" then _python_append_env({ @MARKER@ = true })
  else error("unknown value class") end
  return "pushed"
end
return h
"""


def modules(marker: str) -> dict:
    if not re.fullmatch(r"[A-Za-z_]\w*", marker):
        raise ValueError(f"marker {marker!r} is not a Lua name")
    return {"c06st": DRIVER.replace("@MARKER@", marker), "c06sto": OUTER, "c06sth": HELPER.replace("@MARKER@", marker)}


def tok(s) -> str:
    return s["k"] + "." + s["a"]


def fmt_step(s) -> str:
    k, a = s["k"], s["a"]
    if k == "push":
        txt = {"nil": "_python_append_env(nil)", "false": "_python_append_env(false)", "scalar": "_python_append_env(5)",
               "foreign": "_python_append_env(<own table>)"}.get(a, f"_python_append_env(<{a}>)")
    elif k == "npush":
        txt = f"nested invocation doing _python_append_env(<{a}>) and returning"
    elif k == "reset":
        txt = "_lua_reset_env()"
    elif k == "save":
        txt = "_save_mod(T, <fake>)"
    elif k == "noop":
        txt = f"{a}()"
    else:
        txt = {"nested": "nested #invoke of T", "require": "require(T)", "loadData": "mw.loadData(T)",
               "loadJsonData": "mw.loadJsonData(T)", "loader": "_new_loader(T)()", "pkgloader": "package.loaders[2](T)()",
               "loaderenv": "_new_loader(T, <own table>)()", "cachedmod": "_cached_mod(T)"}.get(a, a)
    return txt if s["b"] == "same" else f"[{s['b']}] {txt}"


CX_TEXT = {"inv": "module code of a top-level #invoke", "nested": "module code of a nested #invoke (frame:preprocess)",
           "reset": "page code running inside the environment reset of the next top-level #invoke (metatable trap left on the "
                    "retained mw table by an earlier module; the environment stack is empty)"}


def segments(steps):
    segs = []
    for i, s in enumerate(steps):
        if not segs or s["b"] != "same":
            segs.append((s["b"] if segs else "page", []))
        segs[-1][1].append(i)
    return segs


def pyclass(x) -> str:
    if x is None:
        return "nil"
    if isinstance(x, bool):
        return "boolean"
    if isinstance(x, (int, float)):
        return "number"
    return "table"


# ---------------------------------------------------------------------------
# running one case on the real code
# ---------------------------------------------------------------------------

class NotExecutable(Exception):
    pass


def run_case(ctx, name: str, c: dict, names) -> dict:
    """-> {"steps": [{"got","top","sees"}], "segs": [{"steps","hostwrite","residue","extra","where"}]}"""
    steps = c["steps"]
    luafix.add_modules(ctx, {name: source(c["shape"], names)})
    g = ctx.lua.globals()
    st = [None] * len(steps)
    segs = []
    for si, (bound, idxs) in enumerate(segments(steps)):
        if bound == "page":
            ctx.start_page(f"Ts{si}")      # clears the environment stack and the loadData cache
        n0 = len(ctx.lua_env_stack.seen)
        cxk = c["cx"] if si == 0 else "inv"
        ops = ";".join(tok(steps[i]) for i in idxs)
        if cxk == "inv":
            out = ctx.expand("{{#invoke:c06st|run|%s|%s}}" % (name, ops))
        elif cxk == "nested":
            out = ctx.expand("{{#invoke:c06sto|outer|%s|%s}}" % (name, ops))
        elif cxk == "reset":
            a = ctx.expand("{{#invoke:c06st|plant|%s|%s}}" % (name, ops))
            if a != "planted":
                raise NotExecutable(f"trap could not be planted: {a[:80]!r}")
            out = ctx.expand("{{#invoke:c06st|collect}}")
            if out == "nil":
                raise NotExecutable("the trap on the retained mw table did not fire during the environment reset")
        else:
            raise RuntimeError(f"context {cxk!r}")
        blocks = re.findall(r"\{([^{}]*)\}", out[2:]) if out.startswith("ST{") else []
        if len(blocks) != len(idxs):
            raise RuntimeError(f"stack driver did not run ({cxk}): {out[:200]!r} for {ops!r}")
        where = {}
        for i, b in zip(idxs, blocks):
            op, g1, top, rest = b.split("=", 3)
            if op != tok(steps[i]):
                raise RuntimeError(f"stack driver answered {op!r} for {tok(steps[i])!r}")
            if g1 == "UNAVAILABLE":
                raise NotExecutable(f"{op}: helper not available in this module environment {rest[:60]}")
            if g1 == "REFUSED":
                raise NotExecutable(f"{op}: the helper refuses this argument ({rest[:60].strip()})")
            if g1 == "DRIVERERROR":
                raise RuntimeError(f"stack driver failed in {op}: {rest[:200]}")
            s = seen_names(rest)
            st[i] = {"got": g1, "top": top, "sees": sorted(s)}
            if s:
                where[f"reported to the page code that did {fmt_step(steps[i])}"] = sorted(s)
        # Python side: environments pushed during this segment, the REAL global table, what is left on the deque
        extra = set()
        for env in ctx.lua_env_stack.seen[n0:]:
            if pyclass(env) != "table":
                continue
            try:
                s = seen_names(env[SINK])
            except Exception:
                s = set()
            if s:
                where["global of a captured module environment"] = sorted(s)
                extra |= s
        del ctx.lua_env_stack.seen[:]
        del ctx.lua_frame_stack.seen[:]
        hostwrite = False
        if g[SINK] is not None:
            hostwrite = True
            s = seen_names(g[SINK])
            if s:
                where["global of the HOST global table"] = sorted(s)
                extra |= s
            g[SINK] = None
        residue = [pyclass(x) for x in ctx.lua_env_stack]
        for x in ctx.lua_env_stack:      # a table that stays on the deque is cloned by later invocations: no stale reports
            if pyclass(x) == "table":
                try:
                    x[SINK] = None
                except Exception:
                    pass
        reported = set().union(*[set(st[i]["sees"]) for i in idxs])
        segs.append({"steps": list(idxs), "hostwrite": hostwrite, "residue": residue, "sees": sorted(reported | extra),
                     "extra": sorted(extra - reported), "where": where})
    return {"steps": st, "segs": segs}


_WORK = {}


def _chunk(items):
    common.use_repo()
    base = Path(_WORK["base"])
    names = _WORK["names"]
    out = []
    if not items:
        return out
    d = Path(tempfile.mkdtemp(prefix="b", dir=base))
    try:
        with _Quiet():
            ctx = luafix.make_ctx(d, modules(_WORK["marker"]), {}, record=True)
            if ctx.expand("{{#invoke:c06st|run|c06sth|load.cachedmod}}")[:3] != "ST{":
                raise RuntimeError("stack driver does not work in this sandbox")
            try:
                for idx, c in items:
                    try:
                        out.append((idx, run_case(ctx, f"c06s{idx}", c, names), None))
                    except NotExecutable as e:
                        out.append((idx, None, "NX:" + str(e)[:200]))
                    except Exception as e:  # machinery
                        out.append((idx, None, repr(e)[:300]))
                    finally:
                        # leave nothing behind for the next case of this worker
                        try:
                            ctx.start_page("Tclean")
                            ctx.lua.globals()[SINK] = None
                        except Exception:
                            pass
            finally:
                luafix.close_ctx(ctx)
    finally:
        shutil.rmtree(d, ignore_errors=True)
    return out


def run_many(cases: list, base: Path, names, marker) -> list:
    """-> per case the observation, or ("NX", reason) when the case cannot be executed in this sandbox"""
    _WORK["base"] = str(base)
    _WORK["names"] = list(names)
    _WORK["marker"] = marker
    base.mkdir(parents=True, exist_ok=True)
    res = common.pmap(_chunk, list(enumerate(cases)))
    res.sort(key=lambda t: t[0])
    errs = [e for _, _, e in res if e and not e.startswith("NX:")]
    if errs:
        raise RuntimeError(f"stack cases failed to run ({len(errs)}): {errs[0]}")
    return [o if e is None else ("NX", e[3:]) for _, o, e in res]


def live_helpers(d: Path, marker: str) -> dict:
    """names of the sandbox-internal helpers a module environment really contains: every global whose name starts
    with '_' and whose value can be called"""
    import lupa.lua51 as lupa_mod
    with _Quiet():
        ctx = luafix.make_ctx(d, modules(marker), {}, record=True)
        ctx.expand("{{#invoke:c06st|run|c06sth|load.cachedmod}}")
        env = next(e for e in reversed(ctx.lua_env_stack.seen) if pyclass(e) == "table")
        res = {}
        for k, v in env.items():
            if isinstance(k, str) and k.startswith("_"):
                t = lupa_mod.lua_type(v)
                if t == "function" or (t is None and callable(v)):
                    res[k] = t or type(v).__name__
        luafix.close_ctx(ctx)
    return res


# ---------------------------------------------------------------------------
# projection shared by expectation, deviations and observation
# ---------------------------------------------------------------------------

def proj_model(outs, steps):
    """what of TLC's per-step outcome the harness can observe: per step what the consumer got and the type of the stack
    top afterwards; per invocation (segment) the union of the names seen (a chunk whose value never reaches the page
    code that loaded it - nested #invoke answering with an error - reports through a global of its environment only),
    whether a chunk wrote into the host global table, what stays on the deque"""
    res = []
    for _, idxs in segments(steps):
        res.append({"steps": [{"got": outs[i]["got"], "top": outs[i]["top"]} for i in idxs],
                    "sees": sorted(set().union(*[set(outs[i]["sees"]) for i in idxs])),
                    "hostwrite": any(outs[i]["hostwrite"] for i in idxs),
                    "residue": list(outs[idxs[-1]]["residue"])})
    return res


def proj_obs(obs):
    return [{"steps": [{"got": obs["steps"][i]["got"], "top": obs["steps"][i]["top"]} for i in s["steps"]],
             "sees": s["sees"], "hostwrite": s["hostwrite"], "residue": s["residue"]}
            for s in obs["segs"]]


# ---------------------------------------------------------------------------
# the engine
# ---------------------------------------------------------------------------

class Stack:
    def __init__(self, o, tier: str):
        self.o = o
        self.tier = tier
        self.scr = Scratch("c06k-")
        self.d = self.scr.__enter__()
        self.fast = None
        if os.path.isdir("/dev/shm") and os.access("/dev/shm", os.W_OK):
            try:
                self.fast = Path(tempfile.mkdtemp(prefix="c06k-", dir="/dev/shm"))
            except OSError:
                self.fast = None
        self.pool = None
        self.fut = {}
        self.res = {}
        self.timing = {}

    def close(self):
        if self.pool is not None:
            self.pool.shutdown(wait=True, cancel_futures=True)
            self.pool = None
        if self.fast is not None:
            shutil.rmtree(self.fast, ignore_errors=True)
        self.scr.__exit__(None, None, None)

    def gens(self):
        if self.tier == "thorough":
            return [("hist", "Gen_SandboxReachStack_T.cfg"), ("helpers", "Gen_SandboxReachStack_all_T.cfg")]
        return [("hist", "Gen_SandboxReachStack.cfg")]

    def demos(self):
        # every leaking deviation is also guarded by `breaks` of the generator run (vacuity check in finish)
        return ("datahost", "loaderhost") if self.tier == "thorough" else ("datahost",)

    # -- phase 1: TLC in the background (no fork of this process may happen while the threads live)
    def start(self):
        thorough = self.tier == "thorough"
        self.pool = ThreadPoolExecutor(max_workers=4)
        sub = self.pool.submit
        for tag, cfg in self.gens():
            self.fut["Gen_stack_" + tag] = sub(tlc, "Gen_SandboxReachStack", cfg, workers=1, timeout=1800)
        self.fut["MC_stack"] = sub(tlc, "MC_SandboxReachStack", "MC_SandboxReachStack_T.cfg" if thorough else "MC_SandboxReachStack.cfg",
                                   workers=8 if thorough else 2, timeout=1500, coverage=True)
        for name in self.demos():
            self.fut["Demo_stack_" + name] = sub(tlc, "MC_SandboxReachStack", f"Demo_SandboxReachStack_{name}.cfg", workers=1, check=False)

    # -- phase 2: wait for TLC, end the threads
    def collect(self):
        t0 = time.time()
        self.res = {k: f.result() for k, f in self.fut.items()}
        self.pool.shutdown(wait=True)
        self.pool = None
        self.timing["waited_for_background_tlc_s"] = round(time.time() - t0, 2)

    # -- phase 3: every generated case on the real code, verdicts
    def finish(self):
        o, res = self.o, self.res
        for k, r in res.items():
            o.add_tlc(k, r)
        cov = luafix.coverage_actions(res["MC_stack"].out)
        o.extra.setdefault("action_coverage", {}).update({k: v for k, v in cov.items() if k in ("STNext", "STInit")})
        if not cov.get("STNext"):
            raise common.TLCError("STNext never taken in MC_SandboxReachStack (vacuity)")
        demos = {}
        for name in self.demos():
            r = res["Demo_stack_" + name]
            demos[name] = bool(r.invariant_violated)
            if "StackConfined" not in (r.invariant_violated or []):
                raise common.TLCError(f"Demo_SandboxReachStack_{name} no longer violates StackConfined (vacuity guard)")
        summary = {"demo_deviation_violates_StackConfined": demos, "universes": {}}
        checked_helpers = False
        ndrift, drift_samples, nx = 0, [], {}
        t0 = time.time()
        for tag, _ in self.gens():
            r = res["Gen_stack_" + tag]
            cases = r.cases
            uni = r.tagged("UNIVERSE")
            if not cases or len(uni) < 1:
                raise common.TLCError("Gen_SandboxReachStack printed no case / no universe")
            uni = uni[0]
            forbidden = sorted(uni["forbidden"])
            marker = uni["marker"]
            names = forbidden + [marker]
            # every atom of the specification needs a concretisation
            if set(uni["manipkinds"]) - {"push", "npush", "reset", "save", "noop"} \
                    or set(uni["pushvals"]) - {"nil", "false", "scalar", "foreign"} or set(uni["contexts"]) - set(CX_TEXT):
                raise common.TLCError("atoms of SandboxReachStack have no concretisation in harness/c06_stack.py")
            breaks = {l: 0 for l in LEAK_LABELS}
            for c in cases:
                for l in c["breaks"]:
                    breaks[l] += 1
            dead = [l for l, n in breaks.items() if n == 0]
            if dead:
                raise common.TLCError(f"no case of the universe {tag} would expose the modelled deviations {dead} (vacuity)")
            summary["forbidden_names_probed"], summary["marker"] = forbidden, marker
            if not checked_helpers:
                # ---- the helpers a module environment REALLY contains against the roles the model gives them
                checked_helpers = True
                live = live_helpers(self.d / "helpers", marker)
                roles = dict(uni["helpers"])
                unknown = sorted(set(live) - set(roles))
                absent = sorted(set(roles) - set(live))
                summary["helpers"] = {"live": sorted(live), "not_in_model": unknown, "in_model_but_absent": absent}
                if unknown:
                    o.note_drift({"helpers_of_the_module_environment_not_in_the_bookkeeping_model": unknown,
                                  "note": "exported into every module environment, never called by the stack engine"})
                if absent:
                    o.note_drift({"helpers_of_the_bookkeeping_model_absent_from_the_module_environment": absent})
            # ---- every case for real
            obs_all = run_many(cases, (self.fast or self.d) / tag, names, marker)
            o.evaluations += sum(len(c["steps"]) for c in cases)
            o.traces += len(cases)
            nbad, nnx, per_cx = 0, 0, {}
            for c, obs in zip(cases, obs_all):
                per_cx[c["cx"]] = per_cx.get(c["cx"], 0) + 1
                if isinstance(obs, tuple):
                    nx[obs[1]] = nx.get(obs[1], 0) + 1
                    nnx += 1
                    continue
                v = self.judge(c, obs, forbidden, "G/stack/" + tag)
                if v == "drift":
                    ndrift += 1
                    if len(drift_samples) < 3:
                        drift_samples.append({"context": c["cx"], "history": [fmt_step(s) for s in c["steps"]],
                                              "expected": proj_model(c["exp"], c["steps"]), "observed": proj_obs(obs)})
                elif v == "bad":
                    nbad += 1
                if any(s["k"] != "load" for s in c["steps"]) or c["cx"] != "inv":
                    o.shape(("stack", c["cx"], c["shape"]["form"], c["shape"]["pre"], tuple((s["k"], s["a"], s["b"]) for s in c["steps"])))
            if nnx == len(cases):
                raise RuntimeError(f"no case of the stack engine could be executed: {nx}")
            done = [(c, ob) for c, ob in zip(cases, obs_all) if not isinstance(ob, tuple)]
            c, ob = done[-1]
            o.sample({"stack_context": c["cx"], "history": [fmt_step(s) for s in c["steps"]],
                      "expected": proj_model(c["exp"], c["steps"]), "observed": proj_obs(ob)})
            summary["universes"][tag] = {
                "cases": len(cases), "cases_per_context": per_cx, "max_history": max(len(c["steps"]) for c in cases),
                "cases_with_a_manipulation": sum(1 for c in cases if any(s["k"] != "load" for s in c["steps"])),
                "cases_in_which_page_code_saw_the_table_it_pushed": sum(1 for c, ob in done if any(marker in s["sees"] for s in ob["steps"])),
                "cases_leaking_under_deviation": breaks, "violating": nbad, "not_executable": nnx}
        if nx:
            o.note_drift({"stack_cases_not_executable_in_this_sandbox": nx})
        if ndrift:
            o.note_drift({"bookkeeping_outcomes_differ_while_confined": ndrift, "samples": drift_samples})
        self.timing["generated_cases_for_real_s"] = round(time.time() - t0, 2)
        summary["timing"] = self.timing
        o.extra["stack"] = summary

    def judge(self, c, obs, forbidden, origin) -> str:
        exp = proj_model(c["exp"], c["steps"])
        ob = proj_obs(obs)
        fb = set(forbidden)
        leaked = any(set(s["sees"]) & fb for s in obs["steps"]) or any(s["hostwrite"] or (set(s["extra"]) & fb) for s in obs["segs"])
        if not leaked:
            return "ok" if ob == exp else "drift"
        alt = c["alt"] if isinstance(c["alt"], dict) else {}
        explained = [l for l in DEV_LABELS if l in alt and proj_model(alt[l], c["steps"]) == ob]
        self.report(c, obs, forbidden, explained, origin)
        return "bad"

    def report(self, c, obs, forbidden, explained, origin):
        steps = c["steps"]
        fb = set(forbidden)
        # the first step whose page code holds a forbidden name (or the segment with the host write)
        k = next((i for i, s in enumerate(obs["steps"]) if set(s["sees"]) & fb), None)
        if k is None:
            seg = next(s for s in obs["segs"] if s["hostwrite"] or set(s["extra"]) & fb)
            k = seg["steps"][-1]
            sees = sorted(set(seg["extra"]) & fb)
        else:
            seg = next(s for s in obs["segs"] if k in s["steps"])
            sees = sorted(set(obs["steps"][k]["sees"]) & fb)
        before = [f"{fmt_step(steps[i])} (type(_python_top_env()) = {obs['steps'][i]['top']})" for i in range(k)]
        pre_top = c["exp"][k - 1]["top"] if k > 0 and steps[k]["b"] == "same" else None
        why = (f"page-supplied Lua source is NOT confined once page code has touched the sandbox bookkeeping: in {CX_TEXT[c['cx']]}, "
               + (f"after {' ; '.join(before)}, " if before else "with an untouched, EMPTY environment stack, " if c["cx"] == "reset" else "")
               + f"{fmt_step(steps[k])} -> {obs['steps'][k]['got']} runs code of a Module page ({fmt_shape(c['shape'])}) that sees the "
               f"forbidden names {', '.join(sees) if sees else '(none reported)'} from the inside")
        if seg["hostwrite"]:
            why += ("; a global assignment made by the chunk landed in the REAL global table of the Lua runtime: the chunk was bound "
                    "to the host _G itself")
        else:
            why += "; nothing was written into the real global table: the chunk was bound to a COPY of the host global table"
        empty = c["cx"] == "reset" and steps[k]["b"] == "same" and not any(s["k"] == "push" for s in steps[:k])
        via = steps[k]["a"]
        if empty:
            state = "the environment stack was empty (_python_top_env() answers nil)"
        elif k > 0 and steps[k]["b"] == "same" and obs["steps"][k - 1]["top"] in ("nil", "boolean"):
            state = ("page code had put " + ("nil" if obs["steps"][k - 1]["top"] == "nil" else "false")
                     + " on top of the environment stack (_python_top_env() answers it)")
        else:
            state = "the environment stack had been manipulated by page code"
        why += f"; {state} when the entry point was used: "
        if via == "loadData":
            why += ("the design never derives the environment of a data module from the stack (new_loadData: a clone of the sandbox "
                    "base environment) - here it is derived from '_python_top_env() or <fallback>' and the fallback is the host global table")
        else:
            why += ("the design falls back to the sandbox base environment (new_loader: '_python_top_env() or env'; _lua_invoke: the "
                    "sandbox's own _G) - here the fallback taken is the host global table")
        if explained:
            why += f"; the observed outcomes are exactly those of the modelled deviation {'/'.join(explained)}"
        case = {"kind": "stack", "origin": origin, "cx": c["cx"], "shape": c["shape"], "steps": steps,
                "expected": proj_model(c["exp"], steps), "observed": proj_obs(obs), "where": [s["where"] for s in obs["segs"]],
                "forbidden": list(forbidden), "marker": MARKER_DEFAULT}
        kind = "hostG" if any(s["hostwrite"] for s in obs["segs"]) else "hostcopy"
        self.o.violation(case, why, cls=f"stack|{(explained or ['unexplained'])[0]}|{kind}|{via}|{'empty-stack' if empty else 'manipulated-stack'}")


def replay_case(case) -> int:
    marker = case.get("marker", MARKER_DEFAULT)
    names = list(case["forbidden"]) + [marker]
    with Scratch("c06kr-") as d:
        common.use_repo()
        with _Quiet():
            ctx = luafix.make_ctx(d, modules(marker), {}, record=True)
            ctx.expand("{{#invoke:c06st|run|c06sth|load.cachedmod}}")
            obs = run_case(ctx, "c06s0", {"cx": case["cx"], "shape": case["shape"], "steps": case["steps"]}, names)
            luafix.close_ctx(ctx)
    fb = set(case["forbidden"])
    bad = 0
    for x, ob, wh in zip(case["expected"], proj_obs(obs), [s["where"] for s in obs["segs"]]):
        flag = ""
        if ob["hostwrite"] or set(ob["sees"]) & fb:
            flag = "   <== page code holds host capabilities"
            bad = 1
        print(f"  expected {x}\n  observed {ob} {wh}{flag}")
    return bad


def selftest() -> bool:
    """a corrupted observation (what a modelled deviation predicts) is rejected and named; a corrupted expectation
    is noticed as drift (no false alarm)"""
    ok = True
    with Scratch("c06kt-") as d:
        r = tlc("Gen_SandboxReachStack", "Gen_SandboxReachStack.cfg", workers=1)
        uni = r.tagged("UNIVERSE")[0]
        forbidden, marker = sorted(uni["forbidden"]), uni["marker"]
        names = forbidden + [marker]
        lab = "DataEnvFromStack+HostFallbackLoadData"
        c = next(c for c in r.cases if c["cx"] == "inv" and len(c["steps"]) == 2 and c["steps"][0]["k"] == "push"
                 and c["steps"][0]["a"] == "nil" and c["steps"][1]["a"] == "loadData" and lab in c["breaks"])
        obs = run_many([c], d / "t", names, marker)[0]

        class O:
            def __init__(self):
                self.v = []

            def violation(self, case, why, cls=None):
                self.v.append(why)
        g = Stack.__new__(Stack)
        g.o = O()
        good = g.judge(c, obs, forbidden, "selftest")
        alt = c["alt"][lab]
        fake = {"steps": [{"got": e["got"], "top": e["top"], "sees": sorted(e["sees"])} for e in alt],
                "segs": [{"steps": idxs, "hostwrite": any(alt[i]["hostwrite"] for i in idxs), "residue": list(alt[idxs[-1]]["residue"]),
                          "sees": sorted(set().union(*[set(alt[i]["sees"]) for i in idxs])),
                          "extra": [], "where": {}} for _, idxs in segments(c["steps"])]}
        bad = g.judge(c, fake, forbidden, "selftest")
        print("stack: case", c["cx"], [fmt_step(s) for s in c["steps"]], "real outcome:", good, "; corrupted observation:", bad,
              "; explained:", lab in (g.o.v[0] if g.o.v else ""))
        ok &= good == "ok" and bad == "bad" and len(g.o.v) == 1 and lab in g.o.v[0]
        # the marker: a case in which the chunk must see the table made by page code; expectation corrupted -> drift
        c2 = next(c for c in r.cases if c["cx"] == "inv" and len(c["steps"]) == 2 and c["steps"][0] == {"k": "push", "a": "foreign", "b": "same"}
                  and c["steps"][1] == {"k": "load", "a": "require", "b": "same"})
        obs2 = run_many([c2], d / "t2", names, marker)[0]
        seen_marker = marker in obs2["steps"][1]["sees"]
        c3 = json.loads(json.dumps(c2))
        c3["exp"][1]["sees"] = []
        v = g.judge(c3, obs2, forbidden, "selftest")
        print("stack: chunk loaded after _python_append_env(<own table>) sees the marker:", seen_marker,
              "; expectation corrupted (marker not expected):", v)
        ok &= seen_marker and v == "drift" and g.judge(c2, obs2, forbidden, "selftest") == "ok"
    return ok
