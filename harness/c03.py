"""C03 — tables, HTML elements, links and template calls parse to their written structure.

M  spec/ParserStruct.tla is a twin of the fragment (Encode = inside-out cookie encoding,
   Lex = token_iter, one operator per handler).  On every written structure of the bounded
   universes of Gen_ParserStruct TLC checks  Equiv(MachineTree(Render(page), {}), TreeOf(page)).
G  the same runs print each structure with its rendering; the harness joins the atoms,
   parses the text with the real ctx.parse(), dumps the tree structurally (ptree2) and hands
   (page, real tree) back to TLC (Trace_ParserStruct), which computes TreeOf(page) and decides
   Equiv(real, TreeOf(page)).  The allowed-tag table is read from the working tree each run.
V  seeded random wider grids (mixed separator styles per row, nested tables, random attribute
   maps and contents) are rendered by TLC (universe FILE), parsed by the real code and
   validated the same way.
H  page histories / co-occurrence (universes PAIR, HIST): the cookie table of the inside-out
   encoding is state of the page (ParserStruct.RunFrom / SaveValue).  TLC enumerates families of
   constructs of one kind that are equal under some normalisation (line breaks / blanks at the
   edges of arguments, case, underscore, entities, argument order ...), every ordered pair /
   triple on one page, and histories start_page; parse()/expand(); parse() ... on one page.
   The real parser must give every construct its own written argument lists (independence of
   constructs); expected trees = TreeOf(text of that call), decided by Trace_ParserStruct.
A  written attributes (universe ATTR): an attribute of a written structure may carry the CHARACTERS of its
   value as atoms, its own delimiters (" ' none) and blanks around '='.  TLC enumerates value shapes (the quote
   character of the other kind at the start / end / both / inside / alone, blanks, = > &amp; URL punctuation,
   empty) x delimiters x the rest of the map x every site an attribute string is read at (start tag; {| |+ |-
   ! | positions, one cell per line and || / !! separated).  Expected map = TreeOf = the written value, what
   stands between the ONE pair of delimiters.  TLC also says whether a page is inside the statement's
   quantifier (`strict`: URL-safe values): only then a disagreement is a VIOLATION, otherwise DRIFT.
N  written NAMES (family NAME inside the ATTR worker): the name of an attribute may be written character by
   character too ([nw, w, q, eq]).  TLC carries a per-site table of the characters a name may hold besides
   letters and digits (ParserStruct.NameCharsAt: start tags - : _ . ; table positions additionally
   ~ ; , ( ) ? @ + * $ % & #) and enumerates one such character inside the name / at its end / twice x the
   delimiters of the value x the rest of the map x every site.  Expected map = the written map (the name is
   everything in front of the '=').  strict only for names over letters, digits, - . _ ~ : ; else DRIFT.
DRIFT: the real tree differs from the twin's tree (exact comparison) although the property holds.
"""
from __future__ import annotations

import json
import random
from pathlib import Path

import common
import ptree2
from common import Outcome, Scratch, pmap, tlc

PID = "C03"
ALL_DEVS = ["CaptionSwallowsDataCells", "TagAttrNameCharset", "RowCellsReadAsAttributes"]


# ---------------------------------------------------------------------------
# the allowed-tag table of the working tree
# ---------------------------------------------------------------------------
def tag_table() -> dict:
    common.use_repo()
    from wikitextprocessor.wikihtml import ALLOWED_HTML_TAGS

    return {
        k: {
            "parents": list(v.get("parents", [])),
            "content": list(v.get("content", [])),
            "closenext": list(v.get("close-next", [])),
            "noend": bool(v.get("no-end-tag", False)),
        }
        for k, v in ALLOWED_HTML_TAGS.items()
    }


def cfg_text(universe: str, part: int, parts: int, known, inv: str) -> str:
    ks = "{" + ", ".join('"%s"' % k for k in sorted(known)) + "}"
    return (
        "SPECIFICATION Spec\nCONSTANTS\n"
        f'  Universe = "{universe}"\n  Part = {part}\n  Parts = {parts}\n  Known = {ks}\n'
        "  Tags <- TagsFromFile\n"
        f"INVARIANT {inv}\nCHECK_DEADLOCK FALSE\n"
    )


def gen_one(universe, part, parts, known, tags_file, pages_file, inv):
    env = {"TAGS_FILE": tags_file}
    if pages_file:
        env["PAGES_FILE"] = pages_file
    return tlc("Gen_ParserStruct", "g.cfg", cfg_text=cfg_text(universe, part, parts, known, inv), workers=1,
               timeout=3000, env=env)


def trace_items(known, tags_file, items):
    """items: [(idx, page, real)] -> (TLCResult, {idx: bad-record})"""
    with Scratch("c03t-") as d:
        tf = d / "batch.json"
        tf.write_text(json.dumps({"known": sorted(known), "cases": [{"page": p, "real": r} for _, p, r in items]}))
        r = tlc("Trace_ParserStruct", "t.cfg",
                cfg_text="SPECIFICATION Spec\nCONSTANT Tags <- TagsFromFile\nINVARIANT Verdict\nCHECK_DEADLOCK FALSE\n",
                workers=1, timeout=3000, env={"TRACE_FILE": str(tf), "TAGS_FILE": tags_file})
    v = r.tagged("VERDICT")
    if not v or v[0]["consumed"] != len(items):
        raise common.TLCError("Trace_ParserStruct did not consume its batch")
    return r, {items[b["i"] - 1][0]: b for b in v[0]["bad"]}


def pipeline_job(jobs):
    """One worker does everything for its share of a universe: TLC enumerates and renders the
    structures (checking the law), the real parser parses them, TLC judges the recorded trees.
    Only a summary travels back to the parent."""
    common.use_repo()
    out = []
    for universe, part, parts, known, tags_file, pages_file, inv in jobs:
        g = gen_one(universe, part, parts, known, tags_file, pages_file, inv)
        # one unit = one parse() whose tree is judged.  In a history (HCASE) the units of one history
        # run on ONE page (one start_page), in order, expand() steps in between are executed too.
        cases = [dict(c, hist=None) for c in g.cases]
        groups = [[i] for i in range(len(cases))]
        for h in g.tagged("HCASE"):
            grp = []
            for k, st in enumerate(h["steps"]):
                before = [[x["op"], ptree2.concretise(x["text"])] for x in h["steps"][:k]]
                cases.append({"page": st["page"], "text": st["text"], "mt": st["mt"], "cov": st["cov"] if st["op"] == "parse" else [],
                              "law": True, "hist": before, "op": st["op"]})
                grp.append(len(cases) - 1)
            groups.append(grp)
        judged = [c for c in cases if c.get("op", "parse") == "parse"]
        summ = {"universe": universe, "gen": (g.distinct, g.generated, g.wall), "n": len(judged), "cov": {}, "shapes": set(),
                "trace": [0, 0, 0.0], "bad": [], "drift": 0, "drift_samples": [], "nolaw": [], "skipped": len(g.tagged("SKIP")),
                "exceptions": [], "sample": None}
        items = []
        with Scratch("c03-") as d:
            ctx = ptree2.new_ctx(d)
            try:
                for grp in groups:
                    ctx.start_page("Pg")
                    for i in grp:
                        c = cases[i]
                        for label in c["cov"]:
                            summ["cov"][label] = summ["cov"].get(label, 0) + 1
                        if not c.get("law", True):
                            summ["nolaw"].append(ptree2.concretise(c["text"]))
                        text = ptree2.concretise(c["text"])
                        if c.get("op", "parse") == "expand":
                            try:
                                ctx.expand(text)      # only what it leaves behind on the page matters here
                            except Exception as e:  # noqa: BLE001  (what expand() does is not this property's subject)
                                summ["drift"] += 1
                                summ["drift_samples"].append({"text": text, "twin": "expand() returns", "real": repr(e)})
                            continue
                        try:
                            t = ptree2.node(ctx.parse(text))
                        except Exception as e:  # noqa: BLE001
                            if not c.get("strict", True):     # outside the statement's quantifier (TLC: UrlSafePage)
                                summ["drift"] += 1
                                summ["drift_samples"].append({"text": text, "twin": "parse() returns", "real": repr(e), "note": NOT_STRICT})
                                continue
                            summ["exceptions"].append({"text": text, "exception": repr(e), "page": c["page"], "history": c["hist"] or []})
                            continue
                        items.append((i, c["page"], t))
            finally:
                ctx.db_conn.close()
        real = {i: t for i, _, t in items}
        bad = {}
        for k in range(0, len(items), 2000):
            r, b = trace_items(known, tags_file, items[k:k + 2000])
            summ["trace"][0] += r.distinct
            summ["trace"][1] += r.generated
            summ["trace"][2] += r.wall
            bad.update(b)
        for i, _, t in items:
            c = cases[i]
            summ["shapes"].add(ptree2.shape(t))
            text = ptree2.concretise(c["text"])
            if i in bad and not bad[i].get("strict", True):
                # TLC: the page holds an attribute value outside the URL-safe set the statement quantifies over;
                # the model (the written value, character by character) predicts more than the statement says
                summ["drift"] += 1
                if len(summ["drift_samples"]) < 4:
                    summ["drift_samples"].append({"text": text, "twin": ptree2.show(bad[i]["expected"]), "real": ptree2.show(t),
                                                  "note": NOT_STRICT + attr_note(bad[i]["expected"], t)})
            elif i in bad:
                b = bad[i]
                summ["bad"].append({"text": text, "expected": ptree2.show(b["expected"]), "got": ptree2.show(t),
                                    "page": c["page"], "devs": sorted(b["devs"]),
                                    "cls": classify(b["expected"], t, universe),
                                    "history": c["hist"] or [], "note": diagnose(b["expected"], t, text, c["hist"])})
            elif t != c["mt"]:
                summ["drift"] += 1
                if len(summ["drift_samples"]) < 2:
                    summ["drift_samples"].append({"text": text, "twin": ptree2.show(c["mt"]), "real": ptree2.show(t)})
        if cases:
            mid = cases[len(cases) // 2]
            summ["sample"] = "; ".join(f"{op}({tx!r})" for op, tx in (mid["hist"] or []) + [[mid.get("op", "parse"), ptree2.concretise(mid["text"])]]) \
                if mid["hist"] is not None else ptree2.concretise(mid["text"])
        out.append(summ)
    return out


def run_plan(o: Outcome, plan: list, known, tags_file: str, pages_file: str | None = None) -> dict:
    """plan: [(universe, parts, invariant)]; all jobs of all universes share one process pool."""
    jobs = []
    for universe, parts, inv in plan:
        # the as-is machine of the pending deviations is only needed where the universe reaches them
        kn = set(known) | (PENDING_DECISION if universe in ("SEP", "SEPT") else set())
        jobs += [(universe, p, parts, sorted(kn), tags_file, pages_file if universe == "FILE" else None, inv)
                 for p in range(parts)]
    jobs.sort(key=lambda j: 0 if j[0] in ("GQ", "GT") else 1)
    res = pmap(pipeline_job, jobs, chunk=1)
    per = {}
    cov = {}
    pending = {}
    for s in res:
        u = s["universe"]
        a = per.setdefault(u, {"n": 0, "gen": common.TLCResult("", 0, 0.0), "trace": common.TLCResult("", 0, 0.0), "skipped": 0, "sample": None})
        a["n"] += s["n"]
        a["skipped"] += s["skipped"]
        a["gen"].distinct += s["gen"][0]
        a["gen"].generated += s["gen"][1]
        a["gen"].wall = max(a["gen"].wall, s["gen"][2])
        a["trace"].distinct += s["trace"][0]
        a["trace"].generated += s["trace"][1]
        a["trace"].wall = max(a["trace"].wall, s["trace"][2])
        a["sample"] = a["sample"] or s["sample"]
        for k, v in s["cov"].items():
            cov[k] = cov.get(k, 0) + v
        o.evaluations += s["n"]
        o.traces += s["n"] - len(s["exceptions"])
        for sh in s["shapes"]:
            o.shape(sh)
        origin = "V" if u == "FILE" else "G"
        if s["nolaw"]:
            raise common.TLCError(f"{len(s['nolaw'])} random page(s) violate the model's own law, e.g. {s['nolaw'][0]!r}")
        for e in s["exceptions"]:
            o.violation({"origin": origin, "universe": u, "text": e["text"], "page": e["page"], "history": e.get("history", [])},
                        f"parse({e['text']!r}){after(e.get('history'))} raised {e['exception']}", cls="exception")
        for b in s["bad"]:
            if b["devs"] and all(dv in PENDING_DECISION and dv not in o.known for dv in b["devs"]):
                # TLC: the as-is machine with exactly these switches reproduces the real tree.  A genuine defect of the
                # tree with a proposed fix whose triage (fix in /repo or entry in known_findings.json) is still open
                pending[tuple(b["devs"])] = pending.get(tuple(b["devs"]), 0) + 1
                if pending[tuple(b["devs"])] <= 1:
                    o.note_drift({"text": b["text"], "twin": b["expected"], "real": b["got"],
                                  "note": f"GENUINE DEFECT, decision pending (deviation {','.join(b['devs'])}, {PENDING_FIX}): "
                                          f"parse({b['text']!r}) does not have the written structure{b['note']}"})
                else:
                    o.drift_count += 1
                continue
            case = {"origin": origin, "universe": u, "text": b["text"], "expected": b["expected"], "got": b["got"], "page": b["page"],
                    "history": b["history"]}
            o.classify(case, f"parse({b['text']!r}){after(b['history'])} does not have the written structure{b['note']}", b["devs"], cls=b["cls"])
        o.drift_count += max(0, s["drift"] - len(s["drift_samples"]))
        for dsm in s["drift_samples"]:
            o.note_drift(dsm)
    for universe, parts, inv in plan:
        if universe in per:
            o.add_tlc(f"Gen_ParserStruct[{universe}] law+cases x{parts}", per[universe]["gen"])
            o.add_tlc(f"Trace_ParserStruct[{universe}]", per[universe]["trace"])
    if pending:
        o.extra["pending_decision_cases"] = {",".join(k): v for k, v in pending.items()}
    return {"per": per, "cov": cov}


def classify(exp, got, universe) -> str:
    """Coarse class of a disagreement (for grouping replays only)."""
    ek, gk = sorted(ptree2.kinds(exp)), sorted(ptree2.kinds(got))
    if ek != gk:
        return f"{universe}:kinds -{','.join(sorted(set(ek) - set(gk)))} +{','.join(sorted(set(gk) - set(ek)))}"
    if [k for k, _ in attr_nodes(exp)] == [k for k, _ in attr_nodes(got)] and attr_nodes(exp) != attr_nodes(got):
        return f"{universe}:attribute-map"
    return f"{universe}:same-kinds"


def after(history) -> str:
    if not history:
        return ""
    return " after " + ", ".join(f"{op}({tx!r})" for op, tx in history) + " on the same page (no start_page in between)"


CALL_KINDS = ("TEMPLATE", "TEMPLATE_ARG", "PARSER_FN", "LINK", "URL")

# Deviations of ParserStruct.tla that model genuine defects of the working tree found by the universe SEP whose
# triage is still open (proposed fix not yet applied to /repo, no entry in known_findings.json).  Cases that TLC
# attributes to exactly these switches are reported as DRIFT with the words GENUINE DEFECT instead of VIOLATION;
# everything else of the universe stays strict.  EMPTY THIS SET once the fix is in /repo (then a regression is a
# VIOLATION) or once the deviation is listed as a finding (then it is a KNOWN-FINDING).
PENDING_DECISION = set()      # both repaired in /repo (d4dbae2, b241a1c): a case TLC attributes to these switches is a VIOLATION again
PENDING_FIX = "proposed_fixes/C03-hdr-sep-inside-call-and-format.diff"


def calls(t, out=None) -> list:
    """(kind, largs) of the call / link nodes of an abstract tree in document order (messages only)."""
    out = [] if out is None else out
    if isinstance(t, list):
        for x in t:
            calls(x, out)
    elif "s" not in t:
        if t["kind"] in CALL_KINDS:
            out.append((t["kind"], t["largs"]))
        for a in t["largs"] + t["defn"] + [t["children"]]:
            calls(a, out)
    return out


def argtext(largs) -> str:
    return "|".join("".join(ptree2.concretise(x["s"]) if "s" in x else "<" + x["kind"] + ">" for x in a) for a in largs)


NOT_STRICT = "attribute name / value outside the URL-safe set of the statement's quantifier: DRIFT, not a violation"


def attr_nodes(t, out=None) -> list:
    """(kind + tag, {name: value}) of every node of an abstract tree in document order (messages only)."""
    out = [] if out is None else out
    if isinstance(t, list):
        for x in t:
            attr_nodes(x, out)
    elif "s" not in t:
        out.append((t["kind"] + (" " + ptree2.concretise(t["sarg"]) if t["sarg"] else ""), {a["n"]: a["v"] for a in t["attrs"]}))
        for a in t["largs"] + t["defn"] + [t["children"]]:
            attr_nodes(a, out)
    return out


def attr_note(exp, got) -> str:
    """Words for a case TLC has rejected: the first node whose attribute map is not the written one."""
    en, gn = attr_nodes(exp), attr_nodes(got)
    if [k for k, _ in en] != [k for k, _ in gn]:
        return ""
    for (k, ea), (_, ga) in zip(en, gn):
        if ea != ga:
            parts = []
            for n in ea:
                if n not in ga:
                    parts.append(f"{n} is missing")
                elif ga[n] != ea[n]:
                    how = ""
                    if ga[n] != ea[n] and ga[n] in ea[n]:
                        lost = ea[n].replace(ga[n], "", 1) if ga[n] else ea[n]
                        how = (f" - the value lost {lost!r}, characters of the value itself (the value is what stands between "
                               "the ONE pair of delimiters; a quote character of the other kind, wherever it stands, belongs to it)")
                    parts.append(f"{n} is written {ea[n]!r} but parsed as {ga[n]!r}{how}")
            parts += [f"{n}={ga[n]!r} was not written" for n in ga if n not in ea]
            for n in ea:
                # a written name that came back in pieces (presentation only; the verdict is TLC's)
                pieces = [g for g in ga if g not in ea and g and g in n]
                if n not in ga and pieces:
                    cut = sorted({c for c in n if not any(c in g for g in pieces)})
                    parts.append(f"the written name {n!r} was cut into {pieces!r} at {''.join(cut)!r}: in a table position "
                                 "(and wherever parse_attrs reads an attribute string) a name is everything in front of the '=' "
                                 "that cannot end a name, not only the characters HTML start tags accept")
            return f": attribute map of {k} is not exactly the written map: " + "; ".join(parts)
    return ""


def diagnose(exp, got, text, history) -> str:
    """Words for the message of a case TLC has rejected (never part of a verdict): which construct
    lost its written argument list, and whether it got the list of another construct of the page /
    whether the same text parses differently on a fresh page."""
    note = attr_note(exp, got)
    ec, gc = calls(exp), calls(got)
    if len(ec) == len(gc):
        for i, ((ek, ea), (gk, ga)) in enumerate(zip(ec, gc)):
            if ea != ga or ek != gk:
                note = f": construct #{i + 1} is written {ek}({argtext(ea)!r}) but parsed as {gk}({argtext(ga)!r})"
                other = [j for j, (k2, a2) in enumerate(ec) if j != i and a2 == ga]
                if other:
                    note += (f", the argument list written for construct #{other[0] + 1} of the same page "
                             "(constructs that differ only slightly must not share one cookie of the inside-out encoding)")
                break
    if not note:
        ek, gk = ptree2.kinds(exp), ptree2.kinds(got)
        if ek - gk:
            note = f": no {', '.join(sorted(ek - gk))} node in the parsed tree (what was written as one stayed text or was absorbed elsewhere)"
    if history:
        try:
            with Scratch("c03d-") as d:
                ctx = ptree2.new_ctx(d)
                fresh = ptree2.node(ptree2.parse(ctx, text))
                ctx.db_conn.close()
            if fresh != got:
                note += ("; on a fresh page the same text parses differently: the result depends on what the page held before "
                         "(cookie table of the page, independence of constructs)")
        except Exception:  # noqa: BLE001
            pass
    return note


# ---------------------------------------------------------------------------
# V: random wider pages
# ---------------------------------------------------------------------------
WORDS = ["w1", "w2", "w3", "h1", "a1", "b1", "c1", "x1", "y1", "k"]
NAMES = ["id", "class", "lang", "data-x", "data_x", "k.v", "style", "title"]
VALUES = ["x1", "a-b", "v.1", "x~y", "a_b", "x-1", "c1"]
HNAMES = ["id", "class", "lang", "data-x", "title"]


def T(*a):
    return {"k": "t", "s": list(a)}


def rattrs(rng, names=NAMES, p=0.5):
    if rng.random() > p:
        return []
    ns = rng.sample(names, rng.randint(1, 2))
    return [{"n": n, "v": rng.choice(VALUES)} for n in ns]


def rinline(rng, depth, cx=frozenset()):
    """content = list of items (no tables)."""
    out = []
    for _ in range(rng.randint(1, 3)):
        opts = ["t", "t"]
        if depth > 0:
            opts += ["T", "P"]
            if not cx & {"L", "E"}:
                opts += ["L", "E"]
            if not cx & {"T", "P", "A"}:
                if "I" not in cx:
                    opts.append("I")
                if "B" not in cx:
                    opts.append("B")
                if "E" not in cx:
                    opts.append("H")
        k = rng.choice(opts)
        if k == "t":
            r = rng.random()
            it = (T(rng.choice(WORDS), "SP", rng.choice(WORDS)) if r < 0.4
                  else T("k", "=", rng.choice(WORDS)) if r < 0.5 else T(rng.choice(WORDS)))
        elif k == "T":
            args = [[T("t")]] + [rarg(rng, depth - 1, cx | {"T"}) for _ in range(rng.randint(0, 2))]
            it = {"k": "T", "args": args}
        elif k == "P":
            it = {"k": "P", "name": ["#", "if"], "args": [rarg(rng, depth - 1, cx | {"P"}) for _ in range(rng.randint(1, 2))]}
        elif k == "L":
            args = [[T("l")]] + [rinline(rng, depth - 1, cx | {"L"}) for _ in range(rng.randint(0, 1))]
            it = {"k": "L", "args": args, "trail": []}
        elif k == "E":
            it = {"k": "E", "url": ["http", ":", "/", "/", "e.x", "/", "p"], "text": rinline(rng, depth - 1, cx | {"E"}) if rng.random() < 0.8 else []}
        elif k in ("I", "B"):
            c = rinline(rng, depth - 1, cx | {k})
            if c[0]["k"] in ("I", "B"):
                c = merge_text([T(rng.choice(WORDS), "SP")] + c)
            if c[-1]["k"] in ("I", "B"):
                c = merge_text(c + [T("SP", rng.choice(WORDS))])
            it = {"k": k, "c": c}
        else:
            it = {"k": "H", "tag": rng.choice(["span", "b", "small", "sup", "code"]), "attrs": rattrs(rng, HNAMES),
                  "c": rinline(rng, depth - 1, cx | {"H"}), "void": False}
        if out:
            out.append(T("SP"))
        out.append(it)
    return merge_text(out)


def rarg(rng, depth, cx):
    r = rng.random()
    if r < 0.2:
        return [T("k", "=", rng.choice(WORDS))]
    if r < 0.3:
        return []
    return rinline(rng, depth, cx)


def merge_text(items):
    out = []
    for it in items:
        if it["k"] == "t" and out and out[-1]["k"] == "t":
            out[-1] = {"k": "t", "s": out[-1]["s"] + it["s"]}
        else:
            out.append(it)
    return out


def rtable(rng, maxn, depth, nest):
    r, c = rng.randint(1, maxn), rng.randint(1, maxn)
    rowkind = [rng.choice(["data", "hdr", "mix"]) for _ in range(r)]
    rows = []
    for i in range(r):
        cells = []
        for j in range(c):
            kind = rowkind[i] if rowkind[i] != "mix" else rng.choice(["hdr", "data"])
            if nest > 0 and rng.random() < 0.08:
                content = [T("NL"), rtable(rng, 2, depth - 1, nest - 1), T("NL")]
            elif rng.random() < 0.1:
                content = []
            else:
                content = rinline(rng, depth)
            cells.append({"kind": kind, "attrs": rattrs(rng, p=0.3), "content": content})
        rows.append({"rattrs": rattrs(rng, p=0.3), "cells": cells})
    hascap = rng.random() < 0.5
    return {"k": "TB", "tattrs": rattrs(rng), "hascap": hascap, "cattrs": rattrs(rng, p=0.4) if hascap else [],
            "caption": rinline(rng, 1) if hascap else [], "rows": rows,
            "style": {"sep": rng.choice(["line", "inline", "mixed"]), "sp": rng.random() < 0.6,
                      "q": rng.choice(["dq", "sq", "none"]), "first": rng.random() < 0.7, "hbar": rng.random() < 0.3}}


def rpage(rng, thorough):
    maxn = 4
    page = []
    if rng.random() < 0.3:
        page += [T(rng.choice(WORDS), "NL")]
    page.append(rtable(rng, maxn, 2, 1))
    if rng.random() < 0.3:
        page += [T("NL", rng.choice(WORDS))]
    if rng.random() < 0.15:
        page += [T("NL"), rtable(rng, 2, 1, 0)]
    return merge_text(page)


# written attributes for the random pages: characters of the value, own delimiters, blanks around '='
W_WORDS = ["w1", "a-b", "x~y", "v.1", "it", "s", "the", "dogs", "k", "amp"]
W_PUNCT = ["'", "'", '"', "SP", "=", ":", ";", ",", "&", "(", ")", "/", ">", "%", "+"]


def rvalue(rng, q, site):
    """A random value (atoms) for delimiters q; word atoms never touch (canonical atomisation)."""
    banned = {"dq": {'"'}, "sq": {"'"}, "none": {'"', "'", "SP", "=", ">"}}[q] | ({">"} if site == "tag" else set())
    punct = [x for x in W_PUNCT if x not in banned]
    n = rng.choice([0, 1, 1, 2, 3, 3, 4, 5]) if q == "dq" else rng.choice([1, 1, 2, 3, 3, 4, 5])
    out = []
    for _ in range(n):
        word_ok = not out or out[-1] not in W_WORDS
        a = rng.choice(W_WORDS) if word_ok and rng.random() < 0.5 else rng.choice(punct)
        if a == "'" and out and out[-1] == "'":
            continue
        out.append(a)
    if q in ("sq", "none") and not out:
        out = [rng.choice(W_WORDS)]
    return out


def write_attrs(rng, x, site="table"):
    """Post-pass over random pages: some attributes get a written value (same names, same structure)."""
    if isinstance(x, list):
        for y in x:
            write_attrs(rng, y, site)
    elif isinstance(x, dict):
        for key, v in x.items():
            if key in ("attrs", "tattrs", "cattrs", "rattrs") and isinstance(v, list):
                st = "tag" if x.get("k") == "H" else "table"
                for i, a in enumerate(v):
                    if rng.random() < 0.4:
                        q = rng.choice(["dq", "dq", "sq", "none"])
                        v[i] = {"n": a["n"], "w": rvalue(rng, q, st), "q": q, "eq": rng.random() < 0.25}
            else:
                write_attrs(rng, v, site)


# written NAMES for the random pages: plain words and one / two characters a name may hold at the site (the
# admissibility is decided by TLC: ParserStruct.NameCharsAt; an inadmissible name is skipped there)
N_WORDS = ["d", "k1", "x", "lang", "a", "b2", "7"]
N_CHARS = {"tag": ["-", "_", ".", ":"],
           "table": ["-", "_", ".", ":", "~", "~", "~", ";", ",", "(", ")", "?", "@", "+", "*", "$", "%", "&", "#"]}


def write_names(rng, x):
    """Post-pass over random pages: some WRITTEN attributes get a written name (own random stream)."""
    if isinstance(x, list):
        for y in x:
            write_names(rng, y)
    elif isinstance(x, dict):
        for key, v in x.items():
            if key in ("attrs", "tattrs", "cattrs", "rattrs") and isinstance(v, list):
                chars = N_CHARS["tag" if x.get("k") == "H" else "table"]
                for i, a in enumerate(v):
                    if "w" in a and rng.random() < 0.3:
                        nw = [rng.choice(N_WORDS[:6])]
                        for _ in range(rng.choice([1, 1, 2])):
                            nw.append(rng.choice(chars))
                            if rng.random() < 0.8:
                                nw.append(rng.choice(N_WORDS))
                        v[i] = {"nw": nw, "w": a["w"], "q": a["q"], "eq": a["eq"]}
            else:
                write_names(rng, v)


# ---------------------------------------------------------------------------
def run(tier: str) -> int:
    o = Outcome(PID, tier)
    thorough = tier == "thorough"
    o.rule = ("G: every written structure of the Gen_ParserStruct universes (grids: shape x separator style x spacing x "
              "orthogonal array over attribute levels x content offsets; elements: every paired tag of the working "
              "tree's ALLOWED_HTML_TAGS x attribute maps x contents x surroundings; calls: argument lists <= 3 over "
              "an 8-entry argument catalogue; co-occurrence: every ordered pair / triple of every family of nearly equal "
              "constructs of one kind - equal up to line breaks or blanks at argument edges, case / underscore, entity "
              "spelling, argument order, an empty last argument, inner blanks, bracket kind - x 3 placements on one page) "
              "is one case; page histories (start_page, then parse()/expand() calls on the same page over the same "
              "families) contribute one case per parse(); written attributes (ATTR): value characters (other quote at "
              "start / end / both / inside / alone, blanks, = > &amp; URL punctuation, empty) x delimiters (\" ' none, "
              "blanks around =) x rest of the map x site (start tag alone / in text / in a cell; {| |+ |- ! | of a 2x2 "
              "table, both separator styles) is one case each; written names (NAME): one character of the per-site table "
              "of name characters (start tags - : _ . ; table positions also ~ ; , ( ) ? @ + * $ % & #) inside the name / "
              "at its end / twice x delimiters of the value x rest of the map x the same sites is one case each; separator characters "
              "inside inline constructs (SEP): ! and !! at the end / in the middle / at the start of a link label, link target, "
              "template / named / argument-reference / parser-function argument, external-link label, HTML element, bold / italic "
              "run, plain cell text, and | followed by | - + } as argument boundaries inside calls and links x cell x header / "
              "data row x separator style x spacing of a 2x2 table is one case each (expected: the grid stays 2x2 and the "
              "construct keeps what was written between its brackets); V: seeded random pages (40 % of their attributes with "
              "random written values, 30 % of those with a random written name). distinct_nontrivial = distinct "
              "shapes (kinds, tags, attribute counts, nesting; texts ignored) of the real trees.")
    o.assumptions = [
        "attribute names: letters, digits, - _ . ; values additionally ~ (URL-safe); one attribute map has distinct names",
        "written attribute names: start with a letter / digit; strict (VIOLATION) when made of letters, digits, - . _ ~ : ; "
        "the other characters of the per-site table (; , ( ) ? @ + * $ % & # in table positions) are predicted too but "
        "outside the statement's URL-safe names: DRIFT; in start tags only - : _ . are names at all (the token regexp)",
        "written attribute values: strict (VIOLATION) when made of letters, digits and ' = : ; , . - _ ~ ( ) / ? @ + * $ % "
        "(URL-safe; the apostrophe is, the double quote, blanks, < > & are not: DRIFT); not covered: a value holding its own "
        "delimiter, unquoted values with quotes / blanks / = / >, two adjacent apostrophes (also the empty value written '': "
        "the italic token of wikitext), | ! { } [ ] < ` and line breaks inside a value, > inside a start tag",
        "an empty cell is written as one blank; inline (|| / !!) rows have cells of one kind (MediaWiki reads || on a ! line as !!)",
        "whitespace at block boundaries (cell, caption, element edges next to block nodes) is not content: Equiv of spec/Unparse.tla",
        "separator characters inside constructs (SEP): inside [[ ]] {{ }} {{{ }}} [url ] they belong to the construct in header and "
        "data cells alike (inside-out reading; the statement's 'argument lists are the written |-separated arguments'); ! characters "
        "in bold / italic runs, plain text and HTML elements are written structures in DATA cells only (on a ! line MediaWiki's "
        "table grammar splits at an unbracketed !!); | inside bold / italic / HTML / plain cell text is not covered (MediaWiki "
        "reads the first | of a cell as the end of its attributes)",
        "bold/italic/HTML inside template arguments stay text in this parser and are not part of the catalogue",
        "page histories: expand() steps are executed for what they leave behind on the page (cookie table); what they return "
        "is not judged here; <nowiki/> flags of cookies are not modelled",
    ]
    known = set(o.known)
    with Scratch("c03m-") as d:
        tags_file = str(d / "tags.json")
        Path(tags_file).write_text(json.dumps(tag_table()))
        rng = random.Random(common.seed() * 7919 + 3)
        pages = [rpage(rng, thorough) for _ in range(4000 if thorough else 320)]
        write_attrs(random.Random(common.seed() * 7919 + 77), pages)     # own stream: the pages stay what they were
        write_names(random.Random(common.seed() * 7919 + 78), pages)     # own stream again: the values stay too
        pf = d / "pages.json"
        pf.write_text(json.dumps(pages))
        grid = "GT" if thorough else "GQ"
        plan = [(grid, 48 if thorough else 10, "GenInv"), ("EL", 2, "GenInv"), ("CALL", 2, "GenInv"),
                ("NEST", 2, "GenInv"), ("ATTRT" if thorough else "ATTR", 4 if thorough else 1, "GenInv"),
                ("PAIRT" if thorough else "PAIR", 6 if thorough else 1, "GenInv"),
                ("HISTT" if thorough else "HIST", 8 if thorough else 1, "GenInvH"),
                ("SEPT" if thorough else "SEP", 2 if thorough else 1, "GenInv"),
                ("FILE", 16 if thorough else 4, "GenInvF")]
        agg = run_plan(o, plan, known, tags_file, str(pf))
        o.extra["action_coverage"] = dict(sorted(agg["cov"].items()))
        o.extra["cases_per_universe"] = {u: a["n"] for u, a in agg["per"].items()}
        o.extra["random_pages_outside_the_preconditions"] = agg["per"].get("FILE", {}).get("skipped", 0)
        # Demos: TLC itself finds the counterexample (a) with the deviations found in the repository switched
        # on, (b) with a cookie key that is not injective (what-if switches; shows that the universes PAIR /
        # HIST and the independence law are not vacuous; two of the three switches in the thorough tier only).
        # The runs are independent: side by side.
        from concurrent.futures import ThreadPoolExecutor

        # (c) with a parse_attrs that takes the delimiters off a quoted value in a way that is right for every value
        # made of letters only (what-if switches; shows that the universe ATTR is not vacuous).
        # (d) with a parse_attrs whose NAME class is the positive class of start tags (family NAME is not vacuous)
        # (e) with the table_hdr_cell_fn as found (deviations HdrSepEndsCall / HdrSepEndsFormat; universe SEP is not vacuous)
        demos = ["Demo_ParserStruct_asis", "Demo_ParserStruct_key_linebreaks", "Demo_ParserStruct_attr_greedy",
                 "Demo_ParserStruct_attr_namechars", "Demo_ParserStruct_hdr_sep_call"]
        if thorough:
            demos += ["Demo_ParserStruct_key_trims", "Demo_ParserStruct_key_kind", "Demo_ParserStruct_hdr_sep_format",
                      "Demo_ParserStruct_attr_everywhere", "Demo_ParserStruct_attr_anyquote"]
        with ThreadPoolExecutor(len(demos)) as ex:
            rs = list(ex.map(lambda n: tlc("Gen_ParserStruct", n + ".cfg", workers=1, check=False, env={"TAGS_FILE": tags_file}), demos))
        for name, demo in zip(demos, rs):
            o.add_tlc(f"{name} (counterexample expected)", demo)
            o.extra["demo_" + name[len("Demo_ParserStruct_"):] + "_counterexample"] = bool(demo.invariant_violated)
            if not demo.invariant_violated:
                raise common.TLCError(f"{name} lost its counterexample")
        o.exhaustive = True
        for u, a in agg["per"].items():
            if a["sample"]:
                o.sample({"universe": u, "text": a["sample"]})
    return o.finish()


def replay(path: str) -> int:
    v = json.loads(Path(path).read_text())
    c = v["case"]
    common.use_repo()
    with Scratch("c03r-") as d:
        ctx = ptree2.new_ctx(d)
        ctx.start_page("Pg")
        for op, tx in c.get("history", []):      # what the page held before (same page, no start_page in between)
            (ctx.expand if op == "expand" else ctx.parse)(tx)
        t = ptree2.node(ctx.parse(c["text"]))
        ctx.db_conn.close()
        tags_file = str(d / "tags.json")
        Path(tags_file).write_text(json.dumps(tag_table()))
        _, bad = trace_items([], tags_file, [(0, c["page"], t)])
    for op, tx in c.get("history", []):
        print("before  :", f"{op}({tx!r})")
    print("text    :", repr(c["text"]))
    print("expected:\n" + c["expected"])
    print("got now :\n" + ptree2.show(t))
    print("TLC verdict now:", "VIOLATION" if bad else "ok")
    return 1 if bad else 0


def selftest() -> int:
    """A correct recorded tree is accepted; the same tree with one attribute value, one
    cell kind or one argument corrupted is rejected by TLC."""
    common.use_repo()
    page = [rtable(random.Random(11), 3, 2, 0)]
    with Scratch("c03s-") as d:
        tags_file = str(d / "tags.json")
        Path(tags_file).write_text(json.dumps(tag_table()))
        pf = d / "pages.json"
        pf.write_text(json.dumps([page]))
        o = Outcome(PID, "quick")
        cs = gen_one("FILE", 0, 1, [], tags_file, str(pf), "GenInvF").cases
        text = ptree2.concretise(cs[0]["text"])
        ctx = ptree2.new_ctx(d)
        good = ptree2.node(ptree2.parse(ctx, text))
        ctx.db_conn.close()
        variants = [("intact", good)]
        import copy

        def first(t, kind):
            if "s" in t:
                return None
            if t["kind"] == kind:
                return t
            for x in t["children"]:
                r = first(x, kind)
                if r:
                    return r
            return None

        b1 = copy.deepcopy(good)
        first(b1, "TABLE_ROW")["children"].pop()
        variants.append(("one cell removed", b1))
        b2 = copy.deepcopy(good)
        cell = first(b2, "TABLE_ROW")["children"][0]
        cell["kind"] = "TABLE_CELL" if cell["kind"] == "TABLE_HEADER_CELL" else "TABLE_HEADER_CELL"
        variants.append(("cell kind flipped", b2))
        b3 = copy.deepcopy(good)
        first(b3, "TABLE")["attrs"].append({"n": "zz", "v": "1"})
        variants.append(("extra attribute", b3))
        _, bad = trace_items([], tags_file, [(i, page, t) for i, (_, t) in enumerate(variants)])
        # a recorded history on one page: the second parse() given the tree of the first one (what a
        # shared cookie produces) must be rejected, its own tree accepted
        p1 = [{"k": "T", "args": [[T("t")], [T("a1")]]}]
        p2 = [{"k": "T", "args": [[T("t")], [T("a1", "NL")]]}]
        ctx = ptree2.new_ctx(d, "h")
        ctx.start_page("Pg")
        t1 = ptree2.node(ctx.parse("{{t|a1}}"))
        t2 = ptree2.node(ctx.parse("{{t|a1\n}}"))
        ctx.db_conn.close()
        _, hbad = trace_items([], tags_file, [(0, p1, t1), (1, p2, t2), (2, p2, t1)])
        # written attributes: the recorded value shortened by its quote character must be rejected, strictly when
        # the value is URL-safe (apostrophe), as DRIFT material when it is not (blank inside)
        def wpage(w):
            return [{"k": "H", "tag": "span", "attrs": [{"n": "title", "w": w, "q": "dq", "eq": False}], "c": [T("x1")], "void": False}]

        ctx = ptree2.new_ctx(d, "w")
        wa = ptree2.node(ptree2.parse(ctx, '<span title="\'w1\'">x1</span>'))
        wb = ptree2.node(ptree2.parse(ctx, '<span title="the dogs\'">x1</span>'))
        ctx.db_conn.close()
        wa2, wb2 = copy.deepcopy(wa), copy.deepcopy(wb)
        wa2["children"][0]["attrs"][0]["v"] = "w1"
        wb2["children"][0]["attrs"][0]["v"] = "the dogs"
        pa, pb = wpage(["'", "w1", "'"]), wpage(["the", "SP", "dogs", "'"])
        _, wbad = trace_items([], tags_file, [(0, pa, wa), (1, pa, wa2), (2, pb, wb), (3, pb, wb2)])
        # written names: a recorded map whose name came back cut at a character must be rejected, strictly for the
        # URL-safe '~', as DRIFT material for '@'
        def npage(ch):
            cell = {"kind": "data", "attrs": [{"nw": ["d", ch, "1"], "w": ["7"], "q": "none", "eq": False}], "content": [T("x1")]}
            return [{"k": "TB", "tattrs": [], "hascap": False, "cattrs": [], "caption": [], "rows": [{"rattrs": [], "cells": [cell]}],
                     "style": {"sep": "line", "sp": True, "q": "dq", "first": True, "hbar": False}}]

        ctx = ptree2.new_ctx(d, "n")
        na = ptree2.node(ptree2.parse(ctx, "{|\n|-\n| d~1=7 | x1\n|}"))
        nb = ptree2.node(ptree2.parse(ctx, "{|\n|-\n| d@1=7 | x1\n|}"))
        ctx.db_conn.close()
        na2, nb2 = copy.deepcopy(na), copy.deepcopy(nb)
        for tr in (na2, nb2):
            first(tr, "TABLE_CELL")["attrs"] = [{"n": "d", "v": ""}, {"n": "1", "v": "7"}]
        _, nbad = trace_items([], tags_file, [(0, npage("~"), na), (1, npage("~"), na2), (2, npage("@"), nb), (3, npage("@"), nb2)])
    badidx = set(bad)
    print("written attribute: <span title=\"'w1'\"> / <span title=\"the dogs'\">")
    for i, name in enumerate(["own tree", "value without its apostrophes", "own tree (blank inside)", "value without its apostrophe (blank inside)"]):
        print(f"  {name}: " + (f"rejected (strict={wbad[i]['strict']})" if i in wbad else "accepted"))
    if set(wbad) != {1, 3} or wbad[1]["strict"] is not True or wbad[3]["strict"] is not False:
        return 1
    print("written name: | d~1=7 | x1  /  | d@1=7 | x1")
    for i, name in enumerate(["own tree (~)", "name cut at ~ (d, 1=7)", "own tree (@)", "name cut at @"]):
        print(f"  {name}: " + (f"rejected (strict={nbad[i]['strict']})" if i in nbad else "accepted"))
    if set(nbad) != {1, 3} or nbad[1]["strict"] is not True or nbad[3]["strict"] is not False:
        return 1
    print("text:", repr(text))
    for i, (name, _) in enumerate(variants):
        print(f"  {name}: {'rejected' if i in badidx else 'accepted'}")
    print("history: parse('{{t|a1}}'); parse('{{t|a1\\n}}') on one page")
    for i, name in enumerate(["first parse, own tree", "second parse, own tree", "second parse with the tree of the first"]):
        print(f"  {name}: {'rejected' if i in hbad else 'accepted'}")
    return 0 if badidx == {1, 2, 3} and set(hbad) == {2} else 1
