"""C03 — tables, HTML elements, links and template calls parse to their written structure.

M  spec/ParserStruct.tla is a twin of the fragment (Encode = inside-out cookie encoding,
   Lex = token_iter, one operator per handler).  On every written structure of the bounded
   universes of Gen_ParserStruct TLC checks  Equiv(MachineTree(Render(page), {}), TreeOf(page)).
G  the same runs print each structure with its rendering; the harness joins the atoms,
   parses the text with the real ctx.parse(), dumps the tree structurally (ptree2) and hands
   (page, real tree) back to TLC (Trace_ParserStruct), which computes TreeOf(page) and decides
   Equiv(real, TreeOf(page)).  The allowed-tag table is read from the working tree each run.
V  seeded random wider grids (mixed separator styles per row, nested tables, random attribute
   maps and contents) are rendered by TLC (universe FILE), parsed by the real code and
   validated the same way.
DRIFT: the real tree differs from the twin's tree (exact comparison) although the property holds.
"""
from __future__ import annotations

import json
import random
from pathlib import Path

import common
import ptree2
from common import Outcome, Scratch, pmap, tlc

PID = "C03"
ALL_DEVS = ["CaptionSwallowsDataCells", "TagAttrNameCharset"]


# ---------------------------------------------------------------------------
# the allowed-tag table of the working tree
# ---------------------------------------------------------------------------
def tag_table() -> dict:
    common.use_repo()
    from wikitextprocessor.wikihtml import ALLOWED_HTML_TAGS

    return {
        k: {
            "parents": list(v.get("parents", [])),
            "content": list(v.get("content", [])),
            "closenext": list(v.get("close-next", [])),
            "noend": bool(v.get("no-end-tag", False)),
        }
        for k, v in ALLOWED_HTML_TAGS.items()
    }


def cfg_text(universe: str, part: int, parts: int, known, inv: str) -> str:
    ks = "{" + ", ".join('"%s"' % k for k in sorted(known)) + "}"
    return (
        "SPECIFICATION Spec\nCONSTANTS\n"
        f'  Universe = "{universe}"\n  Part = {part}\n  Parts = {parts}\n  Known = {ks}\n'
        "  Tags <- TagsFromFile\n"
        f"INVARIANT {inv}\nCHECK_DEADLOCK FALSE\n"
    )


_JOB = {}


def gen_job(jobs):
    """jobs: list of (universe, part, parts, known, tags_file, pages_file, inv)."""
    out = []
    for universe, part, parts, known, tags_file, pages_file, inv in jobs:
        env = {"TAGS_FILE": tags_file}
        if pages_file:
            env["PAGES_FILE"] = pages_file
        r = tlc("Gen_ParserStruct", "g.cfg", cfg_text=cfg_text(universe, part, parts, known, inv), workers=1,
                timeout=3000, env=env)
        out.append((universe, part, r.distinct, r.generated, r.wall, r.cases))
    return out


def run_gens(o: Outcome, plan: list, known, tags_file: str, pages_file: str | None = None) -> dict:
    """plan: [(universe, parts, invariant)]; all TLC processes of all universes share one pool."""
    jobs = []
    for universe, parts, inv in plan:
        jobs += [(universe, p, parts, sorted(known), tags_file, pages_file if universe == "FILE" else None, inv)
                 for p in range(parts)]
    jobs.sort(key=lambda j: 0 if j[0] in ("GQ", "GT") else 1)
    res = pmap(gen_job, jobs, chunk=1)
    cases = {u: [] for u, _, _ in plan}
    tot = {u: common.TLCResult("", 0, 0.0) for u, _, _ in plan}
    for universe, part, distinct, generated, wall, cs in res:
        t = tot[universe]
        t.distinct += distinct
        t.generated += generated
        t.wall = max(t.wall, wall)
        for c in cs:
            c["u"] = universe
        cases[universe] += cs
    for universe, parts, inv in plan:
        o.add_tlc(f"Gen_ParserStruct[{universe}] law+cases x{parts}", tot[universe])
    return cases


def run_gen(o, universe, parts, known, tags_file, pages_file=None, inv="GenInv"):
    return run_gens(o, [(universe, parts, inv)], known, tags_file, pages_file)[universe]


# ---------------------------------------------------------------------------
# real parser
# ---------------------------------------------------------------------------
def parse_chunk(chunk):
    """chunk: list of (idx, text) -> (idx, abstract tree | {'exception': ...}, leftover stack)."""
    common.use_repo()
    out = []
    with Scratch("c03-") as d:
        ctx = ptree2.new_ctx(d)
        try:
            for idx, text in chunk:
                try:
                    t = ptree2.node(ptree2.parse(ctx, text))
                except Exception as e:  # noqa: BLE001
                    t = {"exception": repr(e)}
                out.append((idx, t))
        finally:
            ctx.db_conn.close()
    return out


def trace_chunk(chunk):
    """chunk: (known, tags_file, [(idx, page, real)]) lists -> [(idx, bad-record)]"""
    out = []
    for known, tags_file, items in chunk:
        with Scratch("c03t-") as d:
            tf = d / "batch.json"
            tf.write_text(json.dumps({"known": sorted(known), "cases": [{"page": p, "real": r} for _, p, r in items]}))
            r = tlc("Trace_ParserStruct", "t.cfg",
                    cfg_text="SPECIFICATION Spec\nCONSTANT Tags <- TagsFromFile\nINVARIANT Verdict\nCHECK_DEADLOCK FALSE\n",
                    workers=1, timeout=3000, env={"TRACE_FILE": str(tf), "TAGS_FILE": tags_file})
        v = r.tagged("VERDICT")
        if not v or v[0]["consumed"] != len(items):
            raise common.TLCError("Trace_ParserStruct did not consume its batch")
        out.append((r.distinct, r.generated, r.wall, [(items[b["i"] - 1][0], b) for b in v[0]["bad"]]))
    return out


def validate(o: Outcome, cases: list, known, tags_file: str, origin: str, chunk_size: int = 600):
    texts = [(i, ptree2.concretise(c["text"])) for i, c in enumerate(cases)]
    real = dict(pmap(parse_chunk, texts))
    items = []
    for i, c in enumerate(cases):
        o.evaluations += 1
        t = real[i]
        if "exception" in t:
            o.violation({"origin": origin, "universe": c.get("u"), "text": texts[i][1], "page": c["page"]},
                        f"parse({texts[i][1]!r}) raised {t['exception']}", cls="exception")
            continue
        items.append((i, c["page"], t))
    batches = [(sorted(known), tags_file, items[k: k + chunk_size]) for k in range(0, len(items), chunk_size)]
    res = pmap(trace_chunk, batches, chunk=1)
    tot = common.TLCResult("", 0, 0.0)
    bad = {}
    for distinct, generated, wall, bs in res:
        tot.distinct += distinct
        tot.generated += generated
        tot.wall = max(tot.wall, wall)
        bad.update(dict(bs))
    o.add_tlc(f"Trace_ParserStruct[{origin}] x{len(batches)}", tot)
    o.traces += len(items)
    for i, c in enumerate(cases):
        if i not in real or "exception" in real[i]:
            continue
        text = texts[i][1]
        o.shape(ptree2.shape(real[i]))
        if i in bad:
            b = bad[i]
            case = {"origin": "V" if c.get("u") == "FILE" else "G", "universe": c.get("u"), "text": text,
                    "expected": ptree2.show(b["expected"]), "got": ptree2.show(real[i]), "page": c["page"]}
            why = f"parse({text!r}) does not have the written structure"
            o.classify(case, why, sorted(b["devs"]), cls=classify(b["expected"], real[i], c))
        elif real[i] != c["mt"]:
            o.note_drift({"text": text, "twin": ptree2.show(c["mt"]), "real": ptree2.show(real[i])})
    return real, bad


def classify(exp, got, c) -> str:
    """Coarse class of a disagreement (for grouping replays only)."""
    ek, gk = sorted(ptree2.kinds(exp)), sorted(ptree2.kinds(got))
    if ek != gk:
        return f"{c.get('u')}:kinds -{','.join(sorted(set(ek) - set(gk)))} +{','.join(sorted(set(gk) - set(ek)))}"
    return f"{c.get('u')}:same-kinds"


# ---------------------------------------------------------------------------
# V: random wider pages
# ---------------------------------------------------------------------------
WORDS = ["w1", "w2", "w3", "h1", "a1", "b1", "c1", "x1", "y1", "k"]
NAMES = ["id", "class", "lang", "data-x", "data_x", "k.v", "style", "title"]
VALUES = ["x1", "a-b", "v.1", "x~y", "a_b", "x-1", "c1"]
HNAMES = ["id", "class", "lang", "data-x", "title"]


def T(*a):
    return {"k": "t", "s": list(a)}


def rattrs(rng, names=NAMES, p=0.5):
    if rng.random() > p:
        return []
    ns = rng.sample(names, rng.randint(1, 2))
    return [{"n": n, "v": rng.choice(VALUES)} for n in ns]


def rinline(rng, depth, cx=frozenset()):
    """content = list of items (no tables)."""
    out = []
    for _ in range(rng.randint(1, 3)):
        opts = ["t", "t"]
        if depth > 0:
            opts += ["T", "P"]
            if not cx & {"L", "E"}:
                opts += ["L", "E"]
            if not cx & {"T", "P", "A"}:
                if "I" not in cx:
                    opts.append("I")
                if "B" not in cx:
                    opts.append("B")
                if "E" not in cx:
                    opts.append("H")
        k = rng.choice(opts)
        if k == "t":
            it = T(rng.choice(WORDS), "SP", rng.choice(WORDS)) if rng.random() < 0.4 else T(rng.choice(WORDS))
        elif k == "T":
            args = [[T("t")]] + [rarg(rng, depth - 1, cx | {"T"}) for _ in range(rng.randint(0, 2))]
            it = {"k": "T", "args": args}
        elif k == "P":
            it = {"k": "P", "name": ["#", "if"], "args": [rarg(rng, depth - 1, cx | {"P"}) for _ in range(rng.randint(1, 2))]}
        elif k == "L":
            args = [[T("l")]] + [rinline(rng, depth - 1, cx | {"L"}) for _ in range(rng.randint(0, 1))]
            it = {"k": "L", "args": args, "trail": []}
        elif k == "E":
            it = {"k": "E", "url": ["http", ":", "/", "/", "e.x", "/", "p"], "text": rinline(rng, depth - 1, cx | {"E"}) if rng.random() < 0.8 else []}
        elif k in ("I", "B"):
            c = rinline(rng, depth - 1, cx | {k})
            if c[0]["k"] in ("I", "B"):
                c = merge_text([T(rng.choice(WORDS), "SP")] + c)
            if c[-1]["k"] in ("I", "B"):
                c = merge_text(c + [T("SP", rng.choice(WORDS))])
            it = {"k": k, "c": c}
        else:
            it = {"k": "H", "tag": rng.choice(["span", "b", "small", "sup", "code"]), "attrs": rattrs(rng, HNAMES),
                  "c": rinline(rng, depth - 1, cx | {"H"}), "void": False}
        if out:
            out.append(T("SP"))
        out.append(it)
    return merge_text(out)


def rarg(rng, depth, cx):
    r = rng.random()
    if r < 0.2:
        return [T("k", "=", rng.choice(WORDS))]
    if r < 0.3:
        return []
    return rinline(rng, depth, cx)


def merge_text(items):
    out = []
    for it in items:
        if it["k"] == "t" and out and out[-1]["k"] == "t":
            out[-1] = {"k": "t", "s": out[-1]["s"] + it["s"]}
        else:
            out.append(it)
    return out


def rtable(rng, maxn, depth, nest):
    r, c = rng.randint(1, maxn), rng.randint(1, maxn)
    rowkind = [rng.choice(["data", "hdr", "mix"]) for _ in range(r)]
    rows = []
    for i in range(r):
        cells = []
        for j in range(c):
            kind = rowkind[i] if rowkind[i] != "mix" else rng.choice(["hdr", "data"])
            if nest > 0 and rng.random() < 0.08:
                content = [T("NL"), rtable(rng, 2, depth - 1, nest - 1), T("NL")]
            elif rng.random() < 0.1:
                content = []
            else:
                content = rinline(rng, depth)
            cells.append({"kind": kind, "attrs": rattrs(rng, p=0.3), "content": content})
        rows.append({"rattrs": rattrs(rng, p=0.3), "cells": cells})
    hascap = rng.random() < 0.5
    return {"k": "TB", "tattrs": rattrs(rng), "hascap": hascap, "cattrs": rattrs(rng, p=0.4) if hascap else [],
            "caption": rinline(rng, 1) if hascap else [], "rows": rows,
            "style": {"sep": rng.choice(["line", "inline", "mixed"]), "sp": rng.random() < 0.6,
                      "q": rng.choice(["dq", "sq", "none"]), "first": rng.random() < 0.7}}


def rpage(rng, thorough):
    maxn = 4
    page = []
    if rng.random() < 0.3:
        page += [T(rng.choice(WORDS), "NL")]
    page.append(rtable(rng, maxn, 2, 1))
    if rng.random() < 0.3:
        page += [T("NL", rng.choice(WORDS))]
    if rng.random() < 0.15:
        page += [T("NL"), rtable(rng, 2, 1, 0)]
    return merge_text(page)


# ---------------------------------------------------------------------------
def run(tier: str) -> int:
    o = Outcome(PID, tier)
    thorough = tier == "thorough"
    o.rule = ("G: every written structure of the Gen_ParserStruct universes (grids: shape x separator style x spacing x "
              "orthogonal array over attribute levels x content offsets; elements: every paired tag of the working "
              "tree's ALLOWED_HTML_TAGS x attribute maps x contents x surroundings; calls: argument lists <= 3 over "
              "an 8-entry argument catalogue) is one case; V: seeded random pages. distinct_nontrivial = distinct "
              "shapes (kinds, tags, attribute counts, nesting; texts ignored) of the real trees.")
    o.assumptions = [
        "attribute names: letters, digits, - _ . ; values additionally ~ (URL-safe); one attribute map has distinct names",
        "an empty cell is written as one blank; inline (|| / !!) rows have cells of one kind (MediaWiki reads || on a ! line as !!)",
        "whitespace at block boundaries (cell, caption, element edges next to block nodes) is not content: Equiv of spec/Unparse.tla",
        "bold/italic/HTML inside template arguments stay text in this parser and are not part of the catalogue",
    ]
    known = set(o.known)
    with Scratch("c03m-") as d:
        tags_file = str(d / "tags.json")
        Path(tags_file).write_text(json.dumps(tag_table()))
        rng = random.Random(common.seed() * 7919 + 3)
        pages = [rpage(rng, thorough) for _ in range(4000 if thorough else 320)]
        pf = d / "pages.json"
        pf.write_text(json.dumps(pages))
        grid = "GT" if thorough else "GQ"
        plan = [(grid, 32 if thorough else 16, "GenInv"), ("EL", 3, "GenInv"), ("CALL", 3, "GenInv"),
                ("NEST", 3, "GenInv"), ("FILE", 16 if thorough else 8, "GenInvF")]
        bycase = run_gens(o, plan, known, tags_file, str(pf))
        nolaw = [c for c in bycase["FILE"] if not c["law"]]
        if nolaw:
            raise common.TLCError(f"{len(nolaw)} random page(s) violate the model's own law, e.g. "
                                  f"{ptree2.concretise(nolaw[0]['text'])!r}")
        cov = {}
        for cs in bycase.values():
            for c in cs:
                for label in c["cov"]:
                    cov[label] = cov.get(label, 0) + 1
        o.extra["action_coverage"] = dict(sorted(cov.items()))
        o.extra["cases_per_universe"] = {u: len(cs) for u, cs in bycase.items()}
        # Demo: TLC itself finds the counterexample with the deviations switched on
        demo = tlc("Gen_ParserStruct", "Demo_ParserStruct_asis.cfg", workers=1, check=False, env={"TAGS_FILE": tags_file})
        o.add_tlc("Demo_ParserStruct_asis (counterexample expected)", demo)
        o.extra["demo_asis_counterexample"] = bool(demo.invariant_violated)
        if not demo.invariant_violated:
            raise common.TLCError("Demo_ParserStruct_asis lost its counterexample")
        allcases = [c for u, _, _ in plan for c in bycase[u]]
        validate(o, allcases, known, tags_file, "G/V")
        o.exhaustive = True
        for u, _, _ in plan:
            if bycase[u]:
                o.sample({"universe": u, "text": ptree2.concretise(bycase[u][len(bycase[u]) // 2]["text"])})
    return o.finish()


def replay(path: str) -> int:
    v = json.loads(Path(path).read_text())
    c = v["case"]
    common.use_repo()
    with Scratch("c03r-") as d:
        ctx = ptree2.new_ctx(d)
        t = ptree2.node(ptree2.parse(ctx, c["text"]))
        ctx.db_conn.close()
        tags_file = str(d / "tags.json")
        Path(tags_file).write_text(json.dumps(tag_table()))
        res = trace_chunk([([], tags_file, [(0, c["page"], t)])])
    bad = res[0][3]
    print("text    :", repr(c["text"]))
    print("expected:\n" + c["expected"])
    print("got now :\n" + ptree2.show(t))
    print("TLC verdict now:", "VIOLATION" if bad else "ok")
    return 1 if bad else 0


def selftest() -> int:
    """A correct recorded tree is accepted; the same tree with one attribute value, one
    cell kind or one argument corrupted is rejected by TLC."""
    common.use_repo()
    page = [rtable(random.Random(11), 3, 2, 0)]
    with Scratch("c03s-") as d:
        tags_file = str(d / "tags.json")
        Path(tags_file).write_text(json.dumps(tag_table()))
        pf = d / "pages.json"
        pf.write_text(json.dumps([page]))
        o = Outcome(PID, "quick")
        cs = run_gen(o, "FILE", 1, set(), tags_file, str(pf), inv="GenInvF")
        text = ptree2.concretise(cs[0]["text"])
        ctx = ptree2.new_ctx(d)
        good = ptree2.node(ptree2.parse(ctx, text))
        ctx.db_conn.close()
        variants = [("intact", good)]
        import copy

        def first(t, kind):
            if "s" in t:
                return None
            if t["kind"] == kind:
                return t
            for x in t["children"]:
                r = first(x, kind)
                if r:
                    return r
            return None

        b1 = copy.deepcopy(good)
        first(b1, "TABLE_ROW")["children"].pop()
        variants.append(("one cell removed", b1))
        b2 = copy.deepcopy(good)
        cell = first(b2, "TABLE_ROW")["children"][0]
        cell["kind"] = "TABLE_CELL" if cell["kind"] == "TABLE_HEADER_CELL" else "TABLE_HEADER_CELL"
        variants.append(("cell kind flipped", b2))
        b3 = copy.deepcopy(good)
        first(b3, "TABLE")["attrs"].append({"n": "zz", "v": "1"})
        variants.append(("extra attribute", b3))
        res = trace_chunk([([], tags_file, [(i, page, t) for i, (_, t) in enumerate(variants)])])
    badidx = {i for i, _ in res[0][3]}
    print("text:", repr(text))
    for i, (name, _) in enumerate(variants):
        print(f"  {name}: {'rejected' if i in badidx else 'accepted'}")
    ok = badidx == {1, 2, 3} or (0 in badidx and False)
    return 0 if badidx == {1, 2, 3} else 1
