"""C04 — template expansion agrees with the reference transclusion semantics.

M  TLC evaluates the reference `Eval` (spec/Transclusion.tla) on every (library, page)
   of the bounded universe and checks the reference's own laws (named-argument
   padding is irrelevant, includable part excludes noinclude/comment text).
G  every enumerated pair is installed in a real Wtp and expanded; the returned string
   is compared with the specification's (ideal; as-is = ideal + listed deviations).
V  seeded random deeper pairs (<=5 templates, call DAG, depth <=4, whitespace-rich
   single-character alphabet) are expanded by the real code, recorded with the
   tokenised output and validated by TLC (Trace_Transclusion).

Shape of parameter names (family N of Gen_Transclusion, second batch of V): multi-word names
with interior runs of blanks, written the same or differently at the call and in the body.
TLC evaluates two readings of name equality: `ideal` (the statement: names are trimmed) and
`fold` (the implementation: interior runs folded to one blank as well).  Where both readings
give the same string the real output must be that string (VIOLATION otherwise); where they
differ the statement does not decide, the implementation's reading is expected and anything
else is DRIFT.
"""
from __future__ import annotations

import json
import random
from pathlib import Path

import common
import transclusion as tr
from common import Outcome, Scratch, pmap, tlc

PID = "C04"


def new_ctx(d, name="p"):
    from wikitextprocessor import Wtp

    sub = Path(d) / name
    sub.mkdir(parents=True, exist_ok=True)
    return Wtp(db_path=str(sub / "pages.db"), quiet=True, quiet_output=True)


def expand_page(ctx, page_text):
    ctx.start_page("Pg")
    return ctx.expand(page_text)


def run_chunk(chunk):
    """chunk: list of (libkey, lib, [(idx, page)])"""
    common.use_repo()
    res = []
    with Scratch("c04-") as d:
        for n, (lib, pages) in enumerate(chunk):
            ctx = new_ctx(d, f"l{n}")
            try:
                tr.install(ctx, lib)
                for idx, page in pages:
                    src = tr.render(page)
                    try:
                        out = expand_page(ctx, src)
                    except Exception as e:  # noqa: BLE001
                        out = "EXCEPTION " + repr(e)
                    res.append((idx, src, out))
            finally:
                ctx.db_conn.close()
    return res


def group_by_lib(cases):
    groups = {}
    for idx, c in enumerate(cases):
        k = common.json_key(c["lib"])
        groups.setdefault(k, (c["lib"], []))[1].append((idx, c["page"]))
    return list(groups.values())


NAME_WHY = (" - a parameter name with an interior run of blanks: the statement's reading (names are compared after trimming) and "
            "the implementation's reading (interior runs folded to one blank as well) both give the expected string here, so the "
            "name written at the call and the name of the {{{reference}}} are no longer brought to the same canonical form")


WS_ATOMS = ("SP", "NL", "TAB")


def _multiword(name) -> bool:
    """name: text (list of atoms) or content (list of items): more than one word, or produced by expansion"""
    if name and isinstance(name[0], dict):
        if any(it["k"] != "t" for it in name):
            return True
        name = [a for it in name for a in it["s"]]
    while name and name[0] in WS_ATOMS:
        name = name[1:]
    while name and name[-1] in WS_ATOMS:
        name = name[:-1]
    return any(a in WS_ATOMS for a in name)


def has_name_runs(ast) -> bool:
    """some multi-word / computed parameter name (key of a named argument, name of a reference) occurs in the case"""
    if isinstance(ast, list):
        return any(has_name_runs(x) for x in ast)
    if not isinstance(ast, dict):
        return False
    if ast.get("k") in ("p", "pc") and _multiword(ast["name"]):
        return True
    if ast.get("named") and _multiword(ast["key"]):
        return True
    return any(has_name_runs(v) for v in ast.values())


def judge(o: Outcome, case, out, ideal, asis, fold, asis_fold, devs, origin):
    """Verdict for one expansion.  ideal/asis: parameter names compared after trimming (the statement), without/with the
    known deviations; fold/asis_fold: interior blank runs of names folded as well (the implementation's convention)."""
    if out == fold:
        return
    case = dict(case, expected=fold, got=out)
    src = case["page"]
    if out == asis_fold and devs and asis_fold != fold:
        o.classify(case, "expand() differs from the reference transclusion semantics", devs, cls="known")
        return
    if ideal == fold and asis == asis_fold:
        named = has_name_runs(case.get("ast"))
        o.violation(case, f"expand({src!r}) returned {out!r}; the transclusion rules give {fold!r}" + (NAME_WHY if named else ""),
                    cls=origin + ("param-name-shape" if named else classify_diff(fold, out)))
        return
    if out.startswith("EXCEPTION"):
        o.violation(case, f"expand({src!r}) raised {out[10:]}; the transclusion rules give {fold!r} (or {ideal!r} if interior blank runs of "
                          "parameter names are significant)", cls=origin + "exception")
        return
    # the two readings differ: the statement only fixes trimming
    o.note_drift({"page": src, "lib": case["lib"], "got": out, "names_trimmed": ideal, "interior_runs_folded": fold,
                  "note": ("the implementation now treats names that differ in an interior blank run as different parameters (MediaWiki's reading)"
                           if out in (ideal, asis) else "neither reading of parameter-name equality explains the output")})


# Family K of Gen_Transclusion: a key of a named argument that becomes a positive numeral only by expansion is lost
# (spec/Transclusion.tla, deviation switch of the same name; proposed_fixes/C04-computed-numeric-key.diff).
NUMKEY = "ComputedNumericKeyNotPositional"
NUMKEY_WHY = ("expand() differs from the reference transclusion semantics: the key of a named argument that becomes a number only by "
              "expansion ({{T|{{one}}=v}}) does not bind the positional parameter of that number")


def numkey_listed() -> bool:
    return any(e.get("property") == PID and e.get("deviation") == NUMKEY for e in common.load_known())


def compare(o: Outcome, cases, results, origin):
    pending = []
    listed = numkey_listed()
    for idx, src, out in results:
        c = cases[idx]
        o.evaluations += 1
        ideal = tr.text(c["ideal"])
        fold = tr.text(c.get("fold", c["ideal"]))
        o.shape(("out", fold))
        if c.get("fam") == "N":
            o.extra["name_shape_cases"] = o.extra.get("name_shape_cases", 0) + 1
            if ideal == fold:
                o.extra["name_shape_cases_both_readings_agree"] = o.extra.get("name_shape_cases_both_readings_agree", 0) + 1
        if c.get("fam") == "K":
            o.extra["computed_numeric_key_cases"] = o.extra.get("computed_numeric_key_cases", 0) + 1
        if out == fold:
            continue
        asis = tr.text(c.get("asis", c["ideal"]))
        case = {
            "origin": origin,
            "lib": {k: tr.render_body(v) for k, v in c["lib"].items()},
            "page": src,
            "ast": {"lib": c["lib"], "page": c["page"]},
        }
        if c.get("fam") == "K" and out == tr.text(c["asisK"]):
            case.update(expected=ideal, got=out)
            if listed:  # KNOWN-FINDING while the entry is an open finding, VIOLATION once it is marked fixed
                o.classify(case, NUMKEY_WHY, [NUMKEY], cls="known-numkey")
            else:
                pending.append(case)
            continue
        judge(o, case, out, ideal, asis, fold, tr.text(c.get("asisFold", c.get("asis", c["ideal"]))), c.get("devs"), "")
    if pending:
        # a genuine defect of the unchanged tree found by family K that is not yet an entry of known_findings.json:
        # reported loudly, but not as VIOLATION until the entry exists (notes/C04.md has the entry to add)
        o.extra["pending_finding"] = {"deviation": NUMKEY, "cases": len(pending), "what": NUMKEY_WHY,
                                      "sample": {k: pending[0][k] for k in ("page", "expected", "got")},
                                      "fix": "proposed_fixes/C04-computed-numeric-key.diff"}
        print(f"PENDING-FINDING: property={PID} {NUMKEY}: {len(pending)} case(s) explained exactly by this modelled deviation, e.g. "
              f"expand({pending[0]['page']!r}) returned {pending[0]['got']!r}; the transclusion rules give {pending[0]['expected']!r}. "
              "Not listed in known_findings.json yet (add the entry of notes/C04.md; repair: proposed_fixes/C04-computed-numeric-key.diff)")


def classify_diff(ideal, out):
    if out.startswith("EXCEPTION"):
        return "exception"
    if out.strip() == ideal.strip():
        return "outer-whitespace"
    if out.replace(" ", "").replace("\n", "") == ideal.replace(" ", "").replace("\n", ""):
        return "inner-whitespace"
    return "content"


def run_v(o: Outcome, n, thorough):
    rng = random.Random(common.seed() * 104729 + 4)
    cases = []
    for _ in range(n):
        lib, names = tr.rlib(rng, rng.randint(1, 5), 3)
        for _ in range(4):
            page = tr.rcontent(rng, 4 if thorough else 3, names, False, [8])
            if page:
                cases.append({"lib": lib, "page": page})
    # second batch: multi-word parameter names with interior runs of blanks (own stream: the first batch is unchanged)
    rng2 = random.Random(common.seed() * 104729 + 404)
    n_names = 0
    for _ in range(max(40, n // 3)):
        voc = tr.name_vocab(rng2)
        with tr.vocab(voc):
            lib, names = tr.rlib(rng2, rng2.randint(1, 4), 3)
            for _ in range(4):
                page = tr.rcontent(rng2, 3, names, False, [8])
                if page:
                    cases.append({"lib": lib, "page": page})
                    n_names += 1
    o.extra["v_name_shape_cases"] = n_names
    groups = group_by_lib(cases)
    results = pmap(run_chunk, groups)
    by_idx = {idx: (src, out) for idx, src, out in results}
    batch = []
    for idx, c in enumerate(cases):
        src, out = by_idx[idx]
        batch.append({"lib": c["lib"], "page": c["page"], "out": tr.tokenize(out)})
    with Scratch("c04v-") as d:
        tf = d / "batch.json"
        tf.write_text(json.dumps(batch))
        cfg = "SPECIFICATION Spec\nINVARIANT Verdict\nCHECK_DEADLOCK FALSE\n"
        r = tlc("Trace_Transclusion", "t.cfg", cfg_text=cfg, workers=1, env={"TRACE_FILE": str(tf)}, timeout=3000)
    o.add_tlc("Trace_Transclusion", r)
    v = r.tagged("VERDICT")
    if not v or v[0]["consumed"] != len(batch):
        raise common.TLCError("trace validation incomplete")
    o.traces += len(batch)
    o.evaluations += len(batch)
    undecided = 0
    for b in v[0]["bad"]:
        idx = b["i"] - 1
        src, out = by_idx[idx]
        ideal = tr.text(b["expected"])
        fold = tr.text(b["fold"])
        if ideal != fold:
            undecided += 1
        # strings are compared, not token lists: same string, different tokenisation ("]]]" = "]" + "]]")
        case = {"origin": "V", "lib": {k: tr.render_body(s) for k, s in cases[idx]["lib"].items()}, "page": src, "ast": cases[idx]}
        judge(o, case, out, ideal, tr.text(b["asis"]), fold, tr.text(b["asisFold"]), sorted(o.known), "V:")
    o.extra["v_cases_where_name_readings_differ"] = undecided
    for idx, c in enumerate(cases):
        o.shape(("vout", by_idx[idx][1]))
    if cases:
        o.sample({"random_case": {"lib": {k: tr.render_body(s) for k, s in cases[0]["lib"].items()}, "page": by_idx[0][0], "out": by_idx[0][1]}})
        o.sample({"random_name_shape_case": {"lib": {k: tr.render_body(s) for k, s in cases[-1]["lib"].items()}, "page": by_idx[len(cases) - 1][0],
                                              "out": by_idx[len(cases) - 1][1]}})


INC_TOK = {"NO": "<noinclude>", "NC": "</noinclude>", "IO": "<includeonly>", "IC": "</includeonly>", "OO": "<onlyinclude>",
           "OC": "</onlyinclude>", "OS": "<onlyinclude/>", "CO": "<!--", "CC": "-->"}


# second spelling: upper / mixed case and blanks inside the tags (tag names are case-insensitive)
INC_TOK_UP = {"NO": "<NOINCLUDE>", "NC": "</NoInclude >", "IO": "<IncludeOnly>", "IC": "</INCLUDEONLY>", "OO": "<OnlyInclude >",
              "OC": "</ONLYINCLUDE>", "OS": "<ONLYINCLUDE/>", "CO": "<!--", "CC": "-->"}


def inc_chunk(chunk):
    common.use_repo()
    res = []
    with Scratch("c04i-") as d:
        ctx = new_ctx(d)
        try:
            for idx, toks in chunk:
                for table in (INC_TOK, INC_TOK_UP):
                    body = "".join(table.get(t, t) for t in toks)
                    ctx.add_page("Template:X", 10, body=body)
                    p = ctx.get_page("X", 10)
                    res.append((idx, body, p.body if p else None, table is INC_TOK_UP))
        finally:
            ctx.db_conn.close()
    return res


def run_includable(o: Outcome, thorough: bool):
    """Includable part (last sentence of the property): spec/Includable.tla transcribes _template_to_body on
    token sequences; TLC checks it against the segment-level reference on every well-formed body (Law) and
    enumerates token soups; the real add_page/get_page must store exactly the predicted text."""
    for mode in ("segs", "soup"):
        r = tlc("Gen_Includable", f"Gen_Includable_{mode}_{'T' if thorough else 'Q'}.cfg", workers=1, timeout=3000)
        o.add_tlc(f"Gen_Includable[{mode}] law+cases", r)
        cases = r.cases
        for idx, body, got, up in pmap(inc_chunk, [(i, c["toks"]) for i, c in enumerate(cases)]):
            c = cases[idx]
            o.evaluations += 1
            exp = "".join((INC_TOK_UP if up else INC_TOK).get(t, t) for t in c["out"])
            if got == exp:
                if c["wf"]:
                    o.shape(("inc", body))
                continue
            if c["wf"]:
                o.violation({"origin": "G-includable", "template_body": body, "expected": exp, "got": got},
                            f"the includable part of the template body {body!r} is stored as {got!r}; the rules give {exp!r}", cls="includable")
            else:
                o.note_drift({"template_body": body, "model": exp, "real": got, "note": "unbalanced/nested wrapper tags: transcription of _template_to_body differs"})
        o.traces += len(cases)


def run(tier: str) -> int:
    o = Outcome(PID, tier)
    o.rule = ("G: every (library, page) pair of the bounded universe of Gen_Transclusion is one case (family N: one library, "
              "writing of a multi-word parameter name at the call x writing in the body, names produced by expansion, "
              "forwarding, duplicates); V: seeded random pairs, a second batch with multi-word parameter names. "
              "distinct_nontrivial counts distinct expected/observed output strings.")
    o.assumptions = ["MediaWiki transclusion rules as written in the property statement are the reference",
                     "atoms are concretised one-to-one; undefined-parameter names are written without padding",
                     "the statement fixes trimming of parameter names only: where 'names trimmed' and 'names trimmed and interior "
                     "blank runs folded' give different strings the implementation's reading (folded) is expected and another output is DRIFT"]
    thorough = tier == "thorough"
    known = sorted(o.known)
    # the thorough universe (2.4 million pairs) is walked through in the parts defined by Gen_Transclusion (constant Slice:
    # part i = the libraries with the i-th T1 body; the small families sit in part 1), one TLC run + comparison per part,
    # so that only one part is in memory at a time; quick: one run (Slice = 0 = everything)
    cfg_name = "Gen_Transclusion_T.cfg" if thorough else "Gen_Transclusion_Q.cfg"
    cfg_all = (common.VERIF / "spec" / cfg_name).read_text()
    assert "Slice = 0" in cfg_all
    for part in (range(1, 9) if thorough else [0]):
        r = tlc("Gen_Transclusion", f"part{part}.cfg", cfg_text=cfg_all.replace("Slice = 0", f"Slice = {part}"), workers=1, timeout=3000)
        o.add_tlc("Gen_Transclusion(+laws)" + (f" part {part}/8" if part else ""), r)
        cases = r.cases
        r = None
        for c in cases:
            c["devs"] = known if c["asis"] != c["ideal"] or c.get("asisFold") != c.get("fold") else []
        results = pmap(run_chunk, group_by_lib(cases))
        compare(o, cases, results, "G")
        o.traces += len(cases)
        if part in (0, 1):
            mid = cases[len(cases) // 3]
            o.sample({"lib": {k: tr.render_body(v) for k, v in mid["lib"].items()}, "page": tr.render(mid["page"]), "expected": tr.text(mid["ideal"])})
        cases = results = None
    o.exhaustive = True
    run_v(o, 1500 if thorough else 250, thorough)
    run_includable(o, thorough)
    return o.finish()


def replay(path: str) -> int:
    v = json.loads(Path(path).read_text())
    c = v["case"]
    common.use_repo()
    with Scratch("c04r-") as d:
        ctx = new_ctx(d)
        for name, body in c["lib"].items():
            ctx.add_page("Template:" + name, 10, body=body)
        out = expand_page(ctx, c["page"])
        ctx.db_conn.close()
    print("page    :", repr(c["page"]))
    print("library :", c["lib"])
    print("expected:", repr(c["expected"]))
    print("got now :", repr(out))
    return 0 if out == c["expected"] else 1


def selftest() -> int:
    o = Outcome(PID, "quick")
    batch = [{"lib": {"T1": [{"w": "plain", "c": [{"k": "p", "name": ["1"], "hasDef": False, "def": []}]}]},
              "page": [{"k": "c", "name": "T1", "args": [{"named": False, "key": [], "val": [{"k": "t", "s": ["a"]}]}]}],
              "out": ["a"]}]
    bad = []
    for corrupt in (False, True):
        if corrupt:
            batch[0]["out"] = ["b"]
        with Scratch("c04s-") as d:
            tf = d / "b.json"
            tf.write_text(json.dumps(batch))
            r = tlc("Trace_Transclusion", "t.cfg", cfg_text="SPECIFICATION Spec\nINVARIANT Verdict\nCHECK_DEADLOCK FALSE\n", workers=1, env={"TRACE_FILE": str(tf)})
        bad.append(len(r.tagged("VERDICT")[0]["bad"]))
    print("bad counts (intact, corrupted):", bad)
    return 0 if bad == [0, 1] else 1
