"""C04 — template expansion agrees with the reference transclusion semantics.

M  TLC evaluates the reference `Eval` (spec/Transclusion.tla) on every (library, page)
   of the bounded universe and checks the reference's own laws (named-argument
   padding is irrelevant, includable part excludes noinclude/comment text).
G  every enumerated pair is installed in a real Wtp and expanded; the returned string
   is compared with the specification's (ideal; as-is = ideal + listed deviations).
V  seeded random deeper pairs (<=5 templates, call DAG, depth <=4, whitespace-rich
   single-character alphabet) are expanded by the real code, recorded with the
   tokenised output and validated by TLC (Trace_Transclusion).
"""
from __future__ import annotations

import json
import random
from pathlib import Path

import common
import transclusion as tr
from common import Outcome, Scratch, pmap, tlc

PID = "C04"


def new_ctx(d, name="p"):
    from wikitextprocessor import Wtp

    sub = Path(d) / name
    sub.mkdir(parents=True, exist_ok=True)
    return Wtp(db_path=str(sub / "pages.db"), quiet=True, quiet_output=True)


def expand_page(ctx, page_text):
    ctx.start_page("Pg")
    return ctx.expand(page_text)


def run_chunk(chunk):
    """chunk: list of (libkey, lib, [(idx, page)])"""
    common.use_repo()
    res = []
    with Scratch("c04-") as d:
        for n, (lib, pages) in enumerate(chunk):
            ctx = new_ctx(d, f"l{n}")
            try:
                tr.install(ctx, lib)
                for idx, page in pages:
                    src = tr.render(page)
                    try:
                        out = expand_page(ctx, src)
                    except Exception as e:  # noqa: BLE001
                        out = "EXCEPTION " + repr(e)
                    res.append((idx, src, out))
            finally:
                ctx.db_conn.close()
    return res


def group_by_lib(cases):
    groups = {}
    for idx, c in enumerate(cases):
        k = common.json_key(c["lib"])
        groups.setdefault(k, (c["lib"], []))[1].append((idx, c["page"]))
    return list(groups.values())


def compare(o: Outcome, cases, results, origin):
    for idx, src, out in results:
        c = cases[idx]
        o.evaluations += 1
        ideal = tr.text(c["ideal"])
        o.shape(("out", ideal))
        if out == ideal:
            continue
        asis = tr.text(c.get("asis", c["ideal"]))
        case = {
            "origin": origin,
            "lib": {k: tr.render_body(v) for k, v in c["lib"].items()},
            "page": src,
            "expected": ideal,
            "got": out,
            "ast": {"lib": c["lib"], "page": c["page"]},
        }
        if out == asis and c.get("devs"):
            o.classify(case, "expand() differs from the reference transclusion semantics", c["devs"], cls="known")
        else:
            o.violation(case, f"expand({src!r}) returned {out!r}; the transclusion rules give {ideal!r}", cls=classify_diff(ideal, out))


def classify_diff(ideal, out):
    if out.startswith("EXCEPTION"):
        return "exception"
    if out.strip() == ideal.strip():
        return "outer-whitespace"
    if out.replace(" ", "").replace("\n", "") == ideal.replace(" ", "").replace("\n", ""):
        return "inner-whitespace"
    return "content"


def run_v(o: Outcome, n, thorough):
    rng = random.Random(common.seed() * 104729 + 4)
    cases = []
    for _ in range(n):
        lib, names = tr.rlib(rng, rng.randint(1, 5), 3)
        for _ in range(4):
            page = tr.rcontent(rng, 4 if thorough else 3, names, False, [8])
            if page:
                cases.append({"lib": lib, "page": page})
    groups = group_by_lib(cases)
    results = pmap(run_chunk, groups)
    by_idx = {idx: (src, out) for idx, src, out in results}
    batch = []
    for idx, c in enumerate(cases):
        src, out = by_idx[idx]
        batch.append({"lib": c["lib"], "page": c["page"], "out": tr.tokenize(out)})
    with Scratch("c04v-") as d:
        tf = d / "batch.json"
        tf.write_text(json.dumps(batch))
        cfg = "SPECIFICATION Spec\nINVARIANT Verdict\nCHECK_DEADLOCK FALSE\n"
        r = tlc("Trace_Transclusion", "t.cfg", cfg_text=cfg, workers=1, env={"TRACE_FILE": str(tf)}, timeout=3000)
    o.add_tlc("Trace_Transclusion", r)
    v = r.tagged("VERDICT")
    if not v or v[0]["consumed"] != len(batch):
        raise common.TLCError("trace validation incomplete")
    o.traces += len(batch)
    o.evaluations += len(batch)
    for b in v[0]["bad"]:
        idx = b["i"] - 1
        src, out = by_idx[idx]
        ideal = tr.text(b["expected"])
        if ideal == out:
            continue  # same string, different tokenisation ("]]]" = "]" + "]]")
        if tr.text(b.get("asis", b["expected"])) == out and o.known:
            o.classify({"origin": "V", "lib": {k: tr.render_body(s) for k, s in cases[idx]["lib"].items()}, "page": src,
                        "expected": ideal, "got": out}, "expand() differs from the reference transclusion semantics", sorted(o.known), cls="known")
            continue
        o.violation(
            {"origin": "V", "lib": {k: tr.render_body(s) for k, s in cases[idx]["lib"].items()}, "page": src,
             "expected": ideal, "got": out, "ast": cases[idx]},
            f"expand({src!r}) returned {out!r}; the transclusion rules give {ideal!r}",
            cls="V:" + classify_diff(ideal, out),
        )
    for idx, c in enumerate(cases):
        o.shape(("vout", by_idx[idx][1]))
    if cases:
        o.sample({"random_case": {"lib": {k: tr.render_body(s) for k, s in cases[0]["lib"].items()}, "page": by_idx[0][0], "out": by_idx[0][1]}})


INC_TOK = {"NO": "<noinclude>", "NC": "</noinclude>", "IO": "<includeonly>", "IC": "</includeonly>", "OO": "<onlyinclude>",
           "OC": "</onlyinclude>", "OS": "<onlyinclude/>", "CO": "<!--", "CC": "-->"}


# second spelling: upper / mixed case and blanks inside the tags (tag names are case-insensitive)
INC_TOK_UP = {"NO": "<NOINCLUDE>", "NC": "</NoInclude >", "IO": "<IncludeOnly>", "IC": "</INCLUDEONLY>", "OO": "<OnlyInclude >",
              "OC": "</ONLYINCLUDE>", "OS": "<ONLYINCLUDE/>", "CO": "<!--", "CC": "-->"}


def inc_chunk(chunk):
    common.use_repo()
    res = []
    with Scratch("c04i-") as d:
        ctx = new_ctx(d)
        try:
            for idx, toks in chunk:
                for table in (INC_TOK, INC_TOK_UP):
                    body = "".join(table.get(t, t) for t in toks)
                    ctx.add_page("Template:X", 10, body=body)
                    p = ctx.get_page("X", 10)
                    res.append((idx, body, p.body if p else None, table is INC_TOK_UP))
        finally:
            ctx.db_conn.close()
    return res


def run_includable(o: Outcome, thorough: bool):
    """Includable part (last sentence of the property): spec/Includable.tla transcribes _template_to_body on
    token sequences; TLC checks it against the segment-level reference on every well-formed body (Law) and
    enumerates token soups; the real add_page/get_page must store exactly the predicted text."""
    for mode in ("segs", "soup"):
        r = tlc("Gen_Includable", f"Gen_Includable_{mode}_{'T' if thorough else 'Q'}.cfg", workers=1, timeout=3000)
        o.add_tlc(f"Gen_Includable[{mode}] law+cases", r)
        cases = r.cases
        for idx, body, got, up in pmap(inc_chunk, [(i, c["toks"]) for i, c in enumerate(cases)]):
            c = cases[idx]
            o.evaluations += 1
            exp = "".join((INC_TOK_UP if up else INC_TOK).get(t, t) for t in c["out"])
            if got == exp:
                if c["wf"]:
                    o.shape(("inc", body))
                continue
            if c["wf"]:
                o.violation({"origin": "G-includable", "template_body": body, "expected": exp, "got": got},
                            f"the includable part of the template body {body!r} is stored as {got!r}; the rules give {exp!r}", cls="includable")
            else:
                o.note_drift({"template_body": body, "model": exp, "real": got, "note": "unbalanced/nested wrapper tags: transcription of _template_to_body differs"})
        o.traces += len(cases)


def run(tier: str) -> int:
    o = Outcome(PID, tier)
    o.rule = ("G: every (library, page) pair of the bounded universe of Gen_Transclusion is one case; V: seeded random "
              "pairs. distinct_nontrivial counts distinct expected/observed output strings.")
    o.assumptions = ["MediaWiki transclusion rules as written in the property statement are the reference",
                     "atoms are concretised one-to-one; undefined-parameter names are written without padding"]
    thorough = tier == "thorough"
    r = tlc("Gen_Transclusion", "Gen_Transclusion_T.cfg" if thorough else "Gen_Transclusion_Q.cfg", workers=1, timeout=3000)
    o.add_tlc("Gen_Transclusion(+laws)", r)
    cases = r.cases
    known = sorted(o.known)
    for c in cases:
        c["devs"] = known if c["asis"] != c["ideal"] else []
    results = pmap(run_chunk, group_by_lib(cases))
    compare(o, cases, results, "G")
    o.traces += len(cases)
    o.exhaustive = True
    mid = cases[len(cases) // 3]
    o.sample({"lib": {k: tr.render_body(v) for k, v in mid["lib"].items()}, "page": tr.render(mid["page"]), "expected": tr.text(mid["ideal"])})
    run_v(o, 1500 if thorough else 250, thorough)
    run_includable(o, thorough)
    return o.finish()


def replay(path: str) -> int:
    v = json.loads(Path(path).read_text())
    c = v["case"]
    common.use_repo()
    with Scratch("c04r-") as d:
        ctx = new_ctx(d)
        for name, body in c["lib"].items():
            ctx.add_page("Template:" + name, 10, body=body)
        out = expand_page(ctx, c["page"])
        ctx.db_conn.close()
    print("page    :", repr(c["page"]))
    print("library :", c["lib"])
    print("expected:", repr(c["expected"]))
    print("got now :", repr(out))
    return 0 if out == c["expected"] else 1


def selftest() -> int:
    o = Outcome(PID, "quick")
    batch = [{"lib": {"T1": [{"w": "plain", "c": [{"k": "p", "name": ["1"], "hasDef": False, "def": []}]}]},
              "page": [{"k": "c", "name": "T1", "args": [{"named": False, "key": [], "val": [{"k": "t", "s": ["a"]}]}]}],
              "out": ["a"]}]
    bad = []
    for corrupt in (False, True):
        if corrupt:
            batch[0]["out"] = ["b"]
        with Scratch("c04s-") as d:
            tf = d / "b.json"
            tf.write_text(json.dumps(batch))
            r = tlc("Trace_Transclusion", "t.cfg", cfg_text="SPECIFICATION Spec\nINVARIANT Verdict\nCHECK_DEADLOCK FALSE\n", workers=1, env={"TRACE_FILE": str(tf)})
        bad.append(len(r.tagged("VERDICT")[0]["bad"]))
    print("bad counts (intact, corrupted):", bad)
    return 0 if bad == [0, 1] else 1
