"""Pipeline engine — the dump-processing pipeline (dumpparser.py) one level above C12/C11/C17.

Attached to the checks of C12 and C11 through `extend(o, tier, pid)`.

M  TLC: MC_Pipeline (spec/Pipeline.tla: process_dump phases, the four paths of
        analyze_and_overwrite_pages, overwrite_pages' probing/writing passes over both
        file formats, overwrite_single_page, backup/analysis placement; save_pages_to_file
        path mapping and read-back): P1 final store = base (+) overrides, P2 backup = store
        before any override, P3 probe writes nothing / marks = closure of the final store,
        P4 path mapping injective + tree comes back; Demo_Pipeline_*: named deviation
        switches on which TLC finds the counterexample (vacuity guards).
G  TLC Gen_Pipeline enumerates every bounded scenario (base store x override set in both
        formats x skip_extract_dump x analysed-before x classifier x dump) with the predicted
        calls, store after each, backup, final store and marks.  The harness builds a real
        Wtp (db in a sub-directory of a scratch directory), materialises the base with
        add_page + commit, writes the override files, calls the REAL process_dump /
        analyze_and_overwrite_pages with a real classifier, reads the store by SQL, opens
        the backup file with sqlite3, re-opens the database path (restore) and compares.
        Gen_PipelineSave: page sets of the title universe with the predicted tree of
        save_pages_to_file and the rows overwrite_pages reads back from it.
V  seeded random larger scenarios (more pages, random title shapes, more sources) recorded
        as event traces (one event per pipeline call, with the observed store and backup)
        and validated by Trace_Pipeline inside TLC; the same for random saved trees.

Verdicts: VIOLATION only where the statement of the attached property is contradicted
  C12: a page of the ingested store that no override addresses is lost / altered / an
       unexplained page appears while the pipeline runs;
  C11: with skip_extract_dump the database re-opened after the pipeline (restore from the
       backup) still holds a page version written by an override (P2);
everything else the model predicts (P1 for overrides, P3, P4) is DRIFT.
"""
from __future__ import annotations

import atexit
import hashlib
import json
import os
import random
import re
import shutil
import sqlite3
import tempfile
import threading
import time
from concurrent.futures import ThreadPoolExecutor
from pathlib import Path

import common
from common import Outcome, pmap, Scratch

_JT = None
_JT_LOCK = threading.Lock()


def tlc(*a, **kw):
    """common.tlc with the JVM temp dir redirected into one scratch directory removed at exit."""
    global _JT
    with _JT_LOCK:
        if _JT is None:
            _JT = tempfile.mkdtemp(prefix="plj-")
            atexit.register(shutil.rmtree, _JT, True)
    env = dict(kw.pop("env", None) or {})
    env["JAVA_TOOL_OPTIONS"] = (os.environ.get("JAVA_TOOL_OPTIONS", "") + f" -Djava.io.tmpdir={_JT}").strip()
    return common.tlc(*a, env=env, **kw)


NONS = 9999
DEV_ASIS = ["MainPrefixStrippedOnAdd", "AnalysisKeepsOldMarks"]
DEV_MARKS = "AnalysisKeepsOldMarks"
ATOM = {"SP": " ", "US": "_"}
SEL = [0, 10, 828]

# concrete texts behind the body identifiers of MC_Pipeline / Gen_Pipeline
BODY = {
    "b1": "plain text one\n",
    "b2": "second  body\n\nwith a blank line and a trailing blank ",
    "b3": "third Ünï-çø\U0001D521é body <&> ]]>",
    "b4": "4",
    "pre": "start PRE end",
    "uP": "a {{P}} b",
    "uQ": "{{Q}}",
    "uq": "x{{q}}",
    "uT": "{{T}}\n",
    "m1": "return {v=1}",
    "m2": "return {v=2}\n",
    "m3": "-- three\nreturn {}",
    "t1": "A<noinclude>doc {{P}} PRE</noinclude>B",
    "t1i": "AB",
    "d1": "|",
    "d2": "=",
    "d3": "&lbrace;&lbrace;",
    "d4": "&rbrace;&rbrace;",
    "NULL": None,
}
IncOf = {"t1": "t1i"}
CALL_RE = re.compile(r"\{\{([^{}|]+)\}\}")


def classifier(wtp, page):
    """The analyze_template_func of the harness: names called with {{...}}, PRE in the text."""
    b = page.body or ""
    return set(m.strip() for m in CALL_RE.findall(b)), "PRE" in b


def conc(atoms) -> str:
    return "".join(ATOM.get(a, a) for a in atoms)


def conc_red(r):
    return None if list(r) == ["-"] else conc(r)


def row_conc(r, body=BODY):
    """[title, ns, redirect, body id, model, pre] -> concrete tuple"""
    return (conc(r[0]), r[1], conc_red(r[2]), body[r[3]], r[4], bool(r[5]))


# ---------------------------------------------------------------------------
# the rig: one real Wtp per worker, instrumented at the pipeline's call boundaries
# ---------------------------------------------------------------------------
SELECT = "SELECT title, namespace_id, redirect_to, body, model, need_pre_expand FROM pages"


def read_rows(conn):
    return sorted(((t, ns, red, b, m, bool(p)) for t, ns, red, b, m, p in conn.execute(SELECT)), key=repr)


def read_file_rows(path: Path):
    """rows of a database file opened read-only from outside, or None"""
    if not path.exists():
        return None
    c = sqlite3.connect(f"file:{path}?mode=ro", uri=True)
    try:
        return read_rows(c)
    except sqlite3.DatabaseError:
        return [("<unreadable>", -1, None, None, "", False)]
    finally:
        c.close()


class Rig:
    def __init__(self, d: Path):
        from wikitextprocessor import Wtp
        import wikitextprocessor.dumpparser as dp

        self.Wtp = Wtp
        self.dp = dp
        self.dir = d
        self.pid = os.getpid()
        self.n = 0
        self.ctx = None
        self.calls: list = []
        self.observe = True
        self.empty_dump = None
        dp.init_interwiki_map = lambda wtp: None  # the only network access of process_dump
        self._install()

    # -- instrumentation: wrappers around the pipeline's steps (call, then snapshot)
    def _install(self):
        dp = self.dp

        def wrap_mod(name, label):
            real = getattr(dp, name, None)
            if real is None or getattr(real, "_pl_wrapped", False):
                return
            def w(*a, **kw):
                res = real(*a, **kw)
                lab = label
                if name == "overwrite_pages":
                    do = a[2] if len(a) > 2 else kw.get("do_overwrite")
                    lab = "write" if do else f"probe:{bool(res)}"
                _note_current(lab)
                return res
            w._pl_wrapped = True
            setattr(dp, name, w)

        def wrap_meth(name, label):
            real = getattr(self.Wtp, name, None)
            if real is None or getattr(real, "_pl_wrapped", False):
                return
            def w(self_, *a, **kw):
                res = real(self_, *a, **kw)
                _note_current(label)
                return res
            w._pl_wrapped = True
            setattr(self.Wtp, name, w)

        wrap_mod("parse_dump_xml", "parse")
        wrap_mod("add_default_templates", "defaults")
        wrap_mod("overwrite_pages", "")
        wrap_meth("backup_db", "backup")
        wrap_meth("analyze_templates", "analyze")

    def _note(self, label):
        if self.ctx is None or not self.observe:
            return
        self.calls.append((label, read_rows(self.ctx.db_conn), read_file_rows(self.ctx.backup_db_path)))

    # -- a database holding exactly `rows`
    def new_ctx(self):
        self.n += 1
        sub = self.dir / f"db{self.n}"
        sub.mkdir()
        self.ctx = self.Wtp(db_path=str(sub / "pages.db"), quiet=True)
        return self.ctx

    def fresh(self, rows):
        """rows: concrete 6-tuples, materialised with add_page + commit (+ marks by SQL)."""
        ctx = self.ctx
        if ctx is not None:
            try:
                ctx.db_conn.execute("DELETE FROM pages")
                ctx.db_conn.commit()
                ctx.get_page.cache_clear()
                for p in (ctx.backup_db_path, ctx.backup_db_path.with_suffix(".tmp")):
                    p.unlink(True)
            except Exception:
                self.drop()
                ctx = None
        if ctx is None:
            ctx = self.new_ctx()
        self.observe = False
        for t, ns, red, body, model, pre in rows:
            ctx.add_page(t, ns, body=body, redirect_to=red, model=model)
        for t, ns, red, body, model, pre in rows:
            if pre:
                ctx.db_conn.execute("UPDATE pages SET need_pre_expand = 1 WHERE title = ? AND namespace_id = ?", (t, ns))
        ctx.db_conn.commit()
        got = read_rows(ctx.db_conn)
        if got != sorted(rows, key=repr):
            raise RuntimeError(f"could not materialise the base store: {got} != {sorted(rows, key=repr)}")
        self.observe = True
        self.calls = []
        return ctx

    def drop(self):
        if self.ctx is not None:
            try:
                self.ctx.db_conn.close()
            except Exception:
                pass
            self.ctx = None

    def reopen(self):
        """close, open the database path again (restores from the backup if there is one)"""
        path = self.ctx.db_path
        self.observe = False
        try:
            self.ctx.db_conn.commit()
        except Exception:
            pass
        self.ctx.db_conn.close()
        self.ctx = self.Wtp(db_path=str(path), quiet=True)
        self.observe = True
        return read_rows(self.ctx.db_conn)

    # -- override sources on disk
    def write_sources(self, root: Path, srcs, body):
        """srcs: [{fmt, items: [[title, ns, red, pre, body, model, hidden]]}] -> list of paths"""
        paths = []
        for k, s in enumerate(srcs):
            if s["fmt"] in ("json", "otherfile"):
                data = {}
                for t, ns, red, pre, b, model, hidden in s["items"]:
                    e: dict = {}
                    if ns != NONS:
                        e["namespace_id"] = ns
                    if list(red) != ["-"]:
                        e["redirect_to"] = conc(red)
                    if pre:
                        e["need_pre_expand"] = True
                    elif (len(data) + k) % 2:
                        e["need_pre_expand"] = False
                    if body[b] is not None:
                        e["body"] = body[b]
                    elif len(data) % 2:
                        e["body"] = None
                    if model == "NULL":
                        e["model"] = None
                    elif model != "ABSENT":
                        e["model"] = model
                    data[conc(t)] = e
                p = root / (f"ov{k}.json" if s["fmt"] == "json" else f"ov{k}.txt")
                p.write_text(json.dumps(data, ensure_ascii=bool(k % 2)), encoding="utf-8")
            elif s["fmt"] == "dir":
                p = root / f"ov{k}"
                p.mkdir()
                for i, (t, ns, red, pre, b, model, hidden) in enumerate(s["items"]):
                    name = f"f{i}.txt" if not hidden else (f".h{i}.txt" if i % 2 == 0 else f"h{i}.json")
                    with (p / name).open("w", encoding="utf-8", newline="") as f:
                        f.write(f"TITLE: {conc(t)}\n{body[b] or ''}")
            else:
                p = root / f"missing{k}"
            paths.append(p)
        return paths

    def dump_file(self, root: Path, pages):
        """pages: [(title, ns, model, red, text)] -> .xml.bz2"""
        import c12

        if not pages and self.empty_dump is not None:
            return self.empty_dump
        nsn = {v["id"]: (v["name"] if v["id"] != 0 else "") for v in self.ctx.NAMESPACE_DATA.values()}
        p = (self.dir / "empty.xml.bz2") if not pages else (root / "dump.xml.bz2")
        c12.write_dump(p, pages, nsn)
        if not pages:
            self.empty_dump = p
        return p

    def pipeline(self, root: Path, sc, how: int):
        """Run the real pipeline on a concrete scenario.
        sc: {base, dump, skip, func, hasOv, srcs, body}; how: which entry point.
        -> observation {calls, final, committed, bak, exc}"""
        ctx = self.fresh(sc["base"])
        folders = self.write_sources(root, sc["srcs"], sc["body"]) if sc["hasOv"] else None
        func = classifier if sc["func"] else None
        exc = None
        try:
            if sc["skip"] or sc["dump"] or how % 2 == 0:
                dump = self.dump_file(root, sc["dump"]) if not sc["skip"] else Path("/nonexistent/dump.xml.bz2")
                self.dp.process_dump(ctx, str(dump), set(SEL), overwrite_folders=folders,
                                     skip_extract_dump=sc["skip"], analyze_template_func=func)
            else:
                # skip_extract_dump = False with nothing to parse: the pieces called directly
                self._note("parse")  # process_dump's part is played by the harness here
                self.dp.add_default_templates(ctx)
                self.dp.analyze_and_overwrite_pages(ctx, folders, False, func)
        except BaseException as e:  # noqa: BLE001  (sys.exit inside overwrite_pages included)
            exc = repr(e)
        self.observe = False
        final = read_rows(ctx.db_conn)
        outside = read_file_rows(Path(ctx.db_path))
        return {"calls": self.calls, "final": final, "committed": outside == final,
                "bak": read_file_rows(ctx.backup_db_path), "exc": exc}


_RIG = None
_RIGDIR = None


def _note_current(label):
    if _RIG is not None and _RIG.pid == os.getpid():
        _RIG._note(label)


def rig() -> Rig:
    global _RIG, _RIGDIR
    if _RIG is None or _RIG.pid != os.getpid():
        common.use_repo()
        import logging

        logging.disable(logging.CRITICAL)
        _RIGDIR = Path(tempfile.mkdtemp(prefix="plr-"))
        atexit.register(shutil.rmtree, str(_RIGDIR), True)
        _RIG = Rig(_RIGDIR)
        _RIG.pid = os.getpid()
    return _RIG


def rig_done():
    """called at the end of a chunk in a pool worker (atexit does not run there)"""
    global _RIG
    if _RIG is not None and _RIG.pid == os.getpid():
        _RIG.drop()
        shutil.rmtree(_RIGDIR, ignore_errors=True)
        _RIG = None


# ---------------------------------------------------------------------------
# judging one scenario: observation vs prediction
# ---------------------------------------------------------------------------
def r5(rows):
    return sorted({r[:5] for r in rows}, key=repr)


def marks(rows):
    return sorted({(r[0], r[1]) for r in rows if r[5]}, key=repr)


def judge(pred, obs, restored):
    """pred: {pre, fin, bak:{some, rows}, path, ovkeys, ovtitles, due, ideal, skip, committed}
    (concrete); obs: Rig.pipeline(); restored: rows after re-opening or None.
    -> (c12: [why], c11: [why], drift: [why], info: [tag])"""
    c12, c11, drift, info = [], [], [], []
    final = obs["final"]
    f5 = {(r[0], r[1]): r[:5] for r in final}
    ovkeys = set(map(tuple, pred["ovkeys"]))
    # ---- C12: pages no override addresses
    for r in r5(pred["pre"]):
        k = (r[0], r[1])
        if k in ovkeys:
            continue
        if k not in f5:
            c12.append(f"page {k} of the ingested store, addressed by no override, is lost")
        elif f5[k] != r:
            c12.append(f"page {k} of the ingested store, addressed by no override, is altered: {f5[k]!r} instead of {r!r}")
    prekeys = {(r[0], r[1]) for r in pred["pre"]}
    for k in f5:
        if k not in prekeys and k not in ovkeys:
            # every write of the passes comes from an override item: a page that carries the title or the
            # content of one is a misplaced override (P1), anything else is a page out of nowhere
            row = f5[k]
            related = any(t.strip() and (t.strip() in k[0] or k[0].strip() in t) for t in pred["ovtitles"]) or \
                (row[3] is not None and row[3] in pred["ovbodies"]) or (row[2] is not None and row[2] in pred["ovbodies"])
            if related:
                drift.append(f"P1: override stored under {k}, the model expects one of {sorted(ovkeys)}")
            else:
                c12.append(f"page {k} appears that is neither ingested nor given as an override")
    # ---- P1 for the overrides themselves
    exp5 = r5(pred["fin"])
    if r5(final) != exp5 and not c12:
        miss = [r for r in exp5 if r not in r5(final)]
        unexp = [r for r in r5(final) if r not in exp5]
        drift.append(f"P1: final store differs on overridden pages: missing {miss[:2]!r} unexpected {unexp[:2]!r}")
    if obs["exc"]:
        drift.append(f"exception {obs['exc']}")
    if not obs["committed"] and pred["committed"]:
        drift.append("P1: the final store is not committed (another connection sees something else)")
    # ---- calls and the store after each (P3: the probe writes nothing; placement)
    opath = [c[0] for c in obs["calls"]]
    if opath != pred["path"]:
        drift.append(f"calls made {opath} differ from the model's {pred['path']}")
    else:
        info.append("path-ok")
    for lab, rows, bak in obs["calls"]:
        if lab.startswith("probe") and r5(rows) != r5(pred["pre"]):
            drift.append("P3: the probing pass (do_overwrite=False) wrote to the store")
            break
    # ---- P3: marks
    om = marks(final)
    asis = marks(pred["fin"])
    ideal = sorted({k for k in asis if k[1] != 10} | {(t, 10) for t in pred["ideal"]}, key=repr) if pred["due"] else asis
    if om == asis:
        if asis != ideal:
            info.append("deviation:" + DEV_MARKS)
    elif om == ideal:
        info.append("marks-ideal")
    else:
        drift.append(f"P3: marked set {om} differs from the model's {asis}" + (f" (closure of the final store: {ideal})" if pred["due"] else ""))
    # ---- P2 / C11: the backup and what a restore yields
    pb = pred["bak"]
    if pb["some"]:
        if obs["bak"] is None:
            drift.append("P2: no backup file although skip_extract_dump and overrides are given")
        else:
            if r5(obs["bak"]) != r5(pb["rows"]):
                drift.append("P2: the backup file does not hold the store as it was before the overrides")
            elif marks(obs["bak"]) != marks(pb["rows"]):
                drift.append("P2: need_pre_expand values in the backup differ from the model's")
        if restored is not None:
            want = r5(pred["pre"])
            got = r5(restored)
            if got != want:
                surv = [r for r in got if r not in want]
                lost = [r for r in want if r not in got]
                how = ("no backup was taken, so re-opening the database path does not undo the overrides"
                       if obs["bak"] is None else
                       "the database path re-opens (restore from the backup) to a store that is not the one before the overrides")
                c11.append(
                    f"skip_extract_dump: after the pipeline {how}: override versions surviving {surv[:3]!r}, "
                    f"original versions missing {lost[:3]!r}")
    elif obs["bak"] is not None:
        drift.append("P2: a backup file exists although the model takes none here")
    return c12, c11, drift, info


_G: dict = {}


def concretise(case, tables):
    body = BODY
    base = [row_conc(r) for r in tables["bases"][case["b"]]["rows"]]
    if case["an"]:
        mk = {conc(t) for t in tables["bases"][case["b"]]["marks"]}
        base = [(t, ns, red, b, m, (t in mk and ns == 10)) for t, ns, red, b, m, p in base]
    dump = [(conc(t), ns, model, None, body[b]) for t, ns, model, b in tables["dumps"][case["d"]]]
    sc = {"base": base, "dump": dump, "skip": case["skip"], "func": case["func"], "hasOv": case["hasOv"],
          "srcs": case["srcs"], "body": body}
    pred = {
        "pre": [row_conc(r) for r in case["pre"]],
        "fin": [row_conc(r) for r in case["fin"]],
        "bak": {"some": case["bak"]["some"], "rows": [row_conc(r) for r in case["bak"]["rows"]]},
        "path": case["path"], "ovkeys": [(conc(k[0]), k[1]) for k in case["ovkeys"]],
        "ovtitles": sorted({conc(it[0]) for s in case["srcs"] for it in s["items"]}),
        "ovbodies": {x for s in case["srcs"] for it in s["items"] for x in (body[it[4]], body.get(IncOf.get(it[4], it[4])), conc_red(it[2])) if x is not None},
        "due": case["due"], "ideal": [conc(t) for t in case["ideal"]], "skip": case["skip"],
        "committed": case["committed"],
    }
    return sc, pred


def run_g_chunk(chunk):
    """chunk: [(idx, case)] -> [(idx, c12, c11, drift, info, ncalls)]"""
    tables = _G["tables"]
    rg = rig()
    out = []
    try:
        for idx, case in chunk:
            root = rg.dir / f"c{idx}"
            root.mkdir()
            try:
                sc, pred = concretise(case, tables)
                obs = rg.pipeline(root, sc, idx)
                restored = rg.reopen() if (case["skip"] and (pred["bak"]["some"] or obs["bak"] is not None)) else None
                c12, c11, drift, info = judge(pred, obs, restored)
                out.append((idx, c12, c11, drift, info, len(obs["calls"]) + 3))
            except Exception as e:  # noqa: BLE001
                rg.drop()
                out.append((idx, [], [], [f"harness could not run the scenario: {e!r}"], ["machinery"], 0))
            finally:
                shutil.rmtree(root, ignore_errors=True)
    finally:
        rig_done()
    return out


def describe_case(case):
    ov = [f"{s['fmt']}:" + ",".join(conc(it[0]) for it in s["items"]) for s in case["srcs"] if s["fmt"] in ("json", "dir")]
    return {"base": case["b"], "analysed_before": case["an"], "dump": case["d"], "skip_extract_dump": case["skip"],
            "classifier": case["func"], "overrides": ov if case["hasOv"] else None, "path": case["kind"]}


# ---------------------------------------------------------------------------
# G for save_pages_to_file / read-back
# ---------------------------------------------------------------------------
def save_and_read(rg: Rig, root: Path, rows, win: bool):
    """rows: concrete 6-tuples in insertion order.  -> (tree, back, notes)
    tree: {relative path tuple: (title line, content)}; back: rows read back by overwrite_pages."""
    dp = rg.dp
    ctx = rg.fresh([])
    rg.observe = False
    for t, ns, red, body, model, pre in rows:
        ctx.add_page(t, ns, body=body, redirect_to=red, model=model)
    ctx.db_conn.commit()
    out = root / "saved"
    out.mkdir()
    real_probe = dp.path_is_on_windows_partition
    dp.path_is_on_windows_partition = lambda p: win  # the file-system probe is the environment, not the code
    try:
        dp.save_pages_to_file(ctx, out)
    finally:
        dp.path_is_on_windows_partition = real_probe
    tree = {}
    dirs = []
    notes = []
    for dpath, dnames, fnames in sorted(os.walk(out)):
        if fnames:
            dirs.append((Path(dpath), bool(dnames)))
        for fn in fnames:
            p = Path(dpath) / fn
            with p.open(encoding="utf-8", newline="") as f:
                first = f.readline()
                rest = f.read()
            tree[p.relative_to(out).parts] = (first, rest)
    # read back: every directory of the tree that holds files; overwrite_pages cannot step over
    # sub-directories (it opens them), so such a directory is presented through a view of links
    folders = []
    for k, (d, mixed) in enumerate(dirs):
        if mixed:
            v = root / f"view{k}"
            v.mkdir()
            for f in d.iterdir():
                if f.is_file():
                    (v / f.name).symlink_to(f)
            folders.append(v)
            notes.append("mixed-directory")
        else:
            folders.append(d)
    ctx.db_conn.execute("DELETE FROM pages")
    ctx.db_conn.commit()
    ctx.get_page.cache_clear()
    dp.overwrite_pages(ctx, folders, True)
    back = read_rows(ctx.db_conn)
    rg.observe = True
    return tree, back, notes


def run_save_chunk(chunk):
    """chunk: [(idx, SAVE case)] -> [(idx, drift list, info, n)]"""
    rg = rig()
    out = []
    try:
        for idx, c in chunk:
            root = rg.dir / f"s{idx}"
            root.mkdir()
            try:
                rows = [row_conc(r) for r in c["pages"]]
                tree, back, notes = save_and_read(rg, root, rows, c["win"])
                drift = []
                exp_tree = {}
                for f in c["tree"]:
                    content = BODY[f["body"]] if f["kind"] == "body" else (conc(f["target"]) if f["kind"] == "target" else "")
                    exp_tree[tuple(f["path"])] = (f"TITLE: {conc(f['title'])}\n", content or "")
                if tree != exp_tree:
                    miss = sorted(set(exp_tree) - set(tree))
                    unexp = sorted(set(tree) - set(exp_tree))
                    other = [k for k in tree if k in exp_tree and tree[k] != exp_tree[k]]
                    drift.append(f"P4: saved tree differs from the model: missing {miss[:3]} unexpected {unexp[:3]} other content {other[:3]}")
                exp_back = sorted(((conc(b["title"]), b["ns"], None,
                                    (BODY[b["body"]] if b["kind"] == "body" else (conc(b["target"]) if b["kind"] == "target" else "")) or "",
                                    "wikitext", False) for b in c["back"]), key=repr)
                if back != exp_back:
                    drift.append(f"P4: rows read back {back[:3]} differ from the model's {exp_back[:3]}")
                info = list(notes)
                if not c["injective"]:
                    info.append("collision")
                if not c["comesback"]:
                    info.append("not-read-back")
                out.append((idx, drift, info, 2))
            except Exception as e:  # noqa: BLE001
                rg.drop()
                out.append((idx, [f"P4: save/read-back raised {e!r}"], ["exception"], 0))
            finally:
                shutil.rmtree(root, ignore_errors=True)
    finally:
        rig_done()
    return out


# ---------------------------------------------------------------------------
# V: random scenarios recorded from the real code
# ---------------------------------------------------------------------------
def site_tables():
    common.use_repo()
    from wikitextprocessor import Wtp

    with Scratch("plu-") as d:
        (d / "x").mkdir()
        w = Wtp(db_path=str(d / "x" / "p.db"), quiet=True)
        nsdata = w.NAMESPACE_DATA
        w.db_conn.close()
    pfxns, canon, nsbylocal = {}, {}, {}
    for key, v in nsdata.items():
        if v["id"] == 0 or not v["name"]:
            continue
        canon[str(v["id"])] = v["name"] + ":"
        nsbylocal[v["name"]] = v["id"]
        for n in [v["name"]] + list(v["aliases"]) + [key]:
            for variant in {n, n.lower(), n.upper(), n.capitalize()}:
                pfxns.setdefault(variant + ":", v["id"])
    for n, i in nsbylocal.items():
        pfxns[n + ":"] = i
    return {"pfxns": pfxns, "canon": canon, "nsbylocal": nsbylocal,
            "tplns": nsdata["Template"]["id"], "modns": nsdata["Module"]["id"]}


WIN = {":": "__colon__", "/": "__solidus__", "*": "__asterisk__", "?": "__questionmark__", '"': "__quotationmark__",
       "<": "__less-thansign__", ">": "__greater-thansign__", "|": "__verticalline__", "\\": "__reversesolidus__"}


def tokenize(s: str, site, chars=False):
    """title -> atoms: namespace prefix atom (any spelling), first letter, words / single characters"""
    atoms = []
    for p in sorted(site["pfxns"], key=len, reverse=True):
        if s.startswith(p):
            atoms.append(p)
            s = s[len(p):]
            break
    if chars:
        return atoms + ["SP" if c == " " else ("US" if c == "_" else c) for c in s]
    if s:
        atoms.append("SP" if s[0] == " " else ("US" if s[0] == "_" else s[0]))
        s = s[1:]
        # "/documentation" and "/testcases" are atoms of their own (Ingest.tla), blanks split words
        for piece in re.split(r"(/documentation|/testcases| |_)", s):
            if piece == " ":
                atoms.append("SP")
            elif piece == "_":
                atoms.append("US")
            elif piece:
                atoms.append(piece)
    return atoms


class Abs:
    """concrete <-> abstract for one trace file: body ids, atom tables"""

    def __init__(self, site):
        self.site = site
        self.ids: dict = {None: "NULL"}
        self.texts: dict = {"NULL": None}
        self.incof: dict = {"-": "-"}
        self.uses: dict = {"-": []}
        self.pre: set = set()
        self.atoms: set = set()
        self.chars = False
        for b in ("|", "=", "&lbrace;&lbrace;", "&rbrace;&rbrace;"):
            self.body(b)

    def body(self, text, inc=None, uses=(), pre=False):
        if text not in self.ids:
            i = f"v{len(self.ids)}"
            self.ids[text] = i
            self.texts[i] = text
        i = self.ids[text]
        if inc is not None and inc != text:
            self.incof[i] = self.body(inc, None, uses, pre)
        elif text is not None:
            if uses:
                self.uses[i] = [self.tok(u) for u in sorted(uses)]
            if pre:
                self.pre.add(i)
        return i

    def body_seen(self, text):
        if text in self.ids:
            return self.ids[text]
        return "?" + hashlib.sha1(repr(text).encode()).hexdigest()[:8]

    def tok(self, s):
        a = tokenize(s, self.site, self.chars)
        self.atoms.update(a)
        return a

    def red(self, r):
        return ["-"] if r is None else self.tok(r)

    def row(self, r, seen=True):
        t, ns, red, body, model, pre = r
        return {"title": self.tok(t), "ns": ns, "redirect": self.red(red),
                "body": self.body_seen(body) if seen else self.body(body), "model": model or "", "pre": bool(pre)}

    def tables(self):
        colonpre, colonlast, upper = {"-": "-"}, {"-": "-"}, {"-": "-"}
        for a in self.atoms:
            if ":" in a:
                colonpre[a] = a[: a.find(":")]
                colonlast[a] = a[: a.rfind(":")]
            if len(a) == 1 and len(a.upper()) == 1:
                upper[a] = a.upper()
        for p in self.site["pfxns"]:
            colonpre[p] = p[:-1]
            colonlast[p] = p[:-1]
        return {
            "pfxns": self.site["pfxns"], "canon": self.site["canon"], "upper": upper,
            "nsbylocal": self.site["nsbylocal"], "colonpre": colonpre, "colonlast": colonlast,
            "incof": self.incof, "bodyuses": self.uses, "bodypre": sorted(self.pre), "winname": WIN,
            "tplns": self.site["tplns"], "modns": self.site["modns"], "dev": DEV_ASIS,
            "defaults": [{"title": self.tok("Template:" + t), "body": self.body(b)}
                         for t, b in (("!", "|"), ("=", "="), ("((", "&lbrace;&lbrace;"), ("))", "&rbrace;&rbrace;"))],
        }


NAMES = ["A", "B", "C", "D", "E", "Foo bar", "x/y", "a:b", "été", "Zed"]
PLAIN = ["word", "Zed", "a:b", "Foo:bar", "x/y/z", "Élément", "9 lives", "template:low", "T:alias", "Thesaurus:cat"]


def rand_body(rng, ab: Abs, template: bool):
    uses = set()
    parts = [rng.choice(["text ", "", "* item\n", "== h ==\n"])]
    for _ in range(rng.choice([0, 0, 1, 1, 2])):
        n = rng.choice(NAMES)
        sp = rng.random()
        if sp < 0.2:
            n = n[0].lower() + n[1:]
        elif sp < 0.3:
            n = "Template:" + n
        elif sp < 0.4:
            n = n.replace(" ", "_")
        uses.add(n)
        parts.append("{{" + n + "}}" + rng.choice(["", " ", "\n"]))
    pre = rng.random() < 0.25
    if pre:
        parts.append("PRE")
    core = "".join(parts) + rng.choice(["", "\n", " tail"])
    if template and rng.random() < 0.2:
        raw = core + "<noinclude>doc {{Zed}} PRE</noinclude>"
        return ab.body(raw, core, uses, pre), raw
    # the tables describe texts (what the classifier answers for them) whatever page carries them
    return ab.body(core, None, uses, pre), core


def rand_scenario(rng, ab: Abs, only_skip: bool):
    """-> concrete scenario + the abstract reset event (without base marks, filled after materialising)"""
    base, titles = [], set()

    def add(t, ns, red, body, model):
        if (t, ns) in titles:
            return
        titles.add((t, ns))
        base.append((t, ns, red, body, model, False))

    tnames = rng.sample(NAMES, rng.randint(3, 7))
    for n in tnames:
        if rng.random() < 0.2 and len(tnames) > 1:
            tgt = rng.choice([x for x in tnames if x != n])
            add("Template:" + n, 10, "Template:" + tgt, None, "wikitext")
        else:
            i, text = rand_body(rng, ab, True)
            stored = ab.texts[ab.incof.get(i, i)]
            add("Template:" + n, 10, None, stored, "wikitext")
    for n in rng.sample(PLAIN, rng.randint(1, 4)):
        i, text = rand_body(rng, ab, False)
        add(n, 0, None, text, "wikitext")
    for n in rng.sample(["M", "data/x", "Zed"], rng.randint(1, 2)):
        ab.body(f"return '{n}'")
        add("Module:" + n, 828, None, f"return '{n}'", "Scribunto")
    if rng.random() < 0.4:
        ab.body("appendix")
        add("Appendix:Glossary", 100, None, "appendix", "wikitext")
    skip = only_skip or rng.random() < 0.5
    func = rng.random() < 0.7
    state = rng.choice(["none", "analysed", "analysed", "stale"])
    dump = []
    if not skip and rng.random() < 0.6:
        for _ in range(rng.randint(1, 4)):
            ns = rng.choice([0, 0, 10, 828, 100])
            if ns == 10:
                n = "Template:" + rng.choice(NAMES)
                i, raw = rand_body(rng, ab, True)
            elif ns == 828:
                n, raw = "Module:" + rng.choice(["M", "N"]), "return 2"
                i = ab.body(raw)
            elif ns == 100:
                n, raw = "Appendix:X", "unselected"
                i = ab.body(raw)
            else:
                n = rng.choice(PLAIN) + rng.choice(["", "", "/documentation"])
                i, raw = rand_body(rng, ab, False)
            model = "Scribunto" if ns == 828 else rng.choice(["wikitext", "wikitext", "css"])
            dump.append((n, ns, model, None, raw))
    srcs = []
    has_ov = rng.random() < 0.9
    if has_ov:
        for _ in range(rng.randint(1, 3)):
            fmt = rng.choice(["json", "json", "dir", "dir", "missing", "otherfile"])
            items, seen = [], set()
            for _ in range(rng.randint(0, 3)):
                kind = rng.choice(["plain", "plain", "template", "template", "module", "redirect", "explicit", "colon", "pre"])
                ns, red, pre, model, hidden = NONS, None, False, "ABSENT", False
                if kind == "plain":
                    t = rng.choice(PLAIN + ["Brand new"])
                    i, raw = rand_body(rng, ab, False)
                elif kind == "template":
                    t = "Template:" + rng.choice(NAMES + ["New", "a:b:c"])
                    i, raw = rand_body(rng, ab, True)
                elif kind == "module":
                    t, raw = "Module:" + rng.choice(["M", "N", "data/x"]), "return 3"
                    i = ab.body(raw)
                    model = rng.choice(["ABSENT", "NULL", "Scribunto"])
                elif kind == "redirect":
                    t, raw = "Template:" + rng.choice(NAMES + ["Rd"]), None
                    red = "Template:" + rng.choice(NAMES)
                    i = "NULL"
                elif kind == "explicit":
                    t = rng.choice(["Zed", "Exp", "Template:A"])
                    ns = rng.choice([10, 0] if ":" in t else [10, 828, 0, 100])
                    i, raw = rand_body(rng, ab, ns == 10)
                    model = rng.choice(["ABSENT", "NULL", "wikitext"])
                elif kind == "colon":
                    t = rng.choice(["template:low", "T:alias", "Foo:Template:x", "Module:a:b", ":lead", "Appendix:Glossary"])
                    i, raw = rand_body(rng, ab, False)
                else:
                    t = rng.choice(PLAIN)
                    i, raw = rand_body(rng, ab, False)
                    pre = True
                if fmt == "dir":
                    ns, red, pre, model = NONS, None, False, "ABSENT"
                    hidden = rng.random() < 0.15
                    if raw is None:
                        continue
                if t in seen:
                    continue
                seen.add(t)
                items.append((t, ns, red, pre, raw, model, hidden))
            srcs.append({"fmt": fmt, "items": items})
    return {"base": base, "state": state, "dump": dump, "skip": skip, "func": func, "hasOv": has_ov, "srcs": srcs}


def abstract_srcs(ab: Abs, srcs):
    out = []
    for s in srcs:
        items = []
        for t, ns, red, pre, raw, model, hidden in s["items"]:
            items.append({"title": ab.tok(t), "ns": ns, "red": ab.red(red), "pre": pre, "body": ab.body(raw),
                          "model": model, "hidden": hidden})
        out.append({"fmt": s["fmt"], "items": items})
    return out


def conc_srcs(ab: Abs, asrcs):
    """abstract sources -> the list form Rig.write_sources takes"""
    return [{"fmt": s["fmt"], "items": [[x["title"], x["ns"], x["red"], x["pre"], x["body"], x["model"], x["hidden"]]
                                        for x in s["items"]]} for s in asrcs]


def record_scenarios(args):
    """(seed, n, only_skip, tid0) -> trace document {tables, events} + per-tid concrete info"""
    sd, n, only_skip, tid0 = args
    rng = random.Random(sd)
    site = site_tables()
    ab = Abs(site)
    rg = rig()
    events, info = [], {}
    try:
        for j in range(n):
            tid = tid0 + j
            sc = rand_scenario(rng, ab, only_skip)
            root = rg.dir / f"v{tid}"
            root.mkdir()
            try:
                # marks of the base: none / what the real analysis leaves / arbitrary old marks
                base = sc["base"]
                if sc["state"] != "none":
                    ctx = rg.fresh(base)
                    rg.observe = False
                    if sc["state"] == "analysed":
                        ctx.analyze_templates(classifier)
                    else:
                        for t, ns, *_ in rng.sample(base, min(2, len(base))):
                            ctx.db_conn.execute("UPDATE pages SET need_pre_expand = 1 WHERE title = ? AND namespace_id = ?", (t, ns))
                    ctx.db_conn.commit()
                    base = read_rows(ctx.db_conn)
                asrcs = abstract_srcs(ab, sc["srcs"])
                adump = []
                for t, ns, model, red, raw in sc["dump"]:
                    i = ab.body(raw)
                    adump.append({"title": ab.tok(t), "ns": ns, "model": model, "red": ["-"], "body": i, "inc": ab.incof.get(i, i)})
                ev = {"op": "reset", "tid": tid, "base": [ab.row(r, seen=False) for r in base], "dump": adump, "sel": SEL,
                      "skip": sc["skip"], "func": sc["func"], "hasOv": sc["hasOv"], "srcs": asrcs}
                events.append(ev)
                conc_sc = {"base": base, "dump": sc["dump"], "skip": sc["skip"], "func": sc["func"], "hasOv": sc["hasOv"],
                           "srcs": conc_srcs(ab, asrcs), "body": ab.texts}
                # write_sources concretises titles with conc(): identical to the recorded strings
                obs = rg.pipeline(root, conc_sc, tid)
                for lab, rows, bak in obs["calls"]:
                    events.append({"op": "call", "tid": tid, "name": lab, "rows": [ab.row(r) for r in rows],
                                   "bak": {"some": bak is not None, "rows": [ab.row(r) for r in (bak or [])]}})
                events.append({"op": "end", "tid": tid, "rows": [ab.row(r) for r in obs["final"]],
                               "bak": {"some": obs["bak"] is not None, "rows": [ab.row(r) for r in (obs["bak"] or [])]}})
                restored = rg.reopen() if (sc["skip"] and obs["bak"] is not None) else None
                info[tid] = {"scenario": {"base": base, "dump": sc["dump"], "skip": sc["skip"], "func": sc["func"],
                                          "hasOv": sc["hasOv"], "srcs": sc["srcs"]},
                             "final": obs["final"], "bak": obs["bak"], "restored": restored, "exc": obs["exc"],
                             "calls": [c[0] for c in obs["calls"]]}
            finally:
                shutil.rmtree(root, ignore_errors=True)
    finally:
        rig_done()
    info["_texts"] = ab.texts
    return {"tables": ab.tables(), "events": events}, info


SAVE_CHARS = list("ab") + ["/", ".", ":", "*", "?", '"', "<", ">", "|", " ", "é", "\\"]


def record_saves(args):
    sd, n, tid0 = args
    rng = random.Random(sd)
    site = site_tables()
    ab = Abs(site)
    ab.chars = True
    rg = rig()
    events, info = [], {}
    try:
        for j in range(n):
            tid = tid0 + j
            rows, seen = [], set()
            for _ in range(rng.randint(3, 10)):
                ns = rng.choice([0, 0, 0, 10, 828])
                s = "".join(rng.choice(SAVE_CHARS) for _ in range(rng.randint(1, 6))).strip()
                if not s or "__" in s:
                    continue
                t = {0: "", 10: "Template:", 828: "Module:"}[ns] + s
                if t in seen or t.startswith("Main:"):
                    continue
                seen.add(t)
                if rng.random() < 0.15:
                    rows.append((t, ns, rng.choice(["a", "Template:b", "x/y"]), None, "wikitext", False))
                else:
                    text = rng.choice(["one\n", "two", "", "l1\nl2\n", " lead"])
                    ab.body(text)
                    rows.append((t, ns, None, text, "wikitext" if ns != 828 else "Scribunto", False))
            win = rng.random() < 0.5
            root = rg.dir / f"w{tid}"
            root.mkdir()
            try:
                try:
                    tree, back, notes = save_and_read(rg, root, rows, win)
                except Exception as e:  # noqa: BLE001
                    rg.drop()
                    info[tid] = {"pages": rows, "win": win, "exc": repr(e)}
                    continue
                otree = []
                for parts, (first, rest) in tree.items():
                    title = first[7:-1] if first.startswith("TITLE: ") and first.endswith("\n") else "?" + first
                    red = next((r[2] for r in rows if r[0] == title and r[2] is not None), None)
                    if red is not None and rest == red:
                        f = {"kind": "target", "body": "", "target": ab.tok(red)}
                    else:
                        f = {"kind": "body", "body": ab.body_seen(rest), "target": []}
                    otree.append({"path": list(parts), "title": ab.tok(title), **f})
                oback = []
                for t, ns, red, body, model, pre in back:
                    src = next((r for r in rows if r[0] == t), None)
                    if src is not None and src[2] is not None and body == src[2]:
                        f = {"kind": "target", "body": "", "target": ab.tok(src[2])}
                    else:
                        f = {"kind": "body", "body": ab.body_seen(body), "target": []}
                    oback.append({"title": ab.tok(t), "ns": ns, **f})
                events.append({"op": "save", "tid": tid, "win": win, "pages": [ab.row(r, seen=False) for r in rows],
                               "tree": otree, "back": oback})
                info[tid] = {"pages": rows, "win": win, "notes": notes}
            finally:
                shutil.rmtree(root, ignore_errors=True)
    finally:
        rig_done()
    return {"tables": ab.tables(), "events": events}, info


def record_job(job):
    return [record_saves(job[1:]) if job[0] == "save" else record_scenarios(job[1:])]


def record_chunk(chunk):
    out = []
    for job in chunk:
        out.extend(record_job(job))
    return out


TRACE_CFG = "SPECIFICATION TSpec\nINVARIANT Verdict\nINVARIANT ModelInv\nCHECK_DEADLOCK FALSE\n"


def validate(doc, name="Trace_Pipeline"):
    with Scratch("plt-") as d:
        tf = d / "trace.json"
        tf.write_text(json.dumps(doc))
        r = tlc("Trace_Pipeline", "trace.cfg", cfg_text=TRACE_CFG, workers=1, env={"TRACE_FILE": str(tf)}, timeout=1200)
    v = r.tagged("VERDICT")
    if not v:
        raise common.TLCError("trace validation printed no verdict")
    if v[0]["consumed"] != len(doc["events"]):
        raise common.TLCError(f"trace consumed {v[0]['consumed']} of {len(doc['events'])} events")
    return r, v[0]["bad"]


def judge_trace_bad(b, info):
    """one mismatch reported by Trace_Pipeline -> (c12, c11, drift) messages for its scenario"""
    c12, c11, drift = [], [], []
    tid = b["tid"]
    inf = info.get(tid, {})
    if b["kind"] == "save":
        drift.append(f"P4: saved tree / rows read back differ from the model: missing {str(b['missing'])[:300]} unexpected {str(b['unexpected'])[:300]}")
    elif b["kind"] in ("missing-call", "extra-call"):
        drift.append(f"pipeline calls differ from the model ({b['kind']}, model expects {b['expcall']}; real calls {inf.get('calls')})")
    else:
        if not b["callOK"]:
            drift.append(f"pipeline call order differs from the model (model expects {b['expcall']}; real calls {inf.get('calls')})")
        if not b["rowsOK"]:
            # C12 only if a page that no override addresses is concerned
            ovt = {t for s in inf.get("scenario", {}).get("srcs", []) for (t, *_r) in s["items"]}
            rows = list(b["missing"]) + list(b["unexpected"])
            untouched = [r for r in rows if not any(conc(r["title"]) == t or conc(r["title"]).endswith(":" + t) or conc(r["title"]).endswith(t) for t in ovt)]
            if untouched and b["expcall"] == "end":
                c12.append(f"final store: pages addressed by no override differ from the specification: {str(untouched)[:400]}")
            else:
                drift.append(f"P1/P3: store after {b['expcall']} differs from the model: missing {str(b['missing'])[:200]} unexpected {str(b['unexpected'])[:200]}")
        if not b["marksOK"]:
            drift.append(f"P3: marked set after {b['expcall']} differs from the model's {str(b['expmarks'])[:300]}")
        if not b["bakOK"] or not b["bakMarksOK"]:
            drift.append(f"P2: backup file after {b['expcall']} differs from the model's")
            if b["expcall"] == "end" and inf.get("restored") is not None:
                texts = info.get("_texts", {})
                want = sorted(((conc(r["title"]), r["ns"], conc_red(r["redirect"]), texts.get(r["body"]), r["model"]) for r in b["preov"]), key=repr)
                got = r5(inf["restored"])
                if got != want:
                    surv = [r for r in got if r not in want]
                    lost = [r for r in want if r not in got]
                    c11.append("skip_extract_dump: after the pipeline the database path re-opens (restore from the backup) to a store "
                               f"that is not the one before the overrides: override versions surviving {surv[:3]!r}, original versions missing {lost[:3]!r}")
    return c12, c11, drift


# ---------------------------------------------------------------------------
# the engine
# ---------------------------------------------------------------------------
CFG_HEAD = """CONSTANTS
  PfxNs <- T_PfxNs
  CanonPfx <- T_CanonPfx
  UpperOf <- T_UpperOf
  ArgU <- NoArgs
  TplNs = 10
  ModNs = 828
  Defaults <- T_Defaults
  OkModels <- T_OkModels
  NsByLocal <- T_NsByLocal
  ColonPre <- T_ColonPre
  ColonLast <- T_ColonLast
  IncOfBody <- T_IncOfBody
  BodyUses <- T_BodyUses
  BodyPre <- T_BodyPre
  WinName <- T_WinName
"""


def cfg(spec, dev, maxov, bases, pj, pd, dumps, parts=1, part=0, titleu="TitlesGood", maxpages=1, wins="WinNo", invs=(), props=()):
    return (f"SPECIFICATION {spec}\n" + CFG_HEAD +
            f"  Dev <- {dev}\n  MaxOv = {maxov}\n  Bases <- {bases}\n  PoolJ <- {pj}\n  PoolD <- {pd}\n  Dumps <- {dumps}\n"
            f"  Parts = {parts}\n  Part = {part}\n  TitleU <- {titleu}\n  MaxPages = {maxpages}\n  Wins <- {wins}\n"
            + "".join(f"INVARIANT {i}\n" for i in invs) + "".join(f"PROPERTY {p}\n" for p in props) + "CHECK_DEADLOCK FALSE\n")


INV_ALL = ["P1_FinalIsOverlay", "P1_NsAgrees", "P2_BackupBeforeOverrides", "P2_RestoreUndoesOverrides",
           "P3_ProbeWritesNothing", "P3_ProbeIsRight", "P3_MarksAreFinalClosure", "P3_OtherMarksKept"]
INV_ASIS = [i for i in INV_ALL if i != "P3_MarksAreFinalClosure"]
DEMOS = {  # cfg file -> invariant TLC must report
    "Demo_Pipeline_BackupAfterOverrides.cfg": "P2_BackupBeforeOverrides",
    "Demo_Pipeline_KeepsOldMarks.cfg": "P3_MarksAreFinalClosure",
    "Demo_Pipeline_ProbeWrites.cfg": "P3_ProbeWritesNothing",
    "Demo_Pipeline_NsByLastColon.cfg": "P1_FinalIsOverlay",
    "Demo_Pipeline_AnalysisSkipped.cfg": "P3_MarksAreFinalClosure",
    "Demo_Pipeline_PathCollision.cfg": "P4_Injective",
    "Demo_Pipeline_PathDropsSlashslash.cfg": "P4_Injective",
}
QUICK_DEMOS = ["Demo_Pipeline_BackupAfterOverrides.cfg", "Demo_Pipeline_KeepsOldMarks.cfg"]


def par(jobs: dict, nthreads=10) -> dict:
    with ThreadPoolExecutor(nthreads) as ex:
        futs = {k: ex.submit(f) for k, f in jobs.items()}
        return {k: f.result() for k, f in futs.items()}


MAXV = 12


def extend(o: Outcome, tier: str, pid: str) -> None:
    """Add the pipeline engine's runs / evaluations / verdicts for property `pid` to `o`."""
    pid = pid.upper()
    if pid not in ("C11", "C12"):
        raise ValueError(pid)
    thorough = tier == "thorough"
    t0 = time.time()
    stats: dict = {"attached_to": pid}
    viol = {"n": 0}

    def violation(case, why, cls):
        viol["n"] += 1
        if viol["n"] <= MAXV:
            o.violation(case, why, cls=cls)

    def report(c12, c11, drift, case, kind):
        mine = c12 if pid == "C12" else c11
        for w in mine[:1]:
            violation({"kind": kind, "engine": "pipeline", **case}, w, cls=f"pipeline:{pid}:" + re.sub(r"[^A-Za-z ]+", "", w)[:50])
        other = c11 if pid == "C12" else c12
        for w in other[:1]:
            stats.setdefault("verdicts_for_the_other_property", 0)
            stats["verdicts_for_the_other_property"] += 1
        for w in drift:
            o.note_drift({"engine": "pipeline", "kind": kind, "what": w, **{k: case[k] for k in list(case)[:1]}})
            key = w.split(":")[0][:40]
            stats.setdefault("drift_classes", {})
            stats["drift_classes"][key] = stats["drift_classes"].get(key, 0) + 1

    # ---- V recording first (fork before any thread exists)
    sd = common.seed() * 7919 + 1112
    only_skip = pid == "C11"
    if thorough:
        vjobs = [("scn", sd + i, 40, only_skip, 1000 * i) for i in range(8)]
        vjobs += [("save", sd + 100 + i, 40, 100000 + 1000 * i) for i in range(3 if pid == "C12" else 0)]
    else:
        vjobs = [("scn", sd, 30, only_skip, 0)]
        vjobs += [("save", sd + 100, 15, 100000)] if pid == "C12" else []
    recs = pmap(record_chunk, vjobs, chunk=1)
    stats["t_record_s"] = round(time.time() - t0, 1)

    # ---- all TLC work in parallel
    jobs: dict = {}
    parts = [1, 3] if pid == "C11" else [0, 1, 2, 3]
    if thorough:
        gens = {"Gen3": dict(maxov=3, bases="BasesT", pj="PoolJ_Q", pd="PoolD_Q", dumps="DumpsT"),
                "Gen2": dict(maxov=2, bases="BasesT", pj="PoolJ_T", pd="PoolD_T", dumps="DumpsT")}
    else:
        gens = {"Gen2": dict(maxov=2, bases="BasesQ", pj="PoolJ_Q", pd="PoolD_Q", dumps="DumpsQ")}
    nparts = 4 if thorough else 2
    if not thorough:
        parts = [1] if pid == "C11" else [0, 1]   # 2 parts: part 1 = skip_extract_dump
    for gname, kw in gens.items():
        for p in parts:
            text = cfg("GSpec", "DevAsIs", parts=nparts, part=p, invs=INV_ASIS + ["GenInv"], **kw)
            jobs[f"{gname}[{p}]"] = (lambda text=text: tlc("Gen_Pipeline", "gen.cfg", cfg_text=text, workers=1, timeout=1500))
    mc = cfg("MCSpec", "DevIdeal", 2 if thorough else 1, "BasesT" if thorough else "BasesQ",
             "PoolJ_T" if thorough else "PoolJ_Q", "PoolD_T" if thorough else "PoolD_Q", "DumpsT" if thorough else "DumpsQ",
             invs=INV_ALL, props=["Terminates"])
    jobs["MC_ideal"] = lambda: tlc("MC_Pipeline", "mc.cfg", cfg_text=mc, workers=4 if thorough else 2, timeout=1500, coverage=not thorough)
    for d in (DEMOS if thorough else QUICK_DEMOS):
        if pid == "C11" and d != "Demo_Pipeline_BackupAfterOverrides.cfg":
            continue
        jobs[d] = (lambda d=d: tlc("MC_Pipeline", d, workers=1, check=False, timeout=600))
    if pid == "C12":
        sv = cfg("SGSpec", "DevAsIs", 0, "BasesQ", "PoolJ_Q", "PoolD_Q", "DumpsQ", titleu="TitlesAll" if thorough else "TitlesQ", maxpages=2, wins="WinBoth", invs=["SGenInv"])
        jobs["GenSave"] = lambda: tlc("Gen_Pipeline", "gs.cfg", cfg_text=sv, workers=1, timeout=900)
        ms = cfg("SSpec", "DevIdeal", 0, "BasesQ", "PoolJ_Q", "PoolD_Q", "DumpsQ", titleu="TitlesGood", maxpages=3 if thorough else 2, wins="WinBoth",
                 invs=["P4_Injective", "P4_ComesBack", "P4_NothingHidden"])
        if thorough:
            jobs["MC_save"] = lambda: tlc("MC_Pipeline", "ms.cfg", cfg_text=ms, workers=4, timeout=900)
    if 0 not in parts:
        tt = cfg("GSpec", "DevAsIs", 0, "BasesT" if thorough else "BasesQ", "PoolJ_Q", "PoolD_Q", "DumpsT" if thorough else "DumpsQ", parts=4, part=0, invs=["GenInv"])
        jobs["GenTables"] = lambda: tlc("Gen_Pipeline", "gen.cfg", cfg_text=tt, workers=1, timeout=600)
    for i, (doc, _info) in enumerate(recs):
        if doc["events"]:
            jobs[f"Trace[{i}]"] = (lambda doc=doc: validate(doc))
    res = par(jobs, nthreads=16 if thorough else 10)
    stats["t_tlc_done_s"] = round(time.time() - t0, 1)

    for name, r in res.items():
        o.add_tlc("pipeline:" + name, r[0] if name.startswith("Trace") else r)
    for d, inv in DEMOS.items():
        if d in res:
            found = inv in res[d].invariant_violated
            stats.setdefault("demo_counterexample_found_by_tlc", {})[d] = found
            if not found:
                raise common.TLCError(f"{d} no longer shows the counterexample to {inv} (vacuity guard)")
    if "MC_ideal" in res and not thorough:
        stats["action_coverage"] = {k: v[1] for k, v in res["MC_ideal"].coverage_actions().items()}

    # ---- G: the scenarios
    cases, tables = [], None
    for name in sorted(res):
        if name.startswith("Gen") and name != "GenSave":
            t = res[name].tagged("TABLES")
            if name == "GenTables" and not t:
                continue
            if t:
                tables = tables or {"bases": {}, "dumps": {}}
                tables["bases"].update(t[0]["bases"])
                tables["dumps"].update(t[0]["dumps"])
            if name != "GenTables":
                cases.extend(res[name].cases)
    if tables is None:
        raise common.TLCError("the generator printed no tables")
    _G["tables"] = tables
    results = pmap(run_g_chunk, list(enumerate(cases)))
    kinds: dict = {}
    ndev = 0
    for idx, c12, c11, drift, info, n in results:
        case = cases[idx]
        o.evaluations += n
        kinds[case["kind"]] = kinds.get(case["kind"], 0) + 1
        if case["hasOv"] and any(s["items"] for s in case["srcs"]):
            o.shape(("pipeline", common.json_key([case["b"], case["an"], case["d"], case["skip"], case["func"], case["srcs"]])))
        if any(i.startswith("deviation:") for i in info):
            ndev += 1
        if c12 or c11 or drift:
            report(c12, c11, drift, {"scenario": describe_case(case), "case": case}, "G")
    stats["scenarios"] = len(cases)
    stats["paths_of_analyze_and_overwrite_pages"] = kinds
    stats["cases_showing_" + DEV_MARKS] = ndev
    if pid == "C12" and set(kinds) != {"A:template", "B:no-template", "C:analyze", "C:nothing"}:
        raise common.TLCError(f"not all four paths of analyze_and_overwrite_pages are generated: {kinds}")
    if cases:
        c = cases[len(cases) // 2]
        o.sample({"pipeline_scenario": describe_case(c), "predicted_calls": c["path"], "predicted_final_rows": len(c["fin"])})

    stats["t_scenarios_done_s"] = round(time.time() - t0, 1)
    # ---- G: save / read back
    if "GenSave" in res:
        scases = res["GenSave"].tagged("SAVE")
        sres = pmap(run_save_chunk, list(enumerate(scases)))
        cnt = {"collision": 0, "not-read-back": 0, "mixed-directory": 0}
        for idx, drift, info, n in sres:
            o.evaluations += n
            c = scases[idx]
            o.shape(("save", common.json_key([c["pages"], c["win"]])))
            for i in info:
                if i in cnt:
                    cnt[i] += 1
            if c["good"] and not (c["injective"] and c["comesback"]):
                raise common.TLCError(f"P4 fails in the model on good titles: {c['pages']}")
            if drift:
                report([], [], drift, {"pages": [row_conc(r)[:3] for r in c["pages"]], "win": c["win"]}, "G-save")
        stats["save_cases"] = len(scases)
        stats["save_cases_with_modelled_shortcoming"] = cnt
        if scases:
            c = scases[len(scases) // 3]
            o.sample({"saved_pages": [row_conc(r)[:2] for r in c["pages"]], "windows": c["win"],
                      "predicted_paths": ["/".join(f["path"]) for f in c["tree"]]})

    # ---- V verdicts
    nev = 0
    for i, (doc, info) in enumerate(recs):
        if f"Trace[{i}]" not in res:
            continue
        _r, bad = res[f"Trace[{i}]"]
        nev += len(doc["events"])
        tids = {e["tid"] for e in doc["events"]}
        o.traces += len(tids)
        o.evaluations += len(doc["events"])
        for e in doc["events"]:
            if e["op"] == "reset":
                o.shape(("v", common.json_key([e["base"], e["srcs"], e["skip"], e["func"]])))
            elif e["op"] == "save":
                o.shape(("vs", common.json_key([e["pages"], e["win"]])))
        by_tid: dict = {}
        for b in bad:
            by_tid.setdefault(b["tid"], []).append(b)
        for tid, bs in by_tid.items():
            c12, c11, drift = [], [], []
            for b in bs:
                x, y, z = judge_trace_bad(b, info)
                c12 += x
                c11 += y
                drift += [w for w in z if w not in drift][: max(0, 2 - len(drift))]
            b = bs[0]
            ev = [e for e in doc["events"] if e["tid"] == tid]
            report(c12, c11, drift, {"tid": tid, "concrete": info.get(tid), "tables": doc["tables"], "events": ev,
                                     "mismatch": {k: b[k] for k in b if k not in ("preov",)}}, "V")
        for tid, inf in info.items():
            if isinstance(tid, int) and inf.get("exc"):
                report([], [], [f"exception {inf['exc']}"], {"tid": tid, "concrete": inf}, "V")
    stats["trace_events"] = nev
    stats["violating_cases"] = viol["n"]
    stats["wall_s"] = round(time.time() - t0, 1)
    o.extra.setdefault("pipeline", {})[pid] = stats
    o.rule = (o.rule + " | " if o.rule else "") + (
        "pipeline engine: G one case = (base store, analysed-before, dump, skip_extract_dump, classifier, override sources "
        "[<= MaxOv items over a .json file and a TITLE: directory, plus a missing path and a non-.json file]) enumerated by TLC, "
        "distinct by that tuple, non-trivial = at least one override item; save cases = sequences of <= 2 pages of the title "
        "universe x windows flag. V: random scenarios / saved trees, distinct by content.")
    for a in (
        "pipeline engine: override items inside one source address distinct pages (directory iteration order is unspecified)",
        "pipeline engine: a non-redirect override of a template has a body; titles carry no leading/trailing blanks, no '__' "
        "replacement tokens, file names stay below NAME_MAX (the sha256 renaming is not modelled)",
        "pipeline engine: the Windows-partition probe of save_pages_to_file is treated as environment (stubbed to both answers)",
    ):
        if a not in o.assumptions:
            o.assumptions.append(a)


# ---------------------------------------------------------------------------
# standalone
# ---------------------------------------------------------------------------
def _own_evidence_dir():
    """standalone runs never write into /verif/evidence"""
    d = Path(tempfile.mkdtemp(prefix="plev-"))
    atexit.register(shutil.rmtree, str(d), True)
    os.environ["VERIF_EVIDENCE_DIR"] = str(d)
    common.EVID = d
    common.REPLAYS = d / "replays"
    return d


def run(tier: str, pid: str = "C12") -> int:
    keep = os.environ.get("PIPELINE_KEEP_EVIDENCE")
    d = _own_evidence_dir()
    o = Outcome(pid, tier)
    extend(o, tier, pid)
    rc = o.finish()
    if keep:
        Path(keep).mkdir(parents=True, exist_ok=True)
        for f in d.rglob("*.json"):
            shutil.copy(f, Path(keep) / f.name)
    return rc


def replay(path: str) -> int:
    v = json.loads(Path(path).read_text())
    case = v["case"]
    print("why:", v["why"])
    common.use_repo()
    if case["kind"] == "G":
        c = case["case"]
        text = cfg("GSpec", "DevAsIs", 0, "BasesT", "PoolJ_Q", "PoolD_Q", "DumpsT", parts=4, part=0, invs=["GenInv"])
        _G["tables"] = tlc("Gen_Pipeline", "gen.cfg", cfg_text=text, workers=1).tagged("TABLES")[0]
        res = run_g_chunk([(0, c)])[0]
        print("scenario:", json.dumps(describe_case(c)))
        print("re-executed: C12:", res[1], "C11:", res[2], "drift:", res[3])
        return 1 if (res[1] if v["property"] == "C12" else res[2]) else 0
    if case["kind"] == "V":
        inf = case["concrete"]
        print("scenario:", json.dumps(inf.get("scenario"), default=str)[:3000])
        doc = {"tables": case["tables"], "events": case["events"]}
        _r, bad = validate(doc)
        print("recorded trace judged again by TLC:", json.dumps(bad)[:3000])
        return 1 if bad else 0
    print(json.dumps(case, default=str)[:3000])
    return 1


def selftest() -> int:
    """(1) V: a recorded run is accepted; with one recorded field corrupted (a body in the final
    store, a row dropped from the backup, a call renamed, a saved path) TLC rejects it.
    (2) G: a case whose predicted backup / final store is corrupted is flagged by the judge."""
    _own_evidence_dir()
    (doc, info), = record_job(("scn", 4242, 10, True, 0))
    (sdoc, sinfo), = record_job(("save", 4243, 6, 500))
    _r, bad0 = validate(doc)
    _r, sbad0 = validate(sdoc)
    rejected = []
    ends = [i for i, e in enumerate(doc["events"]) if e["op"] == "end" and e["bak"]["some"] and len(e["rows"]) > 5]
    k = ends[0]

    def mutated(mut):
        d2 = json.loads(json.dumps(doc))
        mut(d2["events"])
        return validate(d2)[1]

    j = next(i for i, r in enumerate(doc["events"][k]["rows"]) if r["body"] not in ("NULL",))
    for name, mut in (
        ("altered body in the final store", lambda ev: ev[k]["rows"][j].update(body="?corrupt")),
        ("row dropped from the backup", lambda ev: ev[k]["bak"]["rows"].pop(0)),
        ("need_pre_expand flipped", lambda ev: ev[k]["rows"][j].update(pre=not ev[k]["rows"][j]["pre"])),
        ("call renamed", lambda ev: next(e for e in ev if e["op"] == "call" and e["name"] == "backup").update(name="write")),
        ("call removed", lambda ev: ev.remove(next(e for e in ev if e["op"] == "call" and e["name"] == "backup"))),
    ):
        b = mutated(mut)
        rejected.append((name, len(b) - len(bad0)))
    s2 = json.loads(json.dumps(sdoc))
    s2["events"][0]["tree"][0]["path"][-1] += "x"
    sb = validate(s2)[1]
    rejected.append(("saved path altered", len(sb) - len(sbad0)))
    print(f"V: clean records: {len(bad0)} + {len(sbad0)} rejected; corrupted records, additional rejections: {rejected}")
    # G
    text = cfg("GSpec", "DevAsIs", 1, "BasesQ", "PoolJ_Q", "PoolD_Q", "DumpsQ", parts=2, part=1, invs=["GenInv"])
    r = tlc("Gen_Pipeline", "gen.cfg", cfg_text=text, workers=1)
    text0 = cfg("GSpec", "DevAsIs", 0, "BasesQ", "PoolJ_Q", "PoolD_Q", "DumpsQ", parts=4, part=0, invs=["GenInv"])
    _G["tables"] = tlc("Gen_Pipeline", "gen.cfg", cfg_text=text0, workers=1).tagged("TABLES")[0]
    cases = r.cases
    res = run_g_chunk(list(enumerate(cases)))
    clean = sum(1 for x in res if not (x[1] or x[2] or x[3]))
    c = json.loads(json.dumps(next(c for c in cases if c["bak"]["some"] and c["kind"] == "A:template")))
    c["pre"][0][3] = "b4"  # the store before the overrides is said to have held another text
    g1 = run_g_chunk([(0, c)])[0]
    c = json.loads(json.dumps(next(c for c in cases if c["kind"] == "B:no-template" and len(c["fin"]) > len(c["pre"]))))
    c["fin"].pop()  # an overridden page is said not to be in the final store
    g2 = run_g_chunk([(0, c)])[0]
    print(f"G: {clean}/{len(cases)} scenarios agree; corrupted 'store before overrides' -> C11: {bool(g1[2])}, C12: {bool(g1[1])}; "
          f"corrupted prediction for an overridden page -> DRIFT: {bool(g2[3])}, C12: {bool(g2[1])}")
    ok = (not bad0 and not sbad0 and all(n > 0 for _, n in rejected) and clean == len(cases) and g1[2] and g1[1] and g2[3] and not g2[1])
    return 0 if ok else 1


if __name__ == "__main__":
    import sys

    a = sys.argv[1:] or ["quick"]
    if a[0] == "--selftest":
        sys.exit(selftest())
    if a[0] == "--replay":
        sys.exit(replay(a[1]))
    sys.exit(run(a[0], a[1] if len(a) > 1 else "C12"))
