"""Offline Lua fixture: the Scribunto submodule (ustring, libraryUtil) is absent in this
sandbox, so every #invoke would fail while loading mw.lua.  lua_loader consults the page
store first; these pure-Lua stand-ins installed as Module pages make the sandbox work.
They are part of the trusted base of the Lua-related checks."""

USTRING = r"""
local u = {}
for k, v in pairs(string) do u[k] = v end
u.len = function(s) return string.len(s) end
u.upper = string.upper
u.lower = string.lower
u.codepoint = string.byte
u.char = string.char
u.toNFC = function(s) return s end
u.toNFD = function(s) return s end
u.toNFKC = function(s) return s end
u.toNFKD = function(s) return s end
u.isutf8 = function(s) return true end
u.gcodepoint = function(s) local i = 0 return function() i = i + 1 if i <= #s then return string.byte(s, i) end end end
u.maxPatternLength = 10000
u.maxStringLength = 2000000
return u
"""

LIBRARYUTIL = r"""
local libraryUtil = {}
function libraryUtil.checkType(name, argIdx, arg, expectType, nilOk)
  if arg == nil and nilOk then return end
  if type(arg) ~= expectType then
    error(string.format("bad argument #%d to '%s' (%s expected, got %s)", argIdx, name, expectType, type(arg)), 3)
  end
end
function libraryUtil.checkTypeMulti(name, argIdx, arg, expectTypes)
  local argType = type(arg)
  for _, expectType in ipairs(expectTypes) do
    if argType == expectType then return end
  end
  error(string.format("bad argument #%d to '%s'", argIdx, name), 3)
end
function libraryUtil.checkTypeForIndex(index, value, expectType)
  if type(value) ~= expectType then error("value for index '" .. tostring(index) .. "' must be " .. expectType, 3) end
end
function libraryUtil.checkTypeForNamedArg(name, argName, arg, expectType, nilOk)
  if arg == nil and nilOk then return end
  if type(arg) ~= expectType then error("bad named argument " .. argName .. " to '" .. name .. "'", 3) end
end
function libraryUtil.makeCheckSelfFunction(libraryName, varName, selfObj, selfObjDesc)
  return function(self, method) end
end
return libraryUtil
"""


def install(ctx) -> None:
    ctx.add_page("Module:ustring:ustring", 828, body=USTRING, model="Scribunto")
    ctx.add_page("Module:libraryUtil", 828, body=LIBRARYUTIL, model="Scribunto")


def add_module(ctx, name: str, source: str) -> None:
    ctx.add_page("Module:" + name, 828, body=source, model="Scribunto")
