"""Trace source for the code -> spec direction (V): the repository's own test-suite.

The V drivers of the checks are random generators.  This engine runs the tests of the repository
(${VERIF_REPO:-/repo}/tests/test_*.py when that tree has tests, else /repo/tests; always with
${VERIF_REPO:-/repo}/src first on sys.path) under pytest in worker processes with the recorder plugin
harness/suiteplug.py, which writes one NDJSON event per public call of a Wtp context, and has TLC
validate what was recorded against the existing trace specifications:

  C01  every distinct text handed to parse() in the suite -> the real parser, three modes (c01.check_batch:
       no exception, clean parser state, tree judged by Trace_WikiTree / WellFormed); the trees the tests
       themselves obtained (with their own templates, Lua modules, options) are dumped by the recorder
       and judged by the same TLC operator
  C16  per context, the calls start_page / expand / parse / message methods / start_section with
       len(expand_stack) and the list lengths at entry and return and the stamps of the messages a call
       appended -> spec/Trace_SuiteStack.tla (the text-independent part of Session.tla)
  C10  per context, the add_page / get_page / page_exists / get_page_resolve_redirect / get_page_body
       history -> spec/Trace_PageStore.tla (titles tokenised as in harness/c10.py)
  C19  every distinct text handed to parse() -> parse -> node_to_wikitext -> parse -> ... judged by
       spec/Trace_Unparse.tla (c19.judge_texts); VIOLATION only when the document lies in the fragment
       the statement covers (see in_fragment), DRIFT otherwise

A failing test assertion is never a verdict: only the recorded calls matter (the ~266 Lua tests run
with the offline stand-ins and many of their assertions fail).

extend(o, tier, pid) adds the engine's work to the Outcome of check `pid`; replay(case) re-runs a
reported case.  Nothing is cached between runs; inside one run the recording is shared by the stages.
"""
from __future__ import annotations

import hashlib
import json
import os
import re
import subprocess
import sys
import time
from concurrent.futures import ThreadPoolExecutor
from pathlib import Path
from urllib.parse import quote_plus

import common
from common import Outcome, Scratch, tlc

HARNESS = Path(__file__).resolve().parent
PY = sys.executable
FILES = ["test_parser.py", "test_node_expand.py", "test_wikiprocess.py", "test_lua.py", "test_parserfns.py", "test_dumpparser.py"]
# (file, number of shards) - test_wikiprocess.py is by far the longest
THOROUGH_PLAN = {"test_wikiprocess.py": 14, "test_parser.py": 4, "test_node_expand.py": 1, "test_lua.py": 2,
                 "test_parserfns.py": 1, "test_dumpparser.py": 1}
# quick tier: a subset per check, sized to stay within ~15 s on a loaded machine
#   file -> (number of shards the file is cut into, the shards that are run)
QUICK_PLAN = {
    "C01": {"test_parser.py": (4, [0, 1, 2, 3]), "test_node_expand.py": (1, [0])},
    "C19": {"test_parser.py": (4, [0, 1, 2, 3]), "test_node_expand.py": (1, [0])},
    "C16": {"test_wikiprocess.py": (24, [0, 5, 11, 17])},
    "C10": {"test_wikiprocess.py": (24, [0, 5, 11, 17]), "test_node_expand.py": (1, [0])},
}
KINDS5 = ["errors", "warnings", "debugs", "notes", "wiki_notices"]


def tests_dir() -> Path:
    """The tests come from the same tree as the source when that tree has them (VERIF_REPO copies made by
    tools/mutant.sh hold src only: then /repo/tests)."""
    t = common.REPO / "tests"
    if t.is_dir() and any(t.glob("test_*.py")):
        return t
    return Path("/repo/tests")


# ---------------------------------------------------------------------------
# recording
# ---------------------------------------------------------------------------

class Recording:
    def __init__(self):
        self.events: list = []      # event records, each with "sh" (shard number)
        self.tests: dict = {}       # test id -> {"ok", "exc", "msg"}
        self.trees: list = []       # {"sh","c","n","h","dump"}
        self.treerefs: list = []
        self.ns: dict = {}          # lang_code -> {"data","local"}
        self.notes: dict = {}       # reason -> count (recorder-side skips / failures)
        self.shards = 0
        self.wall = 0.0
        self.files: list = []
        self.pytest_summaries: list = []

    def contexts(self):
        """{(shard, cid): [events in order]}"""
        by = {}
        for e in self.events:
            by.setdefault((e["sh"], e["c"]), []).append(e)
        for v in by.values():
            v.sort(key=lambda e: e["n"])
        return by


def _run_shard(args):
    k, d, tdir, fname, i, n, want_trees, timeout = args
    out = d / f"s{k}.ndjson"
    tmp = d / f"tmp{k}"
    tmp.mkdir()
    env = dict(os.environ)
    env.update({
        "PYTHONPATH": f"{common.REPO / 'src'}{os.pathsep}{HARNESS}",
        "PYTHONDONTWRITEBYTECODE": "1", "PYTHONHASHSEED": "0",
        "SUITETRACE_OUT": str(out), "SUITETRACE_SHARD": f"{i}/{n}", "SUITETRACE_TREES": "1" if want_trees else "0",
        "TMPDIR": str(tmp), "VERIF_REPO": str(common.REPO),
    })
    cmd = [PY, "-m", "pytest", "-q", "-x" if False else "-q", "-p", "suiteplug", "-p", "no:cacheprovider", "-p", "no:randomly",
           f"--timeout={timeout}", "--no-header", "-o", "addopts=", "--rootdir", str(tdir.parent), "-c", os.devnull,
           str(Path("tests") / fname)]
    t0 = time.time()
    try:
        p = subprocess.run(cmd, cwd=str(tdir.parent), env=env, capture_output=True, text=True, timeout=timeout * 6 + 120)
        tail = (p.stdout.strip().splitlines() or [""])[-1]
        rc = p.returncode
    except subprocess.TimeoutExpired:
        tail, rc = "TIMEOUT of the shard", -9
    return k, out, rc, tail, time.time() - t0


def record(plan: dict, want_trees: bool = True, per_test_timeout: int = 120, only: list | None = None) -> tuple:
    """plan: file -> (nshards, [shards to run]).  Returns (Recording, scratch) ; the caller parses inside the
    scratch context.  `only`: test ids (replay) - overrides the plan."""
    raise NotImplementedError


def run_recording(plan: dict, want_trees: bool = True, per_test_timeout: int = 120) -> Recording:
    tdir = tests_dir()
    rec = Recording()
    t0 = time.time()
    with Scratch("suite-") as d:
        jobs = []
        for fname, (n, which) in plan.items():
            if not (tdir / fname).exists():
                rec.notes[f"test file absent: {fname}"] = 1
                continue
            rec.files.append(fname)
            for i in which:
                jobs.append((len(jobs), d, tdir, fname, i, n, want_trees, per_test_timeout))
        # longest first
        jobs.sort(key=lambda j: 0 if j[3] == "test_wikiprocess.py" else 1)
        with ThreadPoolExecutor(min(16, max(1, len(jobs)))) as ex:
            results = list(ex.map(_run_shard, jobs))
        src = str(common.REPO / "src")
        for k, out, rc, tail, wall in results:
            rec.shards += 1
            rec.pytest_summaries.append(tail[:120])
            if rc not in (0, 1):
                # 0 = all passed, 1 = some tests failed (irrelevant); anything else: the recording is incomplete
                if rc == 5:      # no tests collected in this shard
                    continue
                raise common.TLCError(f"suite recording shard {k} ended with pytest exit status {rc}: {tail}")
            if not out.exists():
                raise common.TLCError(f"suite recording shard {k} wrote no events: {tail}")
            _load(rec, out, k, src)
    rec.wall = time.time() - t0
    return rec


def _load(rec: Recording, path: Path, sh: int, src: str) -> None:
    with open(path) as f:
        for line in f:
            try:
                r = json.loads(line)
            except ValueError:
                rec.notes["unreadable record"] = rec.notes.get("unreadable record", 0) + 1
                continue
            k = r.get("k")
            if k == "ev":
                r["sh"] = sh
                rec.events.append(r)
            elif k == "tree":
                r["sh"] = sh
                rec.trees.append(r)
            elif k == "treeref":
                r["sh"] = sh
                rec.treerefs.append(r)
            elif k == "test":
                rec.tests[r["t"]] = r
            elif k == "ns":
                rec.ns.setdefault(r["lang_code"], r)
            elif k == "hdr":
                if not str(r.get("file", "")).startswith(src):
                    raise common.TLCError(f"the suite imported wikitextprocessor from {r.get('file')} instead of {src}")
                if r.get("absent"):
                    rec.notes["public methods absent from Wtp: " + ",".join(r["absent"])] = 1
            elif k in ("treeskip", "recfail"):
                key = f"{k}: {r.get('why', '')[:80]}"
                rec.notes[key] = rec.notes.get(key, 0) + 1
