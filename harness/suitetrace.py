"""Trace source for the code -> spec direction (V): the repository's own test-suite.

The V drivers of the checks are random generators.  This engine runs the tests of the repository
(${VERIF_REPO:-/repo}/tests/test_*.py when that tree has tests, else /repo/tests; always with
${VERIF_REPO:-/repo}/src first on sys.path) under pytest in worker processes with the recorder plugin
harness/suiteplug.py, which writes one NDJSON event per public call of a Wtp context, and has TLC
validate what was recorded against the trace specifications:

  C01  every distinct text handed to parse() in the suite -> the real parser, three modes (c01.check_batch:
       no exception, clean parser state, tree judged by Trace_WikiTree / WellFormed); the trees the tests
       themselves obtained (with their own templates, Lua modules, options) are dumped by the recorder
       and judged by the same TLC operator
  C16  per context, the calls start_page / expand / parse / message methods / start_section with
       len(expand_stack) and the list lengths at entry and return and the stamps of the messages a call
       appended -> spec/Trace_SuiteStack.tla (the text-independent part of Session.tla)
  C10  per context, the add_page / get_page / page_exists / get_page_resolve_redirect / get_page_body
       history -> spec/Trace_PageStore.tla (titles tokenised into the atoms of PageStore.tla)
  C19  every distinct text handed to parse() -> parse -> node_to_wikitext -> parse -> ... judged by
       spec/Trace_Unparse.tla (c19.judge_texts); VIOLATION only when the document lies in the fragment
       the statement covers (in_fragment), DRIFT otherwise

A failing test assertion is never a verdict: only the recorded calls matter (the ~266 Lua tests run
with the offline stand-ins and some of their assertions fail).

extend(o, tier, pid) adds the engine's work to the Outcome of check `pid`; replay(case) re-runs a
reported case.  Nothing is cached between runs; inside one run the recording is shared by the stages.
"""
from __future__ import annotations

import copy
import json
import os
import subprocess
import sys
import time
from concurrent.futures import ThreadPoolExecutor
from pathlib import Path
from urllib.parse import quote_plus

import common
from common import Outcome, Scratch, pmap, tlc

HARNESS = Path(__file__).resolve().parent
PY = sys.executable
# thorough tier: the whole suite; file -> number of shards (test_wikiprocess.py is by far the longest)
THOROUGH_PLAN = {"test_wikiprocess.py": 14, "test_parser.py": 4, "test_node_expand.py": 1, "test_lua.py": 2,
                 "test_parserfns.py": 1, "test_dumpparser.py": 1}
# quick tier: a subset per check, sized so that the engine adds <= ~15 s on a loaded 16-core machine
#   file -> (number of shards the file is cut into, the shards that are run)
QUICK_PLAN = {
    "C01": {"test_parser.py": (4, [0, 1, 2, 3]), "test_node_expand.py": (1, [0])},
    "C19": {"test_parser.py": (4, [0, 1, 2, 3]), "test_node_expand.py": (1, [0])},
    # every fourth test of the long file, in five worker processes
    "C16": {"test_wikiprocess.py": (20, [2, 6, 10, 14, 18]), "test_node_expand.py": (1, [0])},
    "C10": {"test_wikiprocess.py": (20, [2, 6, 10, 14, 18]), "test_node_expand.py": (1, [0])},
}
NONE = "<None>"
NONS = 9999


def plan_for(tier: str, pid: str) -> dict:
    if tier == "thorough":
        return {f: (n, list(range(n))) for f, n in THOROUGH_PLAN.items()}
    return QUICK_PLAN[pid]


def tests_dir() -> Path:
    """The tests come from the same tree as the source when that tree has them (the VERIF_REPO copies made
    by tools/mutant.sh hold src only: then /repo/tests)."""
    t = common.REPO / "tests"
    if t.is_dir() and any(t.glob("test_*.py")):
        return t
    return Path("/repo/tests")


# ---------------------------------------------------------------------------
# recording
# ---------------------------------------------------------------------------

class Recording:
    def __init__(self):
        self.events: list = []      # event records, each with "sh" (shard number)
        self.tests: dict = {}       # test id -> {"ok", "exc", "msg"}
        self.trees: list = []       # {"sh", "c", "n", "h", "klen", "dump"}
        self.treerefs: list = []
        self.ns: dict = {}          # lang_code -> {"data", "local"}
        self.notes: dict = {}       # recorder-side skips / failures: reason -> count
        self.shards = 0
        self.wall = 0.0
        self.files: list = []
        self.tests_from = ""
        self.incomplete = 0         # shards that did not run to the end

    def contexts(self) -> dict:
        """{(shard, cid): [events in call-return order]}"""
        by: dict = {}
        for e in self.events:
            by.setdefault((e["sh"], e["c"]), []).append(e)
        for v in by.values():
            v.sort(key=lambda e: e["n"])
        return by

    def summary(self) -> dict:
        return {"tests_from": self.tests_from, "files": self.files, "shards": self.shards, "tests_run": len(self.tests),
                "tests_passed": sum(1 for t in self.tests.values() if t["ok"]),
                "events_recorded": len(self.events), "contexts": len({(e["sh"], e["c"]) for e in self.events}),
                "recording_wall_s": round(self.wall, 1), "recorder_notes": self.notes}


def _run_shard(job):
    k, d, tdir, fname, i, n, want_trees, timeout, only = job
    out = d / f"s{k}.ndjson"
    tmp = d / f"tmp{k}"
    tmp.mkdir()
    env = dict(os.environ)
    env.update({
        "PYTHONPATH": f"{common.REPO / 'src'}{os.pathsep}{HARNESS}",
        "PYTHONDONTWRITEBYTECODE": "1", "PYTHONHASHSEED": "0",
        "SUITETRACE_OUT": str(out), "SUITETRACE_SHARD": f"{i}/{n}" if not only else "",
        "SUITETRACE_TREES": "1" if want_trees else "0", "SUITETRACE_LUA": "1",
        "TMPDIR": str(tmp), "VERIF_REPO": str(common.REPO),
    })
    targets = [str(Path("tests") / fname)] if not only else only
    cmd = [PY, "-m", "pytest", "-q", "-q", "-p", "suiteplug", "-p", "no:cacheprovider", f"--timeout={timeout}",
           "--rootdir", str(tdir.parent), "-c", os.devnull] + targets
    try:
        p = subprocess.run(cmd, cwd=str(tdir.parent), env=env, capture_output=True, text=True, timeout=timeout * 6 + 120)
        lines = (p.stdout + p.stderr).strip().splitlines()
        tail = lines[-1] if lines else ""
        rc = p.returncode
    except subprocess.TimeoutExpired:
        tail, rc = "shard timed out", -9
    return k, out, rc, tail


_CACHE: dict = {}     # recordings of THIS run (process); never written anywhere


def run_recording(plan: dict, want_trees: bool = True, per_test_timeout: int = 120, only: list | None = None) -> Recording:
    key = common.json_key([plan, want_trees, only])
    if key in _CACHE:
        return _CACHE[key]
    tdir = tests_dir()
    rec = Recording()
    rec.tests_from = str(tdir)
    t0 = time.time()
    with Scratch("suite-") as d:
        jobs = []
        if only:
            jobs.append((0, d, tdir, "", 0, 1, want_trees, per_test_timeout, only))
        else:
            for fname, (n, which) in plan.items():
                if not (tdir / fname).exists():
                    rec.notes[f"test file absent: {fname}"] = 1
                    continue
                rec.files.append(fname)
                for i in which:
                    jobs.append((len(jobs), d, tdir, fname, i, n, want_trees, per_test_timeout, None))
        jobs.sort(key=lambda j: 0 if j[3] == "test_wikiprocess.py" else 1)     # longest first
        with ThreadPoolExecutor(min(16, max(1, len(jobs)))) as ex:
            results = list(ex.map(_run_shard, jobs))
        src = str(common.REPO / "src")
        for k, out, rc, tail in results:
            rec.shards += 1
            if rc == 5:          # no test collected in this shard
                continue
            if rc not in (0, 1):
                # 0 = all passed, 1 = some tests failed (irrelevant here); anything else (interrupted, internal error,
                # timeout): what the shard recorded before is still a valid trace prefix; the gap is reported
                rec.notes[f"shard {k} ended with pytest exit status {rc} (recording incomplete): {tail[:120]}"] = 1
                rec.incomplete += 1
            if not out.exists():
                continue
            _load(rec, out, k, src)
    rec.wall = time.time() - t0
    if not rec.events:
        raise common.TLCError("the suite recording is empty")
    _CACHE[key] = rec
    return rec


def _load(rec: Recording, path: Path, sh: int, src: str) -> None:
    with open(path) as f:
        for line in f:
            try:
                r = json.loads(line)
            except ValueError:
                rec.notes["unreadable record"] = rec.notes.get("unreadable record", 0) + 1
                continue
            k = r.get("k")
            if k == "ev":
                r["sh"] = sh
                rec.events.append(r)
            elif k == "tree":
                r["sh"] = sh
                rec.trees.append(r)
            elif k == "treeref":
                r["sh"] = sh
                rec.treerefs.append(r)
            elif k == "test":
                rec.tests[r["t"]] = r
            elif k == "ns":
                rec.ns.setdefault(r["lang_code"], r)
            elif k == "hdr":
                if not str(r.get("file", "")).startswith(src):
                    raise common.TLCError(f"the suite imported wikitextprocessor from {r.get('file')} instead of {src}")
                if r.get("absent"):
                    rec.notes["public methods absent from Wtp: " + ",".join(r["absent"])] = 1
            elif k in ("treeskip", "recfail"):
                key = f"{k}: {str(r.get('why', ''))[:80]}"
                rec.notes[key] = rec.notes.get(key, 0) + 1


def _skip(sk: dict, why: str, n: int = 1) -> None:
    sk[why] = sk.get(why, 0) + n


def text_of(e):
    t = e["a"].get("text") if isinstance(e.get("a"), dict) else None
    return t.get("s") if isinstance(t, dict) else None


def parse_texts(rec: Recording, sk: dict):
    """Distinct texts handed to parse() (top-level or nested), in first-seen order -> [(text, first event)]."""
    seen, out = set(), []
    for e in rec.events:
        if e["op"] != "parse":
            continue
        t = text_of(e)
        if t is None:
            _skip(sk, "parse text not recorded (longer than the cap or not a string)")
            continue
        if t in seen:
            continue
        seen.add(t)
        if any(0x10203D <= ord(ch) <= 0x10FFF0 for ch in t):
            _skip(sk, "text contains characters of the reserved private-use range (documented assumption)")
            continue
        out.append((t, e))
    return out


# ---------------------------------------------------------------------------
# C01
# ---------------------------------------------------------------------------

def stage_c01(o: Outcome, rec: Recording, info: dict) -> None:
    import c01
    import parsetree as pt

    sk = info.setdefault("skipped", {})
    texts = parse_texts(rec, sk)
    # (the check's own parsing context has no Lua: a text that invokes a module is judged on the tree the test
    #  itself obtained, see (A))
    docs = [t for t, _ in texts if "#invoke" not in t.lower()]
    if len(docs) < len(texts):
        _skip(sk, "text invokes a Lua module: not parsed alone (no Lua in that context), judged on the recorded tree", len(texts) - len(docs))
    # (replay files keep 3000 characters of a text: the three real pages of tests/*.txt are judged on the recorded
    #  tree, whose replay re-runs the test; the check's own V direction parses these pages as well)
    n = len(docs)
    docs = [t for t in docs if len(t) <= 3000]
    if len(docs) < n:
        _skip(sk, "text longer than a replay file keeps: not parsed alone, judged on the recorded tree", n - len(docs))
    info["distinct_parse_texts"] = len(docs)
    # (B) every distinct text through the real parser alone (fresh context, started page, three modes):
    #     exceptions, parser state, trees judged by TLC - the machinery of the check itself
    c01.check_batch(o, docs, "suite")
    # a parse() that raised inside the suite although the test did not expect it: the text was just re-run
    # alone by check_batch (a raise there is reported as a violation of class exception:*); here only the
    # book-keeping of what happened inside the suite
    raised = [e for e in rec.events if e["op"] == "parse" and e.get("exc")]
    escaped = [e for e in raised if not rec.tests.get(e["t"], {}).get("ok", True) and rec.tests[e["t"]].get("exc") == e["exc"]]
    info["parse_raised_in_suite"] = {"total": len(raised), "escaped_the_test": len(escaped)}
    reported = {v["case"].get("text") for v in o.violations if str(v.get("cls", "")).startswith("exception:")}
    for e in escaped:
        t = text_of(e)
        if t is not None and t not in reported:
            o.note_drift({"suite": "parse() raised inside the test but not when the text is parsed alone on a started page",
                          "test": e["t"], "exception": e["exc"], "text": t[:300]})
    # (A) the trees the tests themselves obtained, dumped by the recorder
    by_key = {(e["sh"], e["c"], e["n"]): e for e in rec.events if e["op"] == "parse"}
    entries, meta = [], []
    seen = set()
    for tr in rec.trees:
        if tr["h"] in seen:
            continue
        seen.add(tr["h"])
        dump = tr["dump"]
        ev = by_key.get((tr["sh"], tr["c"], tr["n"]), {})
        if tr["klen"] <= c01.SLICE_LIMIT and c01.depth_of(dump) <= c01.DEPTH_LIMIT:
            entries.append(("NONE", json.dumps(dump, separators=(",", ":"))))
            meta.append(ev)
            if len(pt.kinds_in(dump)) >= 2:
                o.shape("suiteW" + tr["h"])
        else:
            seen_sl = set()
            for pk, sl in c01.slices(dump):
                k2 = pk + "/" + pt.shape_key(sl)
                if k2 in seen_sl:
                    continue
                seen_sl.add(k2)
                entries.append((pk, json.dumps(sl, separators=(",", ":"))))
                meta.append(ev)
    bad = c01.validate_parallel(o, entries, "Trace_WikiTree[trees recorded in the suite]")
    info["recorded_trees_validated"] = {"distinct_shapes": len(seen), "entries_incl_slices": len(entries), "ill_formed": len(bad)}
    o.evaluations += len(rec.trees) + len(rec.treerefs)
    o.traces += len(seen)
    for j, faults in bad.items():
        ev = meta[j]
        faults = sorted(faults)
        case = {"kind": "recorded-tree", "origin": "suite-recorded", "test": ev.get("t"), "text": (text_of(ev) or "")[:3000],
                "options": {k: ev.get("a", {}).get(k) for k in ("pre_expand", "expand_all", "kw")}, "faults": faults,
                "tree": entries[j][1][:1500]}
        why = f"tree returned by parse() inside {ev.get('t')} is not well-formed: {', '.join(faults)}"
        devs = sorted({c01.FAULT_DEVIATION[f] for f in faults}) if all(f in c01.FAULT_DEVIATION for f in faults) else []
        o.classify(case, why, devs, cls="suite-wf:" + ",".join(faults))
    # parser state after every top-level parse() of the suite that returned
    nflag = 0
    for e in rec.events:
        if e["op"] != "parse" or e["nested"] or e.get("exc"):
            continue
        flags = e["r"].get("flags")
        if not isinstance(flags, dict) or flags.get("stack", -1) < 0:
            _skip(sk, "parser state not observable")
            continue
        nflag += 1
        if flags != pt.CLEAN_FLAGS:
            case = {"kind": "recorded-flags", "origin": "suite-recorded", "test": e["t"], "text": (text_of(e) or "")[:3000], "flags": flags}
            only_pre = {k: v for k, v in flags.items() if v != pt.CLEAN_FLAGS[k]} == {"pre_parse": True}
            why = f"parser state left behind after parse() inside {e['t']}: {flags}"
            if only_pre:
                o.classify(case, why, [c01.DEV_PRE], cls="suite-pre_parse-left-set")
            else:
                o.violation(case, why, cls="suite-state-left-behind")
    info["top_level_parses_with_state_checked"] = nflag
    o.evaluations += nflag


# ---------------------------------------------------------------------------
# C16
# ---------------------------------------------------------------------------
STACK_OPS = {"__init__": "init", "start_page": "start_page", "start_section": "start_section", "start_subsection": "start_subsection",
             "expand": "expand", "parse": "parse", "to_return": "to_return", "error": "error", "warning": "warning",
             "debug": "debug", "note": "note", "wiki_notice": "wiki_notice"}
STACK_VIOL = ("path_restored", "lists_emptied", "msg_keys", "msg_title", "msg_section")
STACK_WHY = {
    "path_restored": "expand()/parse() returned but the expansion path is not what it was before the call",
    "lists_emptied": "a message list is not empty right after start_page",
    "msg_keys": "a recorded message lacks the documented keys (msg, trace, title, section, subsection, called_from, path as a tuple)",
    "msg_title": "a recorded message is not stamped with the current page title",
    "msg_section": "a recorded message is not stamped with the current section",
}
STACK_CFG = "SPECIFICATION Spec\nINVARIANT Verdict\nPOSTCONDITION Accepted\nCHECK_DEADLOCK FALSE\n"


def stack_events(rec: Recording, sk: dict):
    """Events of the alphabet of Trace_SuiteStack, context by context; -> (events for TLC, the recorded events)."""
    out, src = [], []
    for tid, ((sh, cid), evs) in enumerate(sorted(rec.contexts().items())):
        if not any(e["op"] == "__init__" for e in evs):
            _skip(sk, "context without a recorded __init__")
            continue
        evs = sorted(evs, key=lambda e: (e["op"] != "__init__", e["n"]))
        if any(set(e.get("pat", [])) & set(STACK_OPS) for e in evs):
            _skip(sk, "the test replaces a recorded method of Wtp (mock)")
            continue
        if any(min(e["es0"], e["es"], *e["m0"], *e["m"]) < 0 for e in evs):
            _skip(sk, "expand_stack / message lists not observable on this context")
            continue
        for e in evs:
            op = STACK_OPS.get(e["op"])
            if op is None:
                continue
            if e["nested"] and op not in ("expand", "parse"):
                continue          # nested message methods / start_* are part of the enclosing call
            out.append({"cid": tid, "op": op, "nested": bool(e["nested"]), "exc": e.get("exc") or "", "es0": e["es0"], "es": e["es"],
                        "m0": e["m0"], "m": e["m"], "st0": e["st0"], "st": e["st"], "title": e["title"], "section": e["section"],
                        "nm": e.get("nm", [])})
            src.append(e)
    return out, src


def validate_stack(events, timeout=1200):
    with Scratch("suite-t-") as d:
        tf = d / "trace.json"
        tf.write_text(json.dumps({"events": events}))
        r = tlc("Trace_SuiteStack", "trace.cfg", cfg_text=STACK_CFG, workers=1, env={"TRACE_FILE": str(tf)}, timeout=timeout)
    v = r.tagged("VERDICT")
    if not v or v[0]["consumed"] != len(events):
        raise common.TLCError("Trace_SuiteStack did not consume its trace")
    return r, v[0]["bad"]


def brief_event(e):
    t = text_of(e)
    d = {"op": e["op"], "nested": e["nested"], "exc": e.get("exc"), "stack_before": e["es0"], "stack_after": e["es"],
         "lists_before": e["m0"], "lists_after": e["m"], "title": e["title"], "section": e["section"]}
    if t is not None:
        d["text"] = t[:1500]
    if "kw" in e.get("a", {}):
        d["options"] = e["a"]["kw"] + [k for k in ("pre_expand", "expand_all") if e["a"].get(k)]
    if e.get("nm"):
        d["new_messages"] = e["nm"][:3]
    return d


def judge_stack(o: Outcome, events, src, bad, info: dict) -> None:
    seen_drift = set()
    for b in bad:
        e = src[b["i"] - 1]
        clauses = sorted(b["clauses"])
        viol = [c for c in clauses if c in STACK_VIOL]
        # the events of this context up to the failing one (for the report)
        hist = [x["op"] for x in src[: b["i"]] if (x["sh"], x["c"]) == (e["sh"], e["c"]) and not x["nested"]][-8:]
        case = {"kind": "stack", "test": e["t"], "event": brief_event(e), "clauses": clauses, "calls_before": hist,
                "model_state": b.get("model")}
        if viol:
            o.violation(case, f"inside {e['t']}, after {e['op']}(): " + "; ".join(STACK_WHY[c] for c in viol) + f" [clauses: {', '.join(clauses)}]",
                        cls="suite-" + viol[0])
        else:
            key = (tuple(clauses), e["op"])
            info.setdefault("drift_clauses", {})
            for c in clauses:
                info["drift_clauses"][c] = info["drift_clauses"].get(c, 0) + 1
            if key not in seen_drift:
                seen_drift.add(key)
                o.note_drift({"suite": "Trace_SuiteStack", "clauses": clauses, "case": case})


def stage_c16(o: Outcome, rec: Recording, info: dict) -> None:
    sk = info.setdefault("skipped", {})
    events, src = stack_events(rec, sk)
    if not events:
        o.note_drift({"suite": "no context of the suite could be encoded for Trace_SuiteStack", "skipped": sk})
        return
    r, bad = validate_stack(events)
    o.add_tlc("Trace_SuiteStack[suite]", r)
    top = [e for e in src if not e["nested"]]
    info["contexts_validated"] = len({e["cid"] for e in events})
    info["events_validated"] = len(events)
    info["top_level_calls"] = {op: sum(1 for e in top if e["op"] == op) for op in sorted({e["op"] for e in top})}
    info["nested_expand_parse_calls"] = sum(1 for e in src if e["nested"])
    info["calls_that_raised"] = sum(1 for e in src if e.get("exc"))
    info["messages_with_stamps_checked"] = sum(len(e["nm"]) for e in events if not e["nested"] and e["st"] == e["st0"])
    o.traces += info["contexts_validated"]
    o.evaluations += len(events)
    for e in top:
        if e["op"] in ("expand", "parse") and text_of(e) is not None:
            o.shape(("suite", e["op"], common.json_key(e["a"].get("kw")), hash(text_of(e))))
    judge_stack(o, events, src, bad, info)
    ex = next((e for e in top if e["op"] == "expand"), None)
    if ex:
        o.sample({"suite_event": brief_event(ex), "test": ex["t"]})


# ---------------------------------------------------------------------------
# C10
# ---------------------------------------------------------------------------
STORE_OPS = ("add_page", "get_page", "page_exists", "get_page_resolve_redirect", "get_page_body")
STORE_CFG = "SPECIFICATION TSpec\nINVARIANT Verdict\nINVARIANT Coherent\nPOSTCONDITION Accepted\nCHECK_DEADLOCK FALSE\n"


class Odd(Exception):
    """A title / argument outside what the atom abstraction of PageStore.tla can express."""


class StoreUniverse:
    """Atom tables of spec/PageStore.tla for the namespaces of a real context (taken from the recording:
    NAMESPACE_DATA / LOCAL_NS_NAME_BY_ID of the contexts the tests created)."""

    def __init__(self, nsrec: dict):
        self.low: dict = {}        # lower-cased prefix incl. ':' -> namespace id (None = ambiguous)
        for key, v in nsrec["data"].items():
            names = [v["name"]] + list(v.get("aliases", [])) + ([key] if key != v["name"] else [])
            for nm in names:
                p = nm.lower() + ":"
                self.low[p] = v["id"] if self.low.get(p, v["id"]) == v["id"] else None
        self.canon = {str(i): n + ":" for i, n in nsrec["local"].items() if int(i) != 0}
        self.pfxns: dict = {}
        self.upper: dict = {}

    def known_ns(self, ns) -> bool:
        return ns == 0 or str(ns) in self.canon

    def tok(self, s: str) -> list:
        """Canonical tokenisation: ["Main:"]? prefix atoms* first-character atom, then words / SP / US."""
        if not isinstance(s, str) or s == NONE:
            raise Odd("title is not a string")
        atoms = []
        if s.startswith("Main:"):
            atoms.append("Main:")
            s = s[5:]
        while True:
            i = s.find(":")
            if i <= 0:
                break
            p = s[: i + 1].replace("_", " ")
            ns = self.low.get(p.lower(), "-")
            if ns == "-":
                break
            if ns is None:
                raise Odd("prefix denotes two namespaces")
            if p == "Main:":
                raise Odd("'Main:' after the start of a title")
            atoms.append(p)
            self.pfxns[p] = ns
            self.upper.setdefault(p, p[:1].upper() + p[1:])
            s = s[i + 1:]
        if s:
            c = s[0]
            if c == " ":
                atoms.append("SP")
            elif c == "_":
                atoms.append("US")
            else:
                up = c.upper()
                if len(up) != 1:
                    raise Odd("first letter whose upper case is not one character")
                atoms.append(c)
                self.upper.setdefault(c, up)
            word = ""
            for ch in s[1:]:
                if ch in " _":
                    if word:
                        atoms.append(word)
                        word = ""
                    atoms.append("SP" if ch == " " else "US")
                else:
                    word += ch
            if word:
                atoms.append(word)
        if atoms == ["-"]:
            raise Odd("title '-' is the model's marker for 'no redirect'")
        return atoms

    def tables(self) -> dict:
        # every canonical prefix is a prefix atom of its namespace
        pf = dict(self.pfxns)
        for i, c in self.canon.items():
            pf.setdefault(c, int(i))
        return {"pfxns": pf, "canon": self.canon, "upper": self.upper}


def _words_clash(s: str) -> bool:
    """A title in which a word is spelled SP / US (the blank atoms of the model)."""
    import re as _re

    return any(w in ("SP", "US") for w in _re.split(r"[ _]", s[1:] if s else ""))


def abs_result(u: StoreUniverse, r: dict) -> dict:
    if not r.get("found"):
        return {"found": False, "title": [], "ns": 0, "redirect": ["-"], "body": "", "model": ""}
    if r["ns"] is None:
        raise Odd("page stored without a namespace id")
    if _words_clash(r["title"]) or (r["redirect"] is not None and _words_clash(r["redirect"])):
        raise Odd("word spelled like a blank atom")
    return {"found": True, "title": u.tok(r["title"]), "ns": r["ns"],
            "redirect": u.tok(r["redirect"]) if r["redirect"] is not None else ["-"],
            "body": r["body"] or "", "model": r["model"] or ""}


def store_events(rec: Recording, sk: dict):
    """-> (universe, events for Trace_PageStore, the recorded event behind each of them (None for reset))."""
    if not rec.ns:
        raise common.TLCError("the recording holds no namespace table")
    langs = sorted(rec.ns)
    u = StoreUniverse(rec.ns["en"] if "en" in rec.ns else rec.ns[langs[0]])
    lang = "en" if "en" in rec.ns else langs[0]
    out, src = [], []
    shared_db: dict = {}
    for e in rec.events:
        if e["op"] == "__init__":
            dbp = e["r"].get("db_path") or e["a"].get("db_path")
            shared_db[(e["sh"], dbp)] = shared_db.get((e["sh"], dbp), 0) + 1
    for tid, ((sh, cid), evs) in enumerate(sorted(rec.contexts().items())):
        init = next((e for e in evs if e["op"] == "__init__"), None)
        if init is None:
            _skip(sk, "context without a recorded __init__")
            continue
        if init.get("exc"):
            continue
        if init["a"].get("lang_code", "en") != lang:
            _skip(sk, "context of another language edition (other namespace table)")
            continue
        if any(set(e.get("pat", [])) & set(STORE_OPS) for e in evs):
            _skip(sk, "the test replaces a page-store method of Wtp (mock)")
            continue
        dbp = init["r"].get("db_path") or init["a"].get("db_path")
        if dbp is not None and shared_db.get((sh, dbp), 0) > 1:
            _skip(sk, "database file used by more than one context (the store is not this context's alone)")
            continue
        out.append({"op": "reset", "tid": tid})
        src.append(None)
        for e in evs:
            if e["op"] not in STORE_OPS or e.get("exc"):
                continue
            a, r = e["a"], e["r"]
            try:
                if e["op"] == "add_page":
                    if a["ns"] is None:
                        raise Odd("add_page without a namespace id")
                    if not u.known_ns(a["ns"]):
                        raise Odd("namespace id unknown to the namespace table")
                    if a["model"] is None:
                        raise Odd("add_page with model=None")
                    if "_" in a["title"].split(":")[0] and ":" in a["title"]:
                        raise Odd("add_page with an underscore in the prefix (assumption: dumps write spaces)")
                    if a["ns"] == 0 and a["title"].startswith("Main:"):
                        raise Odd("add_page of a 'Main:' title (stripped on the write side, deviation kept by C12)")
                    if _words_clash(a["title"]) or (a["redirect"] is not None and _words_clash(a["redirect"])):
                        raise Odd("word spelled like a blank atom")
                    body = a["body"]
                    if a.get("incl"):
                        if not a.get("stored"):
                            raise Odd("template body with inclusion markup and the includable part could not be determined")
                        body = a["stored"]
                    ev = {"op": "add", "tid": tid, "title": u.tok(a["title"]), "ns": a["ns"],
                          "redirect": u.tok(a["redirect"]) if a["redirect"] is not None else ["-"],
                          "body": body or "", "model": a["model"]}
                else:
                    if _words_clash(a["title"]):
                        raise Odd("word spelled like a blank atom")
                    ns = NONS if a["ns"] is None else a["ns"]
                    if ns != NONS and not u.known_ns(ns):
                        raise Odd("namespace id unknown to the namespace table")
                    ev = {"tid": tid, "title": u.tok(a["title"]), "ns": ns, "nr": bool(a.get("nr", False))}
                    if e["op"] == "get_page":
                        ev.update(op="get", res=abs_result(u, r))
                    elif e["op"] == "get_page_resolve_redirect":
                        ev.update(op="resolve", res=abs_result(u, r))
                    elif e["op"] == "page_exists":
                        ev.update(op="exists", res={"found": bool(r.get("found"))})
                    else:
                        ev.update(op="body", res={"found": bool(r.get("found")), "body": r.get("body") or ""})
            except Odd as x:
                if e["op"] == "add_page":
                    # the model's store would no longer be the real one: this context ends here
                    _skip(sk, f"context cut at an add_page outside the abstraction: {x}")
                    break
                _skip(sk, f"lookup outside the abstraction: {x}")
                continue
            out.append(ev)
            src.append(e)
    return u, out, src


def validate_store(u: StoreUniverse, events, timeout=1800):
    with Scratch("suite-p-") as d:
        tf = d / "trace.json"
        tf.write_text(json.dumps({**u.tables(), "events": events}))
        r = tlc("Trace_PageStore", "trace.cfg", cfg_text=STORE_CFG, workers=1, env={"TRACE_FILE": str(tf)}, timeout=timeout)
    v = r.tagged("VERDICT")
    if not v or v[0]["consumed"] != len(events):
        raise common.TLCError("Trace_PageStore did not consume the suite trace")
    return r, v[0]["bad"]


def conc(atoms) -> str:
    return "".join({"SP": " ", "US": "_"}.get(a, a) for a in atoms)


def stage_c10(o: Outcome, rec: Recording, info: dict) -> None:
    sk = info.setdefault("skipped", {})
    u, events, src = store_events(rec, sk)
    if not events:
        o.note_drift({"suite": "no page-store history of the suite could be encoded", "skipped": sk})
        return
    r, bad = validate_store(u, events)
    o.add_tlc("Trace_PageStore[suite]", r)
    info["contexts_validated"] = sum(1 for e in events if e["op"] == "reset")
    info["events_validated"] = len(events)
    info["by_operation"] = {op: sum(1 for e in events if e["op"] == op) for op in ("add", "get", "resolve", "exists", "body")}
    info["prefix_spellings"] = len(u.pfxns)
    o.traces += info["contexts_validated"]
    o.evaluations += len(events)
    for e in events:
        if e["op"] != "reset":
            o.shape(("suite", e["op"], common.json_key(e.get("title")), e.get("ns")))
    seen = set()
    for b in bad:
        ev = events[b["i"] - 1]
        if b["tid"] in seen:
            continue
        seen.add(b["tid"])
        start = max(i for i in range(b["i"]) if events[i]["op"] == "reset")
        o.violation(
            {"kind": "store", "test": src[b["i"] - 1]["t"], "universe": u.tables(), "events": events[start: b["i"]][-60:],
             "events_cut": max(0, b["i"] - start - 60)},
            f"inside {src[b['i'] - 1]['t']}: {ev['op']}({conc(ev['title'])!r}, ns={ev['ns']}) returned {ev['res']!r}; specification: {b['expected']!r}",
            cls="suite-store:" + ev["op"])
    sample = [e for e in events if e["op"] != "reset"][:4]
    if sample:
        o.sample({"suite_store_events": sample})


# ---------------------------------------------------------------------------
# C19
# ---------------------------------------------------------------------------
FRAG_KINDS = {"ROOT", "LEVEL1", "LEVEL2", "LEVEL3", "LEVEL4", "LEVEL5", "LEVEL6", "HLINE", "LIST", "LIST_ITEM", "TABLE",
              "TABLE_CAPTION", "TABLE_ROW", "TABLE_HEADER_CELL", "TABLE_CELL", "HTML", "BOLD", "ITALIC", "LINK", "URL",
              "TEMPLATE", "TEMPLATE_ARG", "PARSER_FN"}
# characters that are wikitext markup when they stand in running text: a document of the structured grammar
# does not hold them as text (literal double brackets are the exception the statement names)
TEXT_MARKUP = set("|!{}<>'=*#;&_:")
ARG_MARKUP = set("{}<>'&_")          # inside arguments of calls / links / URLs: = : / # | are part of the syntax
import re as _re
ATTR_NAME_RE = _re.compile(r"[A-Za-z][A-Za-z0-9-]*\Z")


def in_fragment(t1: dict, messages: int):
    """Is the document whose first parse tree is t1 (ptree2 abstraction) one of the statement's structured
    grammar?  Conservative: a document that is not judged stays DRIFT only.  -> (bool, reason)"""
    if messages:
        return False, "the parser reported errors / warnings / debug messages (not a well-formed document)"

    CALLS = ("TEMPLATE", "TEMPLATE_ARG", "PARSER_FN")
    # what may stand where, as in spec/Gen_Unparse.tla: arguments of calls hold text, calls and links;
    # link texts hold inline nodes but no further link; blocks stand in blocks only
    ALLOWED = {"call": set(CALLS) | {"LINK", "URL"}, "link": set(CALLS) | {"BOLD", "ITALIC", "HTML"}, "block": FRAG_KINDS}

    def walk(x, where):
        if "s" in x:
            bad = TEXT_MARKUP if where == "block" else ARG_MARKUP
            for a in x["s"]:
                if a in ("SP", "NL"):
                    continue
                if any(ch in bad for ch in a):
                    return "markup character as text"
            return None
        if x["kind"] not in FRAG_KINDS:
            return "node kind outside the grammar: " + x["kind"]
        if x["kind"] not in ALLOWED[where]:
            return f"{x['kind']} inside the arguments of a {where}"
        for a in x["attrs"]:
            if not ATTR_NAME_RE.match(a["n"]) or quote_plus(a["v"]) != a["v"]:
                return "attribute value that is not URL-safe"
        if x["kind"] == "HTML" and (len(x["sarg"]) != 1 or not x["sarg"][0].isalnum()):
            return "odd tag name"
        inner = where
        if x["kind"] in CALLS:
            inner = "call"
        elif x["kind"] in ("LINK", "URL") and where != "call":
            inner = "link"
        if x["kind"] in CALLS + ("LINK", "URL"):
            # a call / link of the grammar has a name / target
            if not x["largs"] or not any("s" not in c or any(a not in ("SP", "NL") for a in c["s"]) for c in x["largs"][0]):
                return "call or link without a name / target"
        for lst in x["largs"]:
            for c in lst:
                r = walk(c, inner)
                if r:
                    return r
        for lst in x["defn"]:
            for c in lst:
                r = walk(c, where)
                if r:
                    return r
        for c in x["children"]:
            r = walk(c, where)
            if r:
                return r
        return None

    r = walk(t1, "block")
    return (r is None), (r or "")


def classify_chunk(texts):
    """[(index, text)] -> [(index, in fragment?, reason)] using the real parser of the working tree."""
    import ptree2

    common.use_repo()
    out = []
    with Scratch("suite-f-") as d:
        ctx = ptree2.new_ctx(d)
        try:
            for i, t in texts:
                try:
                    root = ptree2.parse(ctx, t)
                    nmsg = len(ctx.errors) + len(ctx.warnings) + len(ctx.debugs)
                    ok, why = in_fragment(ptree2.node(root), nmsg)
                except Exception as e:  # noqa: BLE001   (parse() raising is C01's business)
                    ok, why = False, "parse raised " + type(e).__name__
                out.append((i, ok, why))
        finally:
            ctx.db_conn.close()
    return out


def stage_c19(o: Outcome, rec: Recording, info: dict) -> None:
    import c19

    sk = info.setdefault("skipped", {})
    texts = [t for t, _ in parse_texts(rec, sk)]
    first_test = {t: e["t"] for t, e in parse_texts(rec, {})}
    info["distinct_parse_texts"] = len(texts)
    cls = dict((i, (ok, why)) for i, ok, why in pmap(classify_chunk, list(enumerate(texts))))
    inside = [("suite/in", t) for i, t in enumerate(texts) if cls[i][0]]
    outside = [("suite/out", t) for i, t in enumerate(texts) if not cls[i][0]]
    reasons: dict = {}
    for i in range(len(texts)):
        if not cls[i][0]:
            reasons[cls[i][1]] = reasons.get(cls[i][1], 0) + 1
    info["in_fragment"] = len(inside)
    info["outside_fragment_drift_only"] = {"count": len(outside), "reasons": reasons}
    known = sorted(o.known)
    # (every job starts a JVM: on a loaded machine one job per class is the fastest for a few hundred documents)
    njobs = 4 if o.tier == "thorough" else 1

    def cut(items, tag):
        n = max(1, min(njobs, len(items) // 80 + 1))
        return [(tag, ("texts", items[k::n], known)) for k in range(n)] if items else []

    jobs = cut(inside, "in") + cut(outside, "out")
    res = pmap(_c19_job, jobs, chunk=1)
    tr = common.TLCResult("", 0, 0.0)
    nbad_out = 0
    for tag, summ in res:
        tr.distinct += summ["trace"][0]
        tr.generated += summ["trace"][1]
        tr.wall = max(tr.wall, summ["trace"][2])
        if tag == "in":
            for b in summ["bad"]:
                b["case"]["test"] = first_test.get(b["case"].get("text") or b["case"].get("from_document"))
                b["cls"] = "suite " + b["cls"]
            c19.absorb(o, summ)
            info["direct_values_self_contained"] = info.get("direct_values_self_contained", 0) + summ["eligible"]
        else:
            o.evaluations += summ["n"]
            o.drift_count += summ["drift"]
            nbad_out += len(summ["bad"]) + len(summ["exceptions"])
            for b in summ["bad"][:2]:
                o.note_drift({"suite": "round trip of a document outside the statement's grammar is not equivalent",
                              "why": b["why"][:300], "text": (b["case"].get("text") or b["case"].get("from_document") or "")[:300]})
            o.drift_count += max(0, len(summ["bad"]) - 2) + len(summ["exceptions"])
    o.add_tlc("Trace_Unparse[suite]", tr)
    info["outside_fragment_not_equivalent"] = nbad_out
    if inside:
        o.sample({"suite_document_in_fragment": inside[len(inside) // 2][1][:400]}, cap=8)


def _c19_job(jobs):
    import c19
    import ptree2

    out = []
    for tag, job in jobs:
        if tag == "in":
            out.append((tag, c19.pipeline_job([job])[0]))
            continue
        # outside the statement's grammar: the whole-document round trip only (no directly passed parts); whatever
        # TLC says about it ends up as DRIFT
        _, texts, known = job
        summ = c19.new_summary()
        recs = {}
        common.use_repo()
        with Scratch("suite-o-") as d:
            ctx = ptree2.new_ctx(d)
            try:
                for i, (label, text) in enumerate(texts):
                    try:
                        recs[i] = c19.chain(ctx, text, None, i)
                    except Exception as e:  # noqa: BLE001
                        summ["exceptions"].append({"origin": label, "text": text, "exception": repr(e)})
            finally:
                ctx.db_conn.close()
        summ["n"] = len(texts)
        cases = sorted(recs.items())
        if cases:
            r = c19.trace_batch(known, cases, [])
            summ["trace"] = list(r["tlc"])
            for i, bd in r["bad"]:
                summ["bad"].append({"case": {"text": texts[i][1]}, "why": ("first" if not bd["e12"] else "second") + f" round trip of {texts[i][1]!r} is not equivalent"})
            summ["drift"] = len(r["drift"])
        out.append((tag, summ))
    return out


# ---------------------------------------------------------------------------
# entry points
# ---------------------------------------------------------------------------
STAGES = {"C01": stage_c01, "C16": stage_c16, "C10": stage_c10, "C19": stage_c19}
RULES = {
    "C01": "suite engine: every distinct text handed to parse() by the repository's tests is one case (parsed alone in three modes) and "
           "every distinct shape of a tree the tests obtained is one case; both judged by TLC with WellFormed",
    "C16": "suite engine: every context the repository's tests create is one trace (events start_page / expand / parse / message methods / "
           "start_section / to_return with stack depth and list lengths at entry and return), validated by Trace_SuiteStack; distinct by "
           "(operation, options, text) of top-level expand / parse calls",
    "C10": "suite engine: the add_page / lookup history of every context the repository's tests create is one trace validated by "
           "Trace_PageStore; distinct by (operation, title, namespace)",
    "C19": "suite engine: every distinct text handed to parse() by the repository's tests is one round-trip case judged by Trace_Unparse; "
           "VIOLATION only inside the statement's grammar (no parser messages, grammar node kinds, no markup characters as text, URL-safe "
           "attribute values), DRIFT otherwise",
}


def extend(o: Outcome, tier: str, pid: str) -> None:
    """Adds the suite engine's runs to the Outcome of check `pid` (never calls finish())."""
    t0 = time.time()
    common.use_repo()
    plan = plan_for(tier, pid)
    rec = run_recording(plan, want_trees=(pid == "C01"))
    info = rec.summary()
    if rec.incomplete:
        o.note_drift({"suite": "the recording is incomplete", "shards_not_finished": rec.incomplete, "notes": rec.notes})
    info["tier_plan"] = {f: f"shards {w} of {n}" for f, (n, w) in plan.items()}
    o.rule = (o.rule + " || " if o.rule else "") + RULES[pid]
    o.assumptions = list(o.assumptions) + [
        "suite engine: the repository's tests run with the offline Lua stand-ins installed into every context (harness/luastub.py); "
        "test assertions are ignored, only the recorded calls are validated"]
    # (common.with_engine wraps o.violation as (case, why, **kw) but Outcome.classify passes cls positionally)
    v = o.violation
    o.violation = lambda case, why, cls=None, **kw: v(case, why, cls=cls, **kw)
    try:
        STAGES[pid](o, rec, info)
    finally:
        o.violation = v
    info["engine_wall_s"] = round(time.time() - t0, 1)
    o.extra["suite"] = info


def _as_case(case):
    if isinstance(case, (str, Path)):
        v = json.loads(Path(case).read_text())
        return v.get("property"), v["case"], v.get("why", "")
    if "case" in case and "property" in case:
        return case["property"], case["case"], case.get("why", "")
    return None, case, ""


def replay(case) -> int:
    """Re-runs a reported case on the current tree; 1 = still violating.  `case`: path of a replay file or
    its parsed content.  Cases that name a test re-record that single test and validate it again."""
    pid, c, why = _as_case(case)
    common.use_repo()
    print("why:", why)
    kind = c.get("kind")
    o = Outcome(pid or "C00", "quick")
    info: dict = {}
    if kind in ("stack", "store", "recorded-tree", "recorded-flags") and c.get("test"):
        rec = run_recording({}, want_trees=(kind in ("recorded-tree", "recorded-flags")), only=[c["test"]])
        print(f"re-recorded {c['test']}: {len(rec.events)} events")
        if kind == "stack":
            stage_c16(o, rec, info)
        elif kind == "store":
            stage_c10(o, rec, info)
        else:
            stage_c01(o, rec, info)
        for v in o.violations:
            print("still violating:", v["why"][:400])
        return 1 if o.violations else 0
    text = c.get("text") or c.get("from_document")
    if text is None:
        print(json.dumps(c, indent=1)[:2000])
        return 1
    if pid == "C19" or "wikitext1" in c or "wikitext" in c:
        import c19

        o.known = {}
        summ = c19.new_summary()
        c19.judge_texts([("replay", text)], [], summ)
        c19.absorb(o, summ)
        for v in o.violations:
            print("still failing:", v["why"][:400])
        return 1 if o.violations else 0
    # C01: the text alone, in the recorded mode
    import c01
    import parsetree as pt

    with Scratch("suite-r-") as d:
        ctx = pt.new_ctx(d, templates=True)
        root, err, flags = pt.parse(ctx, text, c.get("mode", "plain") if c.get("mode") in pt.MODES else "plain")
        ctx.close_db_conn()
    print("text :", repr(text[:300]))
    print("error:", err, " flags:", flags)
    if root is None:
        return 1
    sys.setrecursionlimit(20000)
    dump = pt.dump_wf(root)
    if len(pt.shape_key(dump)) <= c01.SLICE_LIMIT and c01.depth_of(dump) <= c01.DEPTH_LIMIT:
        entries = [("NONE", json.dumps(dump))]
    else:
        entries = [(pk, json.dumps(sl)) for pk, sl in c01.slices(dump)]
    _, bad = c01.validate_trees(entries)
    faults = sorted({f for fs in bad.values() for f in fs})
    print("faults now:", faults)
    return 0 if not bad and flags == pt.CLEAN_FLAGS else 1


def selftest() -> int:
    """Binding demo: the recorded events of a few tests are accepted by TLC; the same events with ONE
    recorded field corrupted are rejected, with the clause named (stack trace, page-store trace, tree)."""
    import c01

    common.use_repo()
    ok = True
    rec = run_recording({"test_node_expand.py": (1, [0]), "test_wikiprocess.py": (48, [3])}, want_trees=True)
    print(f"recorded {len(rec.tests)} tests, {len(rec.events)} events from {rec.tests_from}")
    # ---- Trace_SuiteStack
    events, src = stack_events(rec, {})
    _, bad0 = validate_stack(events)
    viol0 = [b for b in bad0 if set(b["clauses"]) & set(STACK_VIOL)]
    print(f"(a) stack trace of {len(events)} events: violating clauses = {len(viol0)}")
    ok &= not viol0
    k = next(i for i, e in enumerate(events) if e["op"] == "expand" and not e["nested"] and not e["exc"])
    ev2 = copy.deepcopy(events)
    ev2[k]["es"] += 1
    _, bad1 = validate_stack(ev2)
    got = [(b["i"], sorted(b["clauses"])) for b in bad1 if b["i"] == k + 1]
    print(f"    stack depth after expand corrupted in event {k + 1}: {got}")
    ok &= bool(got) and "path_restored" in got[0][1]
    k = next(i for i, e in enumerate(events) if e["op"] == "start_page")
    ev3 = copy.deepcopy(events)
    ev3[k]["m"][2] = 1
    _, bad2 = validate_stack(ev3)
    got = [(b["i"], sorted(b["clauses"])) for b in bad2 if b["i"] == k + 1]
    print(f"    one debug message left after start_page in event {k + 1}: {got}")
    ok &= bool(got) and "lists_emptied" in got[0][1]
    k = next((i for i, e in enumerate(events) if e["nm"] and not e["nested"] and e["st"] == e["st0"] and e["op"] in ("expand", "parse")), None)
    if k is not None:
        ev4 = copy.deepcopy(events)
        ev4[k]["nm"][0]["title"] = "CORRUPTED"
        _, bad3 = validate_stack(ev4)
        got = [(b["i"], sorted(b["clauses"])) for b in bad3 if b["i"] == k + 1]
        print(f"    title stamp of a new message corrupted in event {k + 1}: {got}")
        ok &= bool(got) and "msg_title" in got[0][1]
    # ---- Trace_PageStore
    u, sev, _ = store_events(rec, {})
    _, sb0 = validate_store(u, sev)
    print(f"(b) page-store trace of {len(sev)} events: bad = {len(sb0)}")
    ok &= not sb0
    k = next(i for i, e in enumerate(sev) if e["op"] in ("get", "resolve") and e["res"]["found"])
    sev2 = copy.deepcopy(sev)
    sev2[k]["res"]["body"] = "CORRUPTED"
    _, sb1 = validate_store(u, sev2)
    print(f"    body of a lookup result corrupted in event {k + 1}: bad = {[(b['i'], b['op']) for b in sb1][:3]}")
    ok &= bool(sb1) and sb1[0]["i"] == k + 1
    # ---- Trace_WikiTree on a recorded tree
    tr = next(t for t in rec.trees if t["dump"]["ch"])
    good = tr["dump"]
    bad_tree = copy.deepcopy(good)
    bad_tree["ch"].insert(0, {"s": {"n": 0, "hi": [], "c": []}})
    _, tb = c01.validate_trees([("NONE", json.dumps(good)), ("NONE", json.dumps(bad_tree))])
    print(f"(c) recorded tree: faults = {tb.get(0, [])}; with an empty string child inserted: {tb.get(1, [])}")
    ok &= 0 not in tb and "empty-string-child" in tb.get(1, [])
    print("selftest", "ok" if ok else "FAILED")
    return 0 if ok else 1


if __name__ == "__main__":
    # /venv/bin/python harness/suitetrace.py selftest | run <ID> <tier>
    sys.path.insert(0, str(HARNESS))
    if len(sys.argv) > 1 and sys.argv[1] == "selftest":
        sys.exit(selftest())
    if len(sys.argv) > 3 and sys.argv[1] == "run":
        import tempfile

        own = tempfile.mkdtemp(prefix="suite-evidence-")
        common.EVID = Path(own)
        common.REPLAYS = Path(own) / "replays"
        oo = Outcome(sys.argv[2], sys.argv[3])
        try:
            common.with_engine(oo, "suite", lambda: extend(oo, sys.argv[3], sys.argv[2]))
            print(json.dumps(oo.extra["suite"], indent=1))
            rc = oo.finish()
        finally:
            import shutil

            if not oo.violations:
                shutil.rmtree(own, ignore_errors=True)
            else:
                print("(evidence of this standalone run:", own, ")")
        sys.exit(rc)
