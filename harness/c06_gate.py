"""C06, second engine: the gate on the Lua-Python bridge as a state machine (spec/SandboxGate.tla).

The reachability engine (c06.py / SandboxReach) extracts every attribute edge of every Python
object ONCE, in one order, in one runtime.  That is only sound when whatever decides an edge has
no memory.  The attribute filter of the LuaRuntime runs on every lookup a module makes, so a
lookup is an attacker move even when it yields nothing.  Here the unit of a case is therefore a
HISTORY of lookups made in a fresh runtime:

  ask = [o, n, m, b]   object (a helper / frame function the module really holds), attribute
                       name, mode (get / set), boundary to the previous lookup (same invocation,
                       a later #invoke on the same page, a later page of the same context)

M  MC_SandboxGate(.cfg/_T.cfg): design-level universe, every history up to MaxLen: GateConfined,
   VerdictIsPure, AnswersAsDirect, RunAgrees.  Demo_SandboxGate_*.cfg: with a memoising gate TLC
   itself finds the priming history.
G  Gen_SandboxGate: the universe is read from the LIVE sandbox (real kind / lifetime of each
   object, what getattr of the real host objects returns); TLC enumerates every history with the
   answers the design demands and the answers of each modelled deviation.  Every history is run
   through #invoke of a driver module in a FRESH context of the real code; the values the module
   really obtained are classified from the Python side (identity with the context checked).
V  seeded random longer histories over ALL Python objects found in the environment and the frame
   and a wider name set are run for real, recorded, and replayed by TLC (Trace_SandboxGate).

VIOLATION only when a lookup hands the module a forbidden value (a Python object other than the
intended callables / immutable values) that the design does not hand out.  Any other difference
between observed and predicted answers (message wording, absent vs denied) is DRIFT.
"""
from __future__ import annotations

import functools
import json
import os
import random
import shutil
import tempfile
import time
import types
from concurrent.futures import ThreadPoolExecutor
from pathlib import Path

import common
import luafix
from common import Scratch, tlc

OWN = 4242  # the value a driver stores when it sets an attribute

GATE_LUA = r"""
local p = {}
function p.run(frame)
  local env = _G
  local spec = frame.args[1] or ""
  local res = {}
  __c06_gate = res
  for item in string.gmatch(spec, "[^;]+") do
    local m, oid, name, val = string.match(item, "^(%a),([^,]+),([^,]+),(%d+)$")
    local where, key = string.match(oid or "", "^(%a):(.+)$")
    local o = nil
    if where == "e" then o = env[key] elseif where == "f" then o = frame[key] end
    local rec = { m = m }
    if o == nil then
      rec.noobj = true
    elseif m == "g" then
      local ok, v = pcall(function() return o[name] end)
      rec.ok = ok
      if ok then
        rec.v = v
        rec.t = type(v)
        if type(v) == "userdata" then
          -- what a module would do next: take the value apart
          rec.items = {}
          for i = 0, 3 do
            local ok2, w = pcall(function() return v[i] end)
            if ok2 and w ~= nil then rec.items[#rec.items + 1] = w end
          end
        end
      else
        rec.err = tostring(v)
      end
    else
      local ok, e = pcall(function() o[name] = tonumber(val) end)
      rec.ok = ok
      if not ok then rec.err = tostring(e) end
    end
    res[#res + 1] = rec
  end
  return "GATE:" .. #res
end
function p.list(frame)
  -- names of the Python objects (userdata) in the module environment and in the frame
  local out = {}
  for k, v in pairs(_G) do if type(k) == "string" and type(v) == "userdata" then out[#out + 1] = "e:" .. k end end
  for k, v in pairs(frame) do if type(k) == "string" and type(v) == "userdata" then out[#out + 1] = "f:" .. k end end
  table.sort(out)
  return table.concat(out, ";")
end
return p
"""

PREFERRED = [
    "e:mw_python_get_page_content",   # partial over the context (call_lua_sandbox)
    "e:_python_top_env",              # partial over the environment stack (set_lua_env_funcs)
    "e:mw_decode_python",             # module-level plain function
    "f:getTitle",                     # closure of make_frame, new for every #invoke
    "e:mw_jsondecode_python", "f:preprocess", "e:mw_current_title_python", "e:mw_python_fetch_language_name",
]
NAMES_Q = ["args", "keywords", "zz", "__globals__"]
NAMES_T = NAMES_Q + ["func", "__closure__", "__class__", "__dict__"]
NAMES_V = NAMES_T + ["_x", "__self__", "__code__", "__call__", "__wrapped__", "__func__", "__defaults__", "__module__",
                     "name", "obj", "yy"]
DEV_LABELS = ["MemoByName", "MemoByObject", "MemoByName+MemoPerInvocation", "MemoByObject+MemoPerInvocation"]


# ---------------------------------------------------------------------------
# classification of real values (Python side)
# ---------------------------------------------------------------------------

def _lua_type(v):
    import lupa.lua51 as lupa
    return lupa.lua_type(v)


def py_class(o) -> str:
    """'' = allowed (intended callable helper / immutable value), else the forbidden class.
    Same rule as c06_extract.Extractor.py_class."""
    import c06_extract
    return c06_extract.Extractor.py_class(None, o)


def leak_class(v) -> str:
    import c06_extract
    if v is None or c06_extract.is_value(v):
        return ""
    if _lua_type(v) is not None:
        return ""  # a Lua value
    if isinstance(v, tuple):
        parts = sorted({leak_class(x) for x in v} - {""})
        return ("tuple>" + "+".join(parts)) if parts else ""
    return py_class(v)


def kind_of(o):
    if isinstance(o, functools.partial):
        return "partial"
    if isinstance(o, (types.FunctionType, types.BuiltinFunctionType)) and (
            getattr(o, "__self__", None) is None or isinstance(getattr(o, "__self__", None), types.ModuleType)):
        return "pyfunc"
    return None


# ---------------------------------------------------------------------------
# running one history in a fresh context of the real code
# ---------------------------------------------------------------------------

def _py_objects(ctx, env, frame):
    out = {}
    for pre, t in (("e:", env), ("f:", frame)):
        if t is None:
            continue
        for k, v in t.items():
            if isinstance(k, str) and v is not None and _lua_type(v) is None and not isinstance(v, (bool, int, float, str, bytes)):
                out[pre + k] = v
    return out


def _scrub(objs: dict, names) -> None:
    """module-level functions are shared by every context of the process: remove what drivers stored"""
    for o in objs.values():
        d = getattr(o, "__dict__", None)
        if isinstance(d, dict):
            for n in names:
                d.pop(n, None)


def segments(asks):
    segs = []
    for a in asks:
        if not segs or a["b"] != "same":
            segs.append((a["b"] if segs else "same", []))
        segs[-1][1].append(a)
    return segs


def observe(rec, a, ctx) -> dict:
    if rec is None or rec["noobj"]:
        return {"r": "noobj", "cls": ""}
    if a["m"] == "set":
        if rec["ok"]:
            return {"r": "setok", "cls": ""}
        return {"r": "denied" if "access denied" in str(rec["err"]) else "seterr", "cls": ""}
    if not rec["ok"]:
        return {"r": "denied" if "access denied" in str(rec["err"]) else "absent", "cls": ""}
    v = rec["v"]
    if isinstance(v, (int, float)) and not isinstance(v, bool) and v == OWN:
        return {"r": "own", "cls": ""}
    ob = {"r": "val", "cls": leak_class(v)}
    if ob["cls"]:
        held = []
        items = rec["items"]
        if items is not None:
            held = [x for x in items.values()]
        ob["what"] = repr(v)[:120]
        ob["module_holds_context"] = any(x is ctx for x in held) or v is ctx
        ob["module_holds"] = sorted({leak_class(x) or type(x).__name__ for x in held})[:6]
    return ob


def run_history(asks, base: Path, idx, names=NAMES_V) -> list[dict]:
    d = base / f"h{idx}"
    ctx = luafix.make_ctx(d, {"c06gate": GATE_LUA}, record=True)
    objs = {}
    try:
        obs = []
        for si, (bound, seg) in enumerate(segments(asks)):
            if bound == "page":
                ctx.start_page(f"Tt{si}")
            spec = ";".join(f"{'g' if a['m'] == 'get' else 's'},{a['o']},{a['n']},{OWN}" for a in seg)
            n0 = len(ctx.lua_env_stack.seen)
            out = ctx.expand("{{#invoke:c06gate|run|%s}}" % spec)
            if out != f"GATE:{len(seg)}" or len(ctx.lua_env_stack.seen) <= n0:
                raise RuntimeError(f"gate driver did not run: {out!r} for {spec!r}")
            env = ctx.lua_env_stack.seen[-1]
            if si == 0:
                objs = _py_objects(ctx, env, None)  # scrubbed when the history is over (finally)
            res = env["__c06_gate"]
            for j, a in enumerate(seg, start=1):
                obs.append(observe(res[j], a, ctx))
        return obs
    finally:
        _scrub(objs, names)
        luafix.close_ctx(ctx)
        shutil.rmtree(d, ignore_errors=True)


_WORK = {}


def _chunk(items):
    common.use_repo()
    base = Path(_WORK["base"])
    out = []
    for idx, asks in items:
        try:
            out.append((idx, run_history(asks, base, idx), None))
        except Exception as e:  # machinery
            out.append((idx, None, repr(e)[:300]))
    return out


def run_many(histories: list, base: Path) -> list:
    """histories: list of ask lists -> list of observed answer lists (same order)"""
    _WORK["base"] = str(base)
    res = common.pmap(_chunk, list(enumerate(histories)))
    res.sort(key=lambda t: t[0])
    errs = [e for _, _, e in res if e]
    if errs:
        raise RuntimeError(f"gate histories failed to run ({len(errs)}): {errs[0]}")
    return [o for _, o, _ in res]


# ---------------------------------------------------------------------------
# the live universe
# ---------------------------------------------------------------------------

def discover(base: Path) -> dict:
    """Python objects a module holds (environment + frame) with real kind, lifetime and host facts."""
    ctx = luafix.make_ctx(base / "disc", {"c06gate": GATE_LUA}, record=True)
    try:
        listed = ctx.expand("{{#invoke:c06gate|list}}")
        env = ctx.lua_env_stack.seen[-1]
        frame = ctx.lua_frame_stack.seen[-1]
        real = _py_objects(ctx, env, frame)
        ids = [x for x in listed.split(";") if x]
        # lifetime: is it the very same object in a later invocation on a later page?
        ctx.start_page("Tt2")
        ctx.expand("{{#invoke:c06gate|list}}")
        again = _py_objects(ctx, ctx.lua_env_stack.seen[-1], ctx.lua_frame_stack.seen[-1])
        objs, notes, py = [], [], {}
        for i in ids:
            o = real.get(i)
            k = kind_of(o) if o is not None else None
            if k is None:
                notes.append(f"{i}: {type(o).__name__} is neither a partial nor a plain function (left to the reachability engine)")
                continue
            objs.append({"id": i, "kind": k, "scope": "runtime" if again.get(i) is o else "invoke"})
            py[i] = o
        _scrub(py, NAMES_V)
        facts = {}
        for i, o in py.items():
            for n in NAMES_V:
                try:
                    v = getattr(o, n)
                except Exception:
                    continue
                facts[(i, n)] = leak_class(v)
        writable = sorted(i for i, o in py.items() if isinstance(getattr(o, "__dict__", None), dict))
        return {"objs": objs, "facts": facts, "writable": writable, "notes": notes}
    finally:
        luafix.close_ctx(ctx)


def universe(disc: dict, obj_ids, names, modes, bounds, maxlen) -> dict:
    ids = set(obj_ids)
    return {
        "objs": [o for o in disc["objs"] if o["id"] in ids],
        "names": [{"n": n, "under": n.startswith("_")} for n in names],
        "facts": [{"o": i, "n": n, "cls": c} for (i, n), c in sorted(disc["facts"].items()) if i in ids and n in names],
        "writable": [i for i in disc["writable"] if i in ids],
        "modes": list(modes), "bounds": list(bounds), "maxlen": maxlen,
    }


def pick_objects(disc: dict, n: int) -> list[str]:
    """n objects, every (kind, lifetime) combination first, the well-known ones preferred"""
    have = {o["id"]: o for o in disc["objs"]}
    order = [i for i in PREFERRED if i in have] + sorted(i for i in have if i not in PREFERRED)
    out, seen = [], set()
    for i in order:
        key = (have[i]["kind"], have[i]["scope"])
        # one of every (kind, lifetime) combination; with room for it, two partials (they are created at two call sites)
        if key not in seen or (n >= 4 and key == ("partial", "runtime") and sum(1 for x in out if have[x]["kind"] == "partial") < 2):
            out.append(i)
            seen.add(key)
    for i in order:
        if len(out) >= n:
            break
        if i not in out:
            out.append(i)
    return out[:max(n, 1)]


def tier_universes(disc: dict, tier: str) -> list[tuple[str, dict]]:
    if tier == "thorough":
        wide = pick_objects(disc, 7)
        small = pick_objects(disc, 3)
        return [("len2", universe(disc, wide, NAMES_T, ["get", "set"], ["same", "invoke", "page"], 2)),
                ("len3", universe(disc, small, ["args", "zz", "__globals__"], ["get", "set"], ["same", "invoke"], 3))]
    return [("len2", universe(disc, pick_objects(disc, 4), NAMES_Q, ["get", "set"], ["same", "page"], 2))]


def random_histories(disc: dict, n: int, rng: random.Random) -> list:
    ids = [o["id"] for o in disc["objs"]]
    part = [o["id"] for o in disc["objs"] if o["kind"] == "partial"]
    plain = [o["id"] for o in disc["objs"] if o["kind"] != "partial"]
    out = []
    for _ in range(n):
        h = []
        # a few names per history so that names and objects repeat (that is where a memory shows)
        names = rng.sample(NAMES_V, rng.randint(1, 3))
        pool = rng.sample(ids, min(len(ids), rng.randint(2, 4)))
        if part and plain and rng.random() < 0.7:
            pool = list({rng.choice(part), rng.choice(plain), *pool})
        for k in range(rng.randint(3, 8)):
            h.append({"o": rng.choice(pool), "n": rng.choice(names), "m": "get" if rng.random() < 0.75 else "set",
                      "b": "same" if k == 0 else rng.choice(["same", "same", "invoke", "page"])})
        out.append(h)
    return out


# ---------------------------------------------------------------------------
# the engine
# ---------------------------------------------------------------------------

def fmt_ask(a) -> str:
    s = f"{a['o']}.{a['n']}" + (" = v" if a["m"] == "set" else "")
    return s if a["b"] == "same" else f"[{a['b']}] {s}"


def proj(an) -> dict:
    return {"r": an["r"], "cls": an["cls"]}


class Gate:
    def __init__(self, o, tier: str):
        self.o = o
        self.tier = tier
        self.scr = Scratch("c06g-")
        self.d = self.scr.__enter__()
        # the per-history databases: thousands of short-lived sqlite files, ten times cheaper on tmpfs
        self.fast = None
        if os.path.isdir("/dev/shm") and os.access("/dev/shm", os.W_OK):
            try:
                self.fast = Path(tempfile.mkdtemp(prefix="c06g-", dir="/dev/shm"))
            except OSError:
                self.fast = None
        self.hdir = self.fast or self.d
        self.pool = None
        self.fut = {}

    def close(self):
        if self.pool is not None:
            self.pool.shutdown(wait=True, cancel_futures=True)
            self.pool = None
        if self.fast is not None:
            shutil.rmtree(self.fast, ignore_errors=True)
        self.scr.__exit__(None, None, None)

    # -- phase 1: universe from the live sandbox, random histories for real, TLC runs in the background
    def start(self):
        o, d, thorough = self.o, self.d, self.tier == "thorough"
        t0 = time.time()
        self.disc = disc = discover(d)
        for n in disc["notes"]:
            o.note_drift({"gate_universe": n})
        if not any(x["kind"] == "partial" for x in disc["objs"]) or not any(x["kind"] == "pyfunc" for x in disc["objs"]):
            o.note_drift({"gate_universe": "the module environment no longer holds both partial helpers and plain functions: "
                                           "the priming dimension of the gate engine is degenerate on this tree"})
        self.unis = tier_universes(disc, self.tier)
        # V: random histories, run for real before any thread exists (fork)
        rng = random.Random(common.seed() * 7919 + 6)
        self.rand = random_histories(disc, 3000 if thorough else 160, rng)
        self.rand_obs = run_many(self.rand, self.hdir / "v")
        all_ids = [x["id"] for x in disc["objs"]]
        tr = universe(disc, all_ids, NAMES_V, ["get", "set"], ["same", "invoke", "page"], 8)
        tr["histories"] = [[dict(a, **proj(ob)) for a, ob in zip(h, obs)] for h, obs in zip(self.rand, self.rand_obs)]
        (d / "trace.json").write_text(json.dumps(tr))
        for tag, u in self.unis:
            (d / f"gate-{tag}.json").write_text(json.dumps(u))
        self.pool = ThreadPoolExecutor(max_workers=8)
        sub = self.pool.submit
        self.fut["MC_gate"] = sub(tlc, "MC_SandboxGate", "MC_SandboxGate_T.cfg" if thorough else "MC_SandboxGate.cfg",
                                  workers=4, timeout=900, coverage=True)
        for name in ("memoname", "memoobject", "memoinvocation"):
            self.fut["Demo_gate_" + name] = sub(tlc, "MC_SandboxGate", f"Demo_SandboxGate_{name}.cfg", workers=1, check=False)
        for tag, u in self.unis:
            self.fut["Gen_gate_" + tag] = sub(tlc, "Gen_SandboxGate", "Gen_SandboxGate.cfg", workers=1, timeout=1800,
                                              env={"GATE_FILE": str(d / f"gate-{tag}.json")})
        self.fut["Trace_gate"] = sub(tlc, "Trace_SandboxGate", "Trace_SandboxGate.cfg", workers=1, timeout=1800,
                                     env={"TRACE_FILE": str(d / "trace.json")})
        self.timing = {"discover_and_random_histories_s": round(time.time() - t0, 2)}

    # -- phase 2: collect TLC, run every generated history for real, verdicts
    def finish(self):
        o, d = self.o, self.d
        t0 = time.time()
        res = {k: f.result() for k, f in self.fut.items()}
        self.timing["waited_for_background_tlc_s"] = round(time.time() - t0, 2)
        t0 = time.time()
        self.pool.shutdown(wait=True)
        self.pool = None
        for k, r in res.items():
            o.add_tlc(k, r)
        cov = luafix.coverage_actions(res["MC_gate"].out)
        o.extra.setdefault("action_coverage", {}).update({k: v for k, v in cov.items() if k in ("SGNext", "SGInit")})
        if not cov.get("SGNext"):
            raise common.TLCError("SGNext never taken in MC_SandboxGate (vacuity)")
        demos = {}
        for name in ("memoname", "memoobject", "memoinvocation"):
            r = res["Demo_gate_" + name]
            demos[name] = bool(r.invariant_violated)
            if not r.invariant_violated:
                raise common.TLCError(f"Demo_SandboxGate_{name} no longer violates GateConfined (vacuity guard)")
        summary = {"objects_in_live_universe": len(self.disc["objs"]), "demo_deviation_violates_GateConfined": demos,
                   "universes": {}}
        ndrift, drift_samples = 0, []
        # ---- G
        for tag, u in self.unis:
            cases = res["Gen_gate_" + tag].cases
            if not cases:
                raise common.TLCError("Gen_SandboxGate printed no case")
            breaks = {l: 0 for l in DEV_LABELS}
            for c in cases:
                for l in c["breaks"]:
                    breaks[l] += 1
            dead = [l for l, n in breaks.items() if n == 0]
            if dead and any(x["kind"] == "partial" for x in u["objs"]) and any(x["kind"] == "pyfunc" for x in u["objs"]):
                raise common.TLCError(f"no history of the live universe {tag} would expose the modelled deviations {dead} (vacuity)")
            obs_all = run_many([c["asks"] for c in cases], self.hdir / ("g" + tag))
            o.evaluations += sum(len(c["asks"]) for c in cases)
            o.traces += len(cases)
            nbad = 0
            for c, obs in zip(cases, obs_all):
                v = self.judge(c["asks"], [proj(e) for e in c["exp"]], obs, c["alt"] if isinstance(c["alt"], dict) else {}, "G/" + tag)
                if v == "drift":
                    ndrift += 1
                    if len(drift_samples) < 3:
                        drift_samples.append({"history": [fmt_ask(a) for a in c["asks"]], "expected": [e["r"] for e in c["exp"]],
                                              "observed": [e["r"] for e in obs]})
                elif v == "bad":
                    nbad += 1
                if len(c["asks"]) > 1 and any(e["r"] not in ("denied",) for e in c["exp"]):
                    o.shape(("gate", tag, tuple((a["o"], a["n"], a["m"], a["b"]) for a in c["asks"])))
            summary["universes"][tag] = {"objects": [x["id"] + ":" + x["kind"] for x in u["objs"]], "names": [n["n"] for n in u["names"]],
                                         "modes": u["modes"], "bounds": u["bounds"], "maxlen": u["maxlen"],
                                         "histories": len(cases), "histories_breaking_under_deviation": breaks,
                                         "violating": nbad}
            o.sample({"gate_history": [fmt_ask(a) for a in cases[-1]["asks"]], "expected": [e["r"] for e in cases[-1]["exp"]],
                      "observed": [e["r"] for e in obs_all[-1]]})
        # ---- V
        ver = res["Trace_gate"].tagged("VERDICT")
        if len(ver) != 1 or ver[0]["consumed"] != len(self.rand):
            raise common.TLCError("Trace_SandboxGate did not consume every recorded history")
        o.evaluations += sum(len(h) for h in self.rand)
        o.traces += len(self.rand)
        for b in ver[0]["bad"]:
            i = b["h"] - 1
            self.report(self.rand[i], [proj(e) for e in b["expected"]], self.rand_obs[i], sorted(b["explained"]), "V/random")
        for b in ver[0]["drift"]:
            i = b["h"] - 1
            ndrift += 1
            if len(drift_samples) < 3:
                drift_samples.append({"history": [fmt_ask(a) for a in self.rand[i]], "expected": [e["r"] for e in b["expected"]],
                                      "observed": [e["r"] for e in self.rand_obs[i]]})
        summary["random_histories"] = {"replayed_by_TLC": len(self.rand), "bad": len(ver[0]["bad"]), "drift": len(ver[0]["drift"])}
        if ndrift:
            o.note_drift({"gate_answers_differ_without_forbidden_value": ndrift, "samples": drift_samples})
        self.timing["generated_histories_for_real_s"] = round(time.time() - t0, 2)
        summary["timing"] = self.timing
        o.extra["gate"] = summary

    def judge(self, asks, exp, obs, alt, origin) -> str:
        if [proj(e) for e in obs] == exp:
            return "ok"
        if any(e["r"] == "noobj" for e in obs):
            return "drift"
        leaks = [i for i, (e, x) in enumerate(zip(obs, exp)) if e["r"] == "val" and e["cls"] and proj(e) != x]
        if not leaks:
            return "drift"
        explained = sorted(l for l, a in alt.items() if [proj(e) for e in a] == [proj(e) for e in obs])
        self.report(asks, exp, obs, explained, origin)
        return "bad"

    def report(self, asks, exp, obs, explained, origin):
        leaks = [i for i, (e, x) in enumerate(zip(obs, exp)) if e["r"] == "val" and e["cls"] and proj(e) != x]
        if not leaks:
            return
        i = leaks[0]
        e, a = obs[i], asks[i]
        before = "; ".join(f"{fmt_ask(b)} -> {ob['r']}" for b, ob in zip(asks[:i], obs[:i])) or "nothing"
        holds = " and, taking it apart, holds the processing context itself (identity checked)" if e.get("module_holds_context") else \
                (f" and, taking it apart, holds {e['module_holds']}" if e.get("module_holds") else "")
        why = (f"the gate on the Lua-Python bridge answers by HISTORY: in a fresh runtime, after the lookups [{before}] "
               f"the module's lookup {fmt_ask(a)} is answered with {e['cls']} ({e.get('what', '')}){holds}; "
               f"the design (attribute filter: partial helpers and underscore names denied on every lookup) answers "
               f"'{exp[i]['r']}' here whatever came before, and the same lookup made first in a runtime is refused")
        if explained:
            why += f"; the observed answers are exactly those of the modelled deviation {'/'.join(explained)}"
        case = {"kind": "gate", "origin": origin, "asks": asks, "expected": exp,
                "observed": [{k: v for k, v in ob.items()} for ob in obs]}
        self.o.violation(case, why, cls=f"gate|{(explained or ['unexplained'])[0]}|{e['cls']}")


def replay_case(case) -> int:
    with Scratch("c06gr-") as d:
        common.use_repo()
        obs = run_history(case["asks"], d, 0)
    bad = 0
    for a, x, ob in zip(case["asks"], case["expected"], obs):
        flag = ""
        if ob["r"] == "val" and ob["cls"] and proj(ob) != proj(x):
            flag = "   <== forbidden value handed to the module"
            bad = 1
        print(f"  {fmt_ask(a):60s} expected {x['r']:8s} observed {ob['r']} {ob['cls']}{flag}")
    return bad


def selftest() -> bool:
    """corrupt one expected answer of a generated history / one recorded answer of a trace: both rejected"""
    ok = True
    with Scratch("c06gt-") as d:
        disc = discover(d)
        tag, u = tier_universes(disc, "quick")[0]
        (d / "u.json").write_text(json.dumps(u))
        cases = tlc("Gen_SandboxGate", "Gen_SandboxGate.cfg", workers=1, env={"GATE_FILE": str(d / "u.json")}).cases
        c = next(c for c in cases if len(c["asks"]) == 2 and c["exp"][1]["r"] == "denied" and c["breaks"])
        obs = run_history(c["asks"], d, 0)

        class O:  # minimal Outcome stand-in
            def __init__(self):
                self.v = []

            def violation(self, case, why, cls=None):
                self.v.append(why)
        g = Gate.__new__(Gate)
        g.o = O()
        good = g.judge(c["asks"], [proj(e) for e in c["exp"]], obs, {}, "selftest")
        # the real answer replaced by what a memoising gate would have handed out
        fake = [dict(e) for e in obs]
        fake[1] = {"r": "val", "cls": "tuple>py:Wtp", "what": "(corrupted)"}
        bad = g.judge(c["asks"], [proj(e) for e in c["exp"]], fake, c["alt"] if isinstance(c["alt"], dict) else {}, "selftest")
        print("gate: generated history", [fmt_ask(a) for a in c["asks"]], "real answers:", good, "; corrupted observation:", bad)
        ok &= good == "ok" and bad == "bad" and len(g.o.v) == 1
        # trace: same corruption in the recorded file -> TLC lists the history as bad and names the deviation
        tr = universe(disc, [x["id"] for x in disc["objs"]], NAMES_V, ["get", "set"], ["same", "invoke", "page"], 8)
        lab = sorted(c["breaks"])[0]
        alt = c["alt"][lab]
        tr["histories"] = [[dict(a, **proj(e)) for a, e in zip(c["asks"], obs)], [dict(a, **proj(e)) for a, e in zip(c["asks"], alt)]]
        (d / "t.json").write_text(json.dumps(tr))
        ver = tlc("Trace_SandboxGate", "Trace_SandboxGate.cfg", workers=1, env={"TRACE_FILE": str(d / "t.json")}).tagged("VERDICT")[0]
        print("gate: trace with one real and one corrupted history: bad =", [(b["h"], sorted(b["explained"])) for b in ver["bad"]])
        ok &= [b["h"] for b in ver["bad"]] == [2] and lab in ver["bad"][0]["explained"]
    return ok
