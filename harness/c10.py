"""C10 — the page store returns the latest version of every page under every spelling.

M  TLC: MC_PageStore_norm (read-side normalisation == reference on every reachable
        store), MC_PageStore_memo (memo coherence, observed lookups == reference,
        commit only publishes), Demo_* (the old design with the never-invalidated
        memo is shown to violate the invariant).
G  TLC Gen_PageStore: every add/redirect/commit history up to the bound, with the
        reference lookup table of every state; each history is replayed into a real
        Wtp on a real SQLite file in two probing schedules (eager: probe after every
        step, so the memo is always populated before the next write; lazy: probe at
        the end only) plus a probe through a *new* context on the same file.
   TLC -simulate: longer random behaviours of the same spec, replayed the same way.
S  the namespace table of a site as the model's constant (PageStore.tla Ns*, MC_PageStore S_*):
        MC_PageStore_site / Demo_PageStore_canon_unfolded on the built-in English excerpt, and
        Gen_PageStore_M over the shipped language configurations (data/<lang>/namespaces.json as
        the real context holds it): TLC derives which spellings name which namespace (local name,
        canonical name, aliases, each in every letter case, blanks as underscores), enumerates the
        histories and the lookup table; replayed into a Wtp(lang_code=<lang>).
V  random long histories over a wider title universe recorded from the real code and
        validated by TLC against Trace_PageStore.
"""
from __future__ import annotations

import json
import os
import re
import random
import shutil
import tempfile
import time
from pathlib import Path

import common
from common import Outcome, tlc, pmap, Scratch

PID = "C10"
NONS = 9999

ATOM = {"SP": " ", "US": "_"}


def conc(atoms) -> str:
    return "".join(ATOM.get(a, a) for a in atoms)


def conc_red(r):
    return None if list(r) == ["-"] else conc(r)


NOTFOUND = {"found": False, "title": [], "ns": 0, "redirect": ["-"], "body": "", "model": ""}
BODY = {"b1": "body one", "b2": "second body\nline", "": None}


def res_of_page(p):
    if p is None:
        return None
    return (p.title, p.namespace_id, p.redirect_to, p.body, p.model)


def res_of_exp(r):
    if not r["found"]:
        return None
    return (conc(r["title"]), r["ns"], conc_red(r["redirect"]), BODY[r["body"]], r["model"])


def new_ctx(path, lang="en"):
    from wikitextprocessor import Wtp

    if lang == "en":
        return Wtp(db_path=str(path), quiet=True)
    return Wtp(db_path=str(path), lang_code=lang, quiet=True)


def apply_op(ctx, op):
    if op["op"] == "add":
        ctx.add_page(
            conc(op["title"]),
            op["ns"],
            body=BODY[op["body"]],
            redirect_to=conc_red(op["redirect"]),
        )
    elif op["op"] == "commit":
        ctx.db_conn.commit()
    else:
        raise ValueError(op)


def probe(ctx, args, table, where, hist, out):
    """Compare every lookup of the universe with the spec's table."""
    results = [res_of_exp(r) for r in table["results"]]
    n = 0
    for i, a in enumerate(args):
        t = conc(a["title"])
        ns = None if a["ns"] == NONS else a["ns"]
        exp_get = results[table["get"][i] - 1]
        exp_res = results[table["res"][i] - 1]
        got = res_of_page(ctx.get_page(t, ns, a["nr"]))
        n += 1
        if got != exp_get:
            out.append({"hist": hist, "where": where, "call": ["get_page", t, ns, a["nr"]], "expected": exp_get, "got": got})
        if not a["nr"]:
            got = res_of_page(ctx.get_page_resolve_redirect(t, ns))
            n += 1
            if got != exp_res:
                out.append({"hist": hist, "where": where, "call": ["get_page_resolve_redirect", t, ns], "expected": exp_res, "got": got})
            if ns is not None:
                e = ctx.page_exists(t, ns)
                n += 1
                if e != (exp_get is not None):
                    out.append({"hist": hist, "where": where, "call": ["page_exists", t, ns], "expected": exp_get is not None, "got": e})
            b = ctx.get_page_body(t, ns)
            n += 1
            if b != (exp_res[3] if exp_res else None):
                out.append({"hist": hist, "where": where, "call": ["get_page_body", t, ns], "expected": exp_res[3] if exp_res else None, "got": b})
    return n


_G = {}


def replay_chunk(chunk):
    """chunk: list of (hist, mode) or (set key, hist, mode). Uses globals _G['args'], _G['tables'], _G['lang']
    or, with a set key, _G['sets'][key] = (args, tables, lang)."""
    common.use_repo()
    res = []
    d = Path(tempfile.mkdtemp(prefix="c10-"))
    try:
        for k, item in enumerate(chunk):
            if len(item) == 3:
                key, hist, mode = item
                args, tables, lang = _G["sets"][key]
            else:
                key, (hist, mode) = None, item
                args, tables, lang = _G["args"], _G["tables"], _G.get("lang", "en")
            bad: list = []
            ncalls = 0
            path = d / f"db{k}" / "pages.db"
            path.parent.mkdir()
            ctx = new_ctx(path, lang)
            try:
                if mode == "eager":
                    ncalls += probe(ctx, args, tables[common.json_key([])]["cur"], "after 0 ops", hist, bad)
                for i, op in enumerate(hist):
                    apply_op(ctx, op)
                    if mode == "eager" or i == len(hist) - 1:
                        tb = tables[common.json_key(hist[: i + 1])]
                        ncalls += probe(ctx, args, tb["cur"], f"after {i+1} ops ({mode})", hist, bad)
                # a new context on the same file sees exactly the committed rows
                tb = tables[common.json_key(hist)]
                comtab = tb["cur"] if tb["com"]["same"] else tb["com"]
                ctx2 = new_ctx(path, lang)
                try:
                    ncalls += probe(ctx2, args, comtab, "new context on the same file", hist, bad)
                finally:
                    ctx2.db_conn.close()
            except Exception as e:  # an exception is a failure of the real API
                bad.append({"hist": hist, "where": "exception", "call": [], "expected": "no exception", "got": repr(e)})
            finally:
                try:
                    ctx.db_conn.close()
                except Exception:
                    pass
                shutil.rmtree(path.parent, ignore_errors=True)
            res.append({"key": key, "hist": hist, "mode": mode, "calls": ncalls, "bad": bad[:3], "nbad": len(bad)})
    finally:
        shutil.rmtree(d, ignore_errors=True)
    return res


def load_gen(r):
    args = r.tagged("ARGS")[0]
    tables = {}
    for c in r.cases:
        tables[common.json_key(c["hist"])] = {"cur": c["cur"], "com": c["com"]}
    return args, tables


def run_replay(o: Outcome, name, args, tables, hists_modes):
    _G["args"] = args
    _G["tables"] = tables
    res = pmap(replay_chunk, hists_modes)
    for r in res:
        o.evaluations += r["calls"]
        o.traces += 1
        o.shape(("hist", common.json_key(r["hist"])))
        if r["nbad"]:
            b = r["bad"][0]
            o.violation(
                {"kind": "G", "gen": name, "hist": r["hist"], "mode": r["mode"], "first_bad": b},
                f"{b['call'][0] if b['call'] else 'exception'} disagrees with the specification ({b['where']}): returned {b['got']!r}, required {b['expected']!r}",
                cls=(b['call'][0] if b['call'] else 'exception') + re.sub(r'[0-9]+', 'N', b['where']),
            )
    return res


# ---------------------------------------------------------------------------
# S: the namespace table of a site as the model's constant
# ---------------------------------------------------------------------------
# TLC prints JSON on stdout in the platform charset; names of other languages are not ASCII
TLC_UTF8 = {"JAVA_TOOL_OPTIONS": "-Dfile.encoding=UTF-8 -Dstdout.encoding=UTF-8 -Dsun.stdout.encoding=UTF-8"}
SITE_QUICK = ["en", "fr"]          # + one more chosen by the seed


def languages():
    common.use_repo()
    import wikitextprocessor

    d = Path(wikitextprocessor.__file__).parent / "data"
    return sorted(p.name for p in d.iterdir() if (p / "namespaces.json").is_file())


def fold_of(spelling: str) -> str:
    """The letter-case / blank facts about a prefix spelling that TLC cannot compute."""
    return spelling.replace("_", " ").lower()


def spelling_variants(name: str, wide: bool):
    vs = {name, name.lower(), name.upper()}
    if wide:
        vs |= {name.swapcase(), name.title(), name[:1].lower() + name[1:]}
    # only genuine other-case writings of the same name (dotless i, sharp s ... are left out)
    vs = {v for v in vs if v.lower() == name.lower() and v.casefold() == name.casefold()}
    if " " in name:
        vs |= {name.replace(" ", "_"), name.lower().replace(" ", "_")}
    return vs


def entry_names(e):
    return [e["local"], e["canonical"]] + list(e["aliases"])


def site_table(lang: str, wide: bool = False, select=None):
    """The namespace table the real context of `lang` holds (init_namespace_data), the namespaces to
    exercise (those whose local name differs from the canonical one first) and the spelling universe."""
    common.use_repo()
    with Scratch("c10s-") as d:
        (d / "x").mkdir()
        w = new_ctx(d / "x" / "p.db", lang)
        nsd = w.NAMESPACE_DATA
        w.db_conn.close()
    entries = [{"id": v["id"], "canonical": key, "local": v["name"], "aliases": list(v["aliases"])} for key, v in nsd.items()]
    by_id = {e["id"]: e for e in entries}
    if select is None:
        differs = lambda i: i in by_id and by_id[i]["canonical"] != by_id[i]["local"]
        order = [4, 10, 828, 14, 5, 12, 2, 1] + sorted(i for i in by_id if i > 15)
        select = [i for i in order if differs(i)][:2]
        for i in [i for i in order if i in by_id and by_id[i]["aliases"]] + [10, 4, 828]:
            if len(select) < 2 and i in by_id and i not in select:
                select.append(i)
    fold = {}
    for e in entries:
        if e["id"] != 0:
            for n in entry_names(e):
                fold[n + ":"] = fold_of(n) + ":"
    for i in select:
        for n in entry_names(by_id[i]):
            for v in spelling_variants(n, wide):
                fold[v + ":"] = fold_of(v) + ":"
    return {"lang": lang, "nstab": entries, "fold": fold, "namespaces": select}


def gen_sites(sites):
    """Gen_PageStore_M over the namespace tables of `sites` (one TLC run walks them all)
    -> (TLCResult, {lang: (args, tables, SITE record)})."""
    with Scratch("c10s-") as d:
        f = d / "sites.json"
        f.write_text(json.dumps({"sites": sites}))
        r = tlc("Gen_PageStore", "Gen_PageStore_M.cfg", workers=1, timeout=6000, env={"NS_FILE": str(f), **TLC_UTF8})
    out = {}
    infos = {c["site"]: c for c in r.tagged("SITE")}
    tables = {i: {} for i in infos}
    for c in r.cases:
        tables[c["site"]][common.json_key(c["hist"])] = {"cur": c["cur"], "com": c["com"]}
    for i, site in enumerate(sites, 1):
        info = infos.get(i)
        if info is None or info["lang"] != site["lang"]:
            raise common.TLCError(f"Gen_PageStore_M printed no SITE record for {site['lang']}")
        if not set(info["pfxns"]) <= set(site["fold"]) or sorted(info["namespaces"]) != sorted(site["namespaces"]):
            raise common.TLCError(f"namespace table of {site['lang']} did not survive the transport to TLC")
        out[site["lang"]] = (info["args"], tables[i], info)
    return r, out


def describe_prefix(site, info, title: str):
    """Words for the report only: which name of which namespace the prefix of `title` spells -> (class, text)."""
    for p in sorted(info["pfxns"], key=len, reverse=True):
        if title.startswith(p):
            e = next(x for x in site["nstab"] if x["id"] == info["pfxns"][p])
            f = site["fold"].get(p, p)
            kind = ("local name" if f == fold_of(e["local"]) + ":" else
                    "canonical name" if f == fold_of(e["canonical"]) + ":" else "alias")
            how = "" if p[:-1] in entry_names(e) else " in another letter case" + (" / with underscores" if "_" in p else "")
            return kind + how, (
                f"prefix {p!r} is the {kind}{how} of namespace {e['id']} (canonical {e['canonical']!r}, local {e['local']!r}, "
                f"aliases {e['aliases']!r}) in the namespace table of lang_code={site['lang']!r}")
    return "no prefix", f"the title is written without a namespace prefix (lang_code={site['lang']!r})"


def start_sites(plan, tier):
    t0 = time.time()
    h = _start_sites(plan, tier)
    h["wall"] = time.time() - t0
    return h


def _start_sites(plan, tier):
    """plan: list of (lang, maxlen, eager_stride, wide). Starts the TLC runs of the namespace-table engine
    (they run beside the other engines' TLC runs) -> handle for finish_sites."""
    import concurrent.futures as cf

    sites = {lang: dict(site_table(lang, wide), maxlen=maxlen) for lang, maxlen, _, wide in plan}
    order = [sites[lang] for lang, _, _, _ in plan]
    # the sites with the long histories in one run, the others in runs of 60
    big = [x for x in order if x["maxlen"] > 1]
    small = [x for x in order if x["maxlen"] <= 1]
    batches = ([big] if big else []) + [small[i : i + 60] for i in range(0, len(small), 60)]
    ex = cf.ThreadPoolExecutor(max_workers=4)
    futs = {
        "MC_site": ex.submit(tlc, "MC_PageStore", "MC_PageStore_site.cfg", workers=4, timeout=1800),
        "Demo": ex.submit(tlc, "MC_PageStore", "Demo_PageStore_canon_unfolded.cfg", workers=1, check=False),
    }
    for k, b in enumerate(batches):
        futs[("gen", k)] = ex.submit(gen_sites, b)
    return {"plan": plan, "sites": sites, "futs": futs, "ex": ex}


def finish_sites(o: Outcome, h):
    t0 = time.time()
    try:
        _finish_sites(o, h)
    finally:
        o.extra["site_engine_wall_s"] = round(h["wall"] + time.time() - t0, 1)


def _finish_sites(o: Outcome, h):
    plan, sites = h["plan"], h["sites"]
    try:
        done = {k: f.result() for k, f in h["futs"].items()}
    finally:
        h["ex"].shutdown(wait=True)
    o.add_tlc("MC_site", done["MC_site"])
    o.extra["demo_unfolded_canonical_name_violates_invariant"] = bool(done["Demo"].invariant_violated)
    if not done["Demo"].invariant_violated:
        raise common.TLCError("Demo_PageStore_canon_unfolded no longer shows the unrecognised canonical name (vacuity guard)")
    gens = {}
    for k, v in done.items():
        if isinstance(k, tuple):
            o.add_tlc(f"Gen_sites[{k[1]}] x{len(v[1])}", v[0])
            gens.update(v[1])
    sets, work, skipped = {}, [], []
    for lang, maxlen, stride, _ in plan:
        args, tables, info = gens[lang]
        if not info["wellformed"]:   # a spelling that names two namespaces: the statement has no single answer
            skipped.append(lang)
            o.note_drift({"site": lang, "what": "ambiguous namespace table, not replayed"})
            continue
        if not info["code_meets_statement"]:
            o.note_drift({"site": lang, "what": "the table namespace_prefixes builds (as modelled) differs from the statement's on this data"})
        sets[lang] = (args, tables, lang)
        hists = [json.loads(k) for k in tables]
        top = max(len(x) for x in hists)
        work += [(lang, x, "lazy") for x in hists if x]
        work += [(lang, x, "eager") for x in [x for x in hists if len(x) == top][::stride]]
    _G["sets"] = sets
    res = pmap(replay_chunk, work)
    for r in res:
        o.evaluations += r["calls"]
        o.traces += 1
        o.shape(("site", r["key"], common.json_key(r["hist"])))
        if r["nbad"]:
            b = r["bad"][0]
            site, info = sites[r["key"]], gens[r["key"]][2]
            call = b["call"][0] if b["call"] else "exception"
            kind, spelled = describe_prefix(site, info, b["call"][1]) if b["call"] else ("", "")
            if kind == "no prefix" and call in ("get_page_resolve_redirect", "get_page_body"):
                # the spelling that matters may be the one the redirect is written with
                for op in r["hist"]:
                    if op["op"] == "add" and conc_red(op["redirect"]) is not None:
                        k2, s2 = describe_prefix(site, info, conc_red(op["redirect"]))
                        kind, spelled = "redirect written with " + k2, f"the redirect in this history is written {conc_red(op['redirect'])!r}: {s2}"
            o.violation(
                {"kind": "S", "lang": r["key"], "namespaces": site["namespaces"], "hist": r["hist"], "mode": r["mode"], "first_bad": b},
                (f"{call}({', '.join(repr(x) for x in b['call'][1:])}) returned {b['got']!r}, the specification requires {b['expected']!r} "
                 f"({b['where']}): a lookup returns the stored page however the namespace prefix is written; {spelled}") if b["call"] else
                f"exception {b['got']} while replaying a history with lang_code={r['key']!r}",
                cls=f"S:{call}:{kind}:" + re.sub(r"[0-9]+", "N", b["where"]),
            )
    o.extra["site_tables"] = {
        "languages": len(sets), "skipped_ambiguous": skipped,
        "namespaces": {l: sites[l]["namespaces"] for l in list(sets)[:12]},
        "lookups_per_probe": {l: len(sets[l][0]) for l in list(sets)[:12]},
        "histories_replayed": len(work),
    }
    if sets:
        l0 = list(sets)[min(1, len(sets) - 1)]
        o.sample({"site": l0, "namespaces": sites[l0]["namespaces"],
                  "prefix_spellings": {p: n for p, n in gens[l0][2]["pfxns"].items() if n in sites[l0]["namespaces"]}})


def site_plan(tier):
    langs = languages()
    rng = random.Random(common.seed() * 7919 + 1010)
    extra = rng.choice([l for l in langs if l not in SITE_QUICK])
    main = [l for l in SITE_QUICK if l in langs] + [extra]
    if tier != "thorough":
        return [(l, 2, 4, False) for l in main]
    return [(l, 2, 1, True) for l in main] + [(l, 1, 1, False) for l in langs if l not in main]


# ---------------------------------------------------------------------------
# V: recorded random histories validated by TLC
# ---------------------------------------------------------------------------

V_NS_EN = [10, 828, 100, 14, 110, 4, 5]   # 4/5: local name (Wiktionary) differs from the canonical one (Project)


def wide_universe(rng, lang="en"):
    """Atom tables + concrete spellings for a wider universe than the MC one. The namespace table of the
    site and the letter-case facts go to TLC (which derives PfxNs / CanonPfx itself); `pfxns` / `canon`
    here only steer the random generation and the tokenisation of recorded titles."""
    chosen = V_NS_EN if lang == "en" else None
    site = site_table(lang, wide=True, select=chosen)
    if chosen is None:
        ids = {e["id"] for e in site["nstab"]}
        chosen = site["namespaces"] + [i for i in (10, 828, 14) if i in ids and i not in site["namespaces"]]
        site = site_table(lang, wide=True, select=chosen)
    # a prefix atom with an underscore inside is only defined as the prefix of its own namespace (MC_PageStore)
    fold = {p: f for p, f in site["fold"].items() if "_" not in p}
    pfxns, canon = {}, {}
    for e in site["nstab"]:
        if e["id"] == 0:
            continue
        canon[str(e["id"])] = e["local"] + ":"
        folded = {fold_of(n) + ":" for n in entry_names(e)}
        for p, f in fold.items():
            if f in folded:
                pfxns[p] = e["id"]
    upper = {}
    firsts = ["f", "F", "é", "É", "z", "Z", "9", "ñ", "Ñ"]
    for c in firsts:
        upper[c] = c.upper()
    words = ["oo", "ar baz", "'s", "/doc", "-x", ":w", "R:Webster"]
    return {"pfxns": pfxns, "canon": canon, "upper": upper, "firsts": firsts, "words": words, "ns": chosen,
            "nstab": site["nstab"], "fold": fold, "lang": lang}


def rand_title(rng, u, ns, write: bool):
    first = rng.choice(u["firsts"])
    atoms = [first]
    for _ in range(rng.randint(1, 2)):
        w = rng.choice(u["words"])
        for j, part in enumerate(w.split(" ")):
            if j:
                atoms.append("SP" if write or rng.random() < 0.6 else "US")
            atoms.append(part)
    if ns not in (0, None):
        can = u["canon"][str(ns)]
        if write:
            if rng.random() < 0.5:
                atoms = [can] + atoms
        else:
            r = rng.random()
            if r < 0.3:
                atoms = [can] + atoms
            elif r < 0.7:
                opts = [p for p, n in u["pfxns"].items() if n == ns]
                atoms = [rng.choice(opts)] + atoms
    return atoms


def record_traces(rng, u, ntraces, length):
    """Run random histories on the real store; return the event list."""
    events = []
    with Scratch("c10v-") as d:
        for tid in range(ntraces):
            path = d / f"t{tid}" / "p.db"
            path.parent.mkdir()
            ctx = new_ctx(path, u["lang"])
            events.append({"op": "reset", "tid": tid})
            written: list = []
            try:
                for _ in range(length):
                    r = rng.random()
                    ns = rng.choice([0, u["ns"][0]] + u["ns"])
                    if r < 0.3 or not written:
                        t = rand_title(rng, u, ns, True)
                        if written and rng.random() < 0.4:
                            t, ns = rng.choice(written)  # overwrite
                        red = None
                        if written and rng.random() < 0.25:
                            cands = [w for w in written if w[1] == ns]
                            if cands:
                                rt = rng.choice(cands)[0]
                                red = rt if ns == 0 or rt[0] == u["canon"][str(ns)] else [u["canon"][str(ns)]] + rt
                        body = f"B{rng.randint(0, 9)}" if red is None else None
                        model = rng.choice(["wikitext", "Scribunto", "json"])
                        ctx.add_page(conc(t), ns, body=body, redirect_to=conc(red) if red else None, model=model)
                        written.append((t, ns))
                        events.append({"op": "add", "tid": tid, "title": t, "ns": ns, "redirect": red or ["-"], "body": body or "", "model": model})
                    elif r < 0.36:
                        ctx.db_conn.commit()
                        events.append({"op": "commit", "tid": tid})
                    else:
                        # look up something related to a written page, or random
                        if written and rng.random() < 0.8:
                            wt, wns = rng.choice(written)
                            base = [a for a in wt if a not in u["pfxns"]]
                            ns = wns if rng.random() < 0.85 else rng.choice([None, 0, u["ns"][0]])
                            t = list(base)
                            if rng.random() < 0.4:
                                t[0] = t[0].lower() if rng.random() < 0.7 else t[0].upper()
                            t = ["US" if a == "SP" and rng.random() < 0.4 else a for a in t]
                            if ns not in (0, None):
                                rr = rng.random()
                                opts = [p for p, n in u["pfxns"].items() if n == ns]
                                if rr < 0.6:
                                    t = [rng.choice(opts)] + t
                            elif ns is None and wns != 0 and rng.random() < 0.7:
                                t = [u["canon"][str(wns)]] + t
                        else:
                            ns = rng.choice([None, 0] + u["ns"][:3] + u["ns"][-2:])
                            t = rand_title(rng, u, ns, False)
                        kind = rng.choice(["get", "get", "resolve", "exists", "body", "reopen_get", "count", "all"])
                        if kind in ("count", "all"):
                            has_ns = rng.random() < 0.7
                            nsl = sorted(set(rng.choice([0] + u["ns"]) for _ in range(rng.randint(1, 3)))) if has_ns else []
                            redirects = rng.random() < 0.6
                            has_model = rng.random() < 0.4
                            model = rng.choice(["wikitext", "Scribunto", "json"]) if has_model else ""
                            ev = {"op": kind, "tid": tid, "hasNs": has_ns, "nsl": nsl, "redirects": redirects, "hasModel": has_model, "model": model}
                            kw = dict(namespace_ids=nsl if has_ns else None, include_redirects=redirects, model=model if has_model else None)
                            if kind == "count":
                                ev["res"] = {"n": ctx.saved_page_nums(**kw)}
                            else:
                                ev["res"] = {"rows": [abs_page(p, u) for p in ctx.get_all_pages(**kw)]}
                            events.append(ev)
                            continue
                        nr = rng.random() < 0.3
                        ev = {"op": kind, "tid": tid, "title": t, "ns": NONS if ns is None else ns, "nr": nr}
                        ts = conc(t)
                        if kind == "get":
                            ev["res"] = abs_page(ctx.get_page(ts, ns, nr), u)
                        elif kind == "resolve":
                            ev["res"] = abs_page(ctx.get_page_resolve_redirect(ts, ns), u)
                        elif kind == "exists":
                            if ns is None:
                                continue
                            ev["res"] = {"found": bool(ctx.page_exists(ts, ns))}
                        elif kind == "body":
                            b = ctx.get_page_body(ts, ns)
                            ev["res"] = {"found": b is not None, "body": b or ""}
                        else:
                            c2 = new_ctx(path, u["lang"])
                            try:
                                ev["res"] = abs_page(c2.get_page(ts, ns, nr), u)
                            finally:
                                c2.db_conn.close()
                        events.append(ev)
            finally:
                ctx.db_conn.close()
    return events


def tokenize(s, u):
    """Concrete title -> atoms (inverse of conc for the generator's alphabet)."""
    atoms = []
    for p in sorted(u["pfxns"], key=len, reverse=True):
        if s.startswith(p):
            atoms.append(p)
            s = s[len(p):]
            break
    if s:
        atoms.append(s[0])
        rest = s[1:]
        cur = ""
        for ch in rest:
            if ch in " _":
                if cur:
                    atoms.append(cur)
                    cur = ""
                atoms.append("SP" if ch == " " else "US")
            else:
                cur += ch
        if cur:
            atoms.append(cur)
    return atoms


def retok(atoms, u):
    return tokenize(conc(atoms), u)


def abs_page(p, u):
    if p is None:
        return {"found": False, "title": [], "ns": 0, "redirect": ["-"], "body": "", "model": ""}
    return {
        "found": True,
        "title": tokenize(p.title, u),
        "ns": p.namespace_id,
        "redirect": tokenize(p.redirect_to, u) if p.redirect_to is not None else ["-"],
        "body": p.body or "",
        "model": p.model or "",
    }


def normalise_events(events, u):
    """Canonical tokenisation of every title in the trace (word atoms are split at
    blanks the same way on both sides)."""
    for e in events:
        if "title" in e:
            e["title"] = retok(e["title"], u)
        if e.get("op") == "add" and e["redirect"] != ["-"]:
            e["redirect"] = retok(e["redirect"], u)
    return events


def validate_trace(o: Outcome, events, u, name="Trace_PageStore"):
    with Scratch("c10t-") as d:
        tf = d / "trace.json"
        # the namespace table of the site, not ready-made atom tables: TLC derives PfxNs / CanonPfx (PageStore.tla Ns*)
        tf.write_text(json.dumps({"nstab": u["nstab"], "fold": u["fold"], "upper": u["upper"], "events": events}))
        cfg = "SPECIFICATION TSpec\nINVARIANT Verdict\nINVARIANT Coherent\nPOSTCONDITION Accepted\nCHECK_DEADLOCK FALSE\n"
        r = tlc("Trace_PageStore", "trace.cfg", cfg_text=cfg, workers=1, env={"TRACE_FILE": str(tf), **TLC_UTF8}, timeout=1800)
    o.add_tlc(name, r)
    v = r.tagged("VERDICT")
    if not v:
        raise common.TLCError("trace validation printed no verdict")
    v = v[0]
    if v["consumed"] != len(events):
        raise common.TLCError(f"trace consumed {v['consumed']} of {len(events)} events")
    if not v["tableok"]:
        raise common.TLCError(f"ambiguous namespace table in the recorded universe ({u['lang']})")
    return v["bad"]


def run_v(o: Outcome, ntraces, length, lang="en"):
    rng = random.Random(common.seed() * 7919 + 10 + (0 if lang == "en" else sum(map(ord, lang))))
    u = wide_universe(rng, lang)
    events = normalise_events(record_traces(rng, u, ntraces, length), u)
    bad = validate_trace(o, events, u, name="Trace_PageStore" + ("" if lang == "en" else f"[{lang}]"))
    o.traces += ntraces
    o.evaluations += len(events)
    o.extra["trace_events"] = o.extra.get("trace_events", 0) + len(events)
    for e in events:
        if e["op"] not in ("reset", "commit"):
            o.shape(("ev", e["op"], common.json_key(e.get("title")), e.get("ns")))
    seen = set()
    for b in bad:
        ev = events[b["i"] - 1]
        if b["tid"] in seen:
            continue
        seen.add(b["tid"])
        # cut out the offending trace up to the failing event for the replay
        start = max(i for i in range(b["i"]) if events[i]["op"] == "reset")
        o.violation(
            {"kind": "V", "lang": lang, "universe": {k: u[k] for k in ("pfxns", "canon", "upper")}, "events": events[start : b["i"]]},
            (f"{ev['op']}({conc(ev['title'])!r}, ns={ev['ns']}) returned {ev['res']!r}; specification: {b['expected']!r}" if "title" in ev else
             f"{ev['op']}(namespaces={ev.get('nsl')}, redirects={ev.get('redirects')}, model={ev.get('model')!r}) returned {str(ev['res'])[:300]}; specification: {b['expected']!r}"),
            cls="V:" + ev["op"],
        )
    if events:
        o.sample({"recorded_trace_prefix": events[1:5]})


# ---------------------------------------------------------------------------

def run(tier: str) -> int:
    o = Outcome(PID, tier)
    o.rule = (
        "G: every add/redirect/commit history up to MaxLen over the bounded title universe is one case "
        "(distinct by history), replayed eager+lazy and through a new context, comparing the full lookup table; "
        "S: the same per shipped language configuration, the namespace table being the constant (2 namespaces whose local name differs "
        "from the canonical one, every spelling of their names), distinct by (language, history); "
        "V: random histories, distinct by (op,title,ns) of each event. A case is non-trivial when it contains a write."
    )
    o.assumptions = [
        "titles are added with spaces (never underscores) and with the canonical prefix or none, as dumps do",
        "TLC 1.8 + CommunityModules Json/IOUtils; SQLite as shipped with /venv python",
        "letter case of namespace names is a table handed to TLC (Python str.lower, '_' = ' '); spellings whose lower()/casefold() "
        "differ from the name's (dotless i, sharp s ...) are not in the universe; the canonical (English) name of a namespace counts "
        "as a spelling of its prefix on every site",
    ]
    thorough = tier == "thorough"
    sites = start_sites(site_plan(tier), tier)   # TLC runs of the namespace-table engine, beside the others
    # ---- M
    r = tlc("MC_PageStore", "MC_PageStore_norm_T.cfg" if thorough else "MC_PageStore_norm.cfg", workers=16, timeout=1800)
    o.add_tlc("MC_norm", r)
    r = tlc("MC_PageStore", "MC_PageStore_memo_T.cfg" if thorough else "MC_PageStore_memo.cfg", workers=16, timeout=1800, coverage=True)
    o.add_tlc("MC_memo", r)
    cov = r.coverage_actions()
    o.extra["action_coverage"] = {k: v[1] for k, v in cov.items()}
    r = tlc("MC_PageStore", "Demo_PageStore_memo_asis.cfg", workers=4, check=False)
    o.extra["demo_asis_memo_violates_invariant"] = bool(r.invariant_violated)
    if not r.invariant_violated:
        raise common.TLCError("Demo config no longer shows the never-invalidated-memo counterexample (vacuity guard)")
    # ---- G exhaustive
    r = tlc("Gen_PageStore", "Gen_PageStore_T.cfg" if thorough else "Gen_PageStore_Q.cfg", workers=1, timeout=3000)
    o.add_tlc("Gen", r)
    args, tables = load_gen(r)
    hists = [json.loads(k) for k in tables]
    maxlen = max(len(h) for h in hists)
    work = [(h, "lazy") for h in hists if h] + [(h, "eager") for h in hists if len(h) == maxlen]
    run_replay(o, "exhaustive", args, tables, work)
    o.exhaustive = True
    o.sample({"history": hists[len(hists) // 2], "n_lookups_per_probe": len(args)})
    # ---- G simulate (longer behaviours)
    num = 12 if thorough else 2
    depth = 8
    r = tlc(
        "Gen_PageStore", "Sim_PageStore.cfg", workers=1, timeout=3000,
        extra=["-simulate", f"num={num}", "-depth", str(depth), "-seed", str(common.seed() + 1)],
    )
    m = re.search(r"The number of states generated: (\d+)", r.out)
    r.generated = r.distinct = int(m.group(1)) if m else 0
    o.add_tlc("Sim", r)
    sargs = r.tagged("ARGS")[0]
    stables = {common.json_key([]): tables[common.json_key([])]} if False else {}
    empty_tab = None
    maximal = []
    for c in r.tagged("SIM"):
        h = c["hist"]
        maximal.append(h)
        for k in range(1, len(h) + 1):
            stables.setdefault(common.json_key(h[:k]), {"cur": c["steps"][k - 1], "com": None})
        stables[common.json_key(h)]["com"] = c["com"]
    stables[common.json_key([])] = {"cur": {"results": [NOTFOUND], "get": [1] * len(sargs), "res": [1] * len(sargs)}, "com": {"same": True}}
    work = [(h, "eager") for h in maximal] + [(h, "lazy") for h in maximal[::2]]
    run_replay(o, "simulate", sargs, stables, work)
    if maximal:
        o.sample({"simulated_history": maximal[0]})
    # ---- S: namespace tables of the shipped language configurations
    finish_sites(o, sites)
    # ---- V
    run_v(o, 300 if thorough else 40, 40)
    if thorough:   # the same over the namespace tables of other language configurations
        for lang in [l for _, (l, _, _, _) in zip(range(3), site_plan(tier)) if l != "en"]:
            run_v(o, 40, 40, lang)
    # the repository's own test-suite as a trace source (harness/suitetrace.py)
    import suitetrace
    common.with_engine(o, "suite", lambda: suitetrace.extend(o, tier, PID))
    if tier == "thorough":  # inductive invariants of the design (Apalache; harness/apalache.py)
        import apalache
        common.with_engine(o, "inductive", lambda: apalache.extend(o, tier, PID))
    return o.finish()


def replay(path: str) -> int:
    v = json.loads(Path(path).read_text())
    if v.get("case", {}).get("engine") == "suite":
        import suitetrace
        return suitetrace.replay(path)
    case = v["case"]
    o = Outcome(PID, "quick")
    if case["kind"] == "V":
        u = case["universe"]
        common.use_repo()
        with Scratch("c10r-") as d:
            ctx = new_ctx(d / "p.db", case.get("lang", "en"))
            for e in case["events"][:-1]:
                if e["op"] == "add":
                    ctx.add_page(conc(e["title"]), e["ns"], body=e["body"] or None, redirect_to=conc_red(e["redirect"]), model=e["model"])
                elif e["op"] == "commit":
                    ctx.db_conn.commit()
                elif e["op"] in ("get",):
                    ctx.get_page(conc(e["title"]), None if e["ns"] == NONS else e["ns"], e["nr"])
                elif e["op"] in ("resolve", "body"):
                    ctx.get_page_resolve_redirect(conc(e["title"]), None if e["ns"] == NONS else e["ns"])
                elif e["op"] == "exists":
                    ctx.page_exists(conc(e["title"]), e["ns"])
            e = case["events"][-1]
            print("replaying last event", e)
            ns = None if e["ns"] == NONS else e["ns"]
            if e["op"] == "get":
                print("now:", ctx.get_page(conc(e["title"]), ns, e["nr"]))
            elif e["op"] in ("resolve", "body"):
                print("now:", ctx.get_page_resolve_redirect(conc(e["title"]), ns))
            print("spec/why:", v["why"])
        return 1
    # G: re-run the single history with a freshly generated table
    r = tlc("Gen_PageStore", "Gen_PageStore_T.cfg" if case.get("gen") != "simulate" else "Sim_PageStore.cfg", workers=1, timeout=3000) if False else None
    print(json.dumps(v, indent=1)[:3000])
    common.use_repo()
    with Scratch("c10r-") as d:
        ctx = new_ctx(d / "p.db", case.get("lang", "en"))
        b = case["first_bad"]
        for op in case["hist"]:
            apply_op(ctx, op)
        if b["call"]:
            fn = getattr(ctx, b["call"][0])
            print("re-executed (lazy schedule):", b["call"], "->", fn(*b["call"][1:]))
    return 1


def selftest() -> int:
    """Binding demo: corrupt one recorded result and show TLC rejects the trace."""
    o = Outcome(PID, "quick")
    rng = random.Random(1)
    u = wide_universe(rng)
    ev = normalise_events(record_traces(rng, u, 3, 30), u)
    ok = validate_trace(o, ev, u)
    k = next(i for i, e in enumerate(ev) if e["op"] == "get" and e["res"]["found"])
    ev[k]["res"]["body"] = "CORRUPTED"
    bad = validate_trace(o, ev, u)
    print("unmodified trace: bad =", len(ok), "; corrupted trace: bad =", len(bad), bad[:1])
    return 0 if (not ok and bad) else 1
