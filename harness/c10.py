"""C10 — the page store returns the latest version of every page under every spelling.

M  TLC: MC_PageStore_norm (read-side normalisation == reference on every reachable
        store), MC_PageStore_memo (memo coherence, observed lookups == reference,
        commit only publishes), Demo_* (the old design with the never-invalidated
        memo is shown to violate the invariant).
G  TLC Gen_PageStore: every add/redirect/commit history up to the bound, with the
        reference lookup table of every state; each history is replayed into a real
        Wtp on a real SQLite file in two probing schedules (eager: probe after every
        step, so the memo is always populated before the next write; lazy: probe at
        the end only) plus a probe through a *new* context on the same file.
   TLC -simulate: longer random behaviours of the same spec, replayed the same way.
V  random long histories over a wider title universe recorded from the real code and
        validated by TLC against Trace_PageStore.
"""
from __future__ import annotations

import json
import os
import re
import random
import shutil
import tempfile
from pathlib import Path

import common
from common import Outcome, tlc, pmap, Scratch

PID = "C10"
NONS = 9999

ATOM = {"SP": " ", "US": "_"}


def conc(atoms) -> str:
    return "".join(ATOM.get(a, a) for a in atoms)


def conc_red(r):
    return None if list(r) == ["-"] else conc(r)


NOTFOUND = {"found": False, "title": [], "ns": 0, "redirect": ["-"], "body": "", "model": ""}
BODY = {"b1": "body one", "b2": "second body\nline", "": None}


def res_of_page(p):
    if p is None:
        return None
    return (p.title, p.namespace_id, p.redirect_to, p.body, p.model)


def res_of_exp(r):
    if not r["found"]:
        return None
    return (conc(r["title"]), r["ns"], conc_red(r["redirect"]), BODY[r["body"]], r["model"])


def new_ctx(path):
    from wikitextprocessor import Wtp

    return Wtp(db_path=str(path), quiet=True)


def apply_op(ctx, op):
    if op["op"] == "add":
        ctx.add_page(
            conc(op["title"]),
            op["ns"],
            body=BODY[op["body"]],
            redirect_to=conc_red(op["redirect"]),
        )
    elif op["op"] == "commit":
        ctx.db_conn.commit()
    else:
        raise ValueError(op)


def probe(ctx, args, table, where, hist, out):
    """Compare every lookup of the universe with the spec's table."""
    results = [res_of_exp(r) for r in table["results"]]
    n = 0
    for i, a in enumerate(args):
        t = conc(a["title"])
        ns = None if a["ns"] == NONS else a["ns"]
        exp_get = results[table["get"][i] - 1]
        exp_res = results[table["res"][i] - 1]
        got = res_of_page(ctx.get_page(t, ns, a["nr"]))
        n += 1
        if got != exp_get:
            out.append({"hist": hist, "where": where, "call": ["get_page", t, ns, a["nr"]], "expected": exp_get, "got": got})
        if not a["nr"]:
            got = res_of_page(ctx.get_page_resolve_redirect(t, ns))
            n += 1
            if got != exp_res:
                out.append({"hist": hist, "where": where, "call": ["get_page_resolve_redirect", t, ns], "expected": exp_res, "got": got})
            if ns is not None:
                e = ctx.page_exists(t, ns)
                n += 1
                if e != (exp_get is not None):
                    out.append({"hist": hist, "where": where, "call": ["page_exists", t, ns], "expected": exp_get is not None, "got": e})
            b = ctx.get_page_body(t, ns)
            n += 1
            if b != (exp_res[3] if exp_res else None):
                out.append({"hist": hist, "where": where, "call": ["get_page_body", t, ns], "expected": exp_res[3] if exp_res else None, "got": b})
    return n


_G = {}


def replay_chunk(chunk):
    """chunk: list of (hist, mode). Uses globals _G['args'], _G['tables']."""
    common.use_repo()
    args = _G["args"]
    tables = _G["tables"]
    res = []
    d = Path(tempfile.mkdtemp(prefix="c10-"))
    try:
        for k, (hist, mode) in enumerate(chunk):
            bad: list = []
            ncalls = 0
            path = d / f"db{k}" / "pages.db"
            path.parent.mkdir()
            ctx = new_ctx(path)
            try:
                if mode == "eager":
                    ncalls += probe(ctx, args, tables[common.json_key([])]["cur"], "after 0 ops", hist, bad)
                for i, op in enumerate(hist):
                    apply_op(ctx, op)
                    if mode == "eager" or i == len(hist) - 1:
                        tb = tables[common.json_key(hist[: i + 1])]
                        ncalls += probe(ctx, args, tb["cur"], f"after {i+1} ops ({mode})", hist, bad)
                # a new context on the same file sees exactly the committed rows
                tb = tables[common.json_key(hist)]
                comtab = tb["cur"] if tb["com"]["same"] else tb["com"]
                ctx2 = new_ctx(path)
                try:
                    ncalls += probe(ctx2, args, comtab, "new context on the same file", hist, bad)
                finally:
                    ctx2.db_conn.close()
            except Exception as e:  # an exception is a failure of the real API
                bad.append({"hist": hist, "where": "exception", "call": [], "expected": "no exception", "got": repr(e)})
            finally:
                try:
                    ctx.db_conn.close()
                except Exception:
                    pass
                shutil.rmtree(path.parent, ignore_errors=True)
            res.append({"hist": hist, "mode": mode, "calls": ncalls, "bad": bad[:3], "nbad": len(bad)})
    finally:
        shutil.rmtree(d, ignore_errors=True)
    return res


def load_gen(r):
    args = r.tagged("ARGS")[0]
    tables = {}
    for c in r.cases:
        tables[common.json_key(c["hist"])] = {"cur": c["cur"], "com": c["com"]}
    return args, tables


def run_replay(o: Outcome, name, args, tables, hists_modes):
    _G["args"] = args
    _G["tables"] = tables
    res = pmap(replay_chunk, hists_modes)
    for r in res:
        o.evaluations += r["calls"]
        o.traces += 1
        o.shape(("hist", common.json_key(r["hist"])))
        if r["nbad"]:
            b = r["bad"][0]
            o.violation(
                {"kind": "G", "gen": name, "hist": r["hist"], "mode": r["mode"], "first_bad": b},
                f"{b['call'][0] if b['call'] else 'exception'} disagrees with the specification ({b['where']}): returned {b['got']!r}, required {b['expected']!r}",
                cls=(b['call'][0] if b['call'] else 'exception') + re.sub(r'[0-9]+', 'N', b['where']),
            )
    return res


# ---------------------------------------------------------------------------
# V: recorded random histories validated by TLC
# ---------------------------------------------------------------------------

def wide_universe(rng):
    """Atom tables + concrete spellings for a wider universe than the MC one."""
    common.use_repo()
    from wikitextprocessor import Wtp

    with Scratch("c10u-") as d:
        w = Wtp(db_path=str(d / "x" ) + ".db", quiet=True)
        nsdata = w.NAMESPACE_DATA
        w.db_conn.close()
    pfxns, canon = {}, {}
    conc_of = {}
    chosen = [10, 828, 100, 14, 110]
    for key, v in nsdata.items():
        if v["id"] not in chosen:
            continue
        names = [v["name"]] + v["aliases"] + ([key] if key != v["name"] else [])
        canon[str(v["id"])] = v["name"] + ":"
        for n in names:
            for variant in {n, n.lower(), n.upper(), n.capitalize()}:
                pfxns[variant + ":"] = v["id"]
    upper = {}
    firsts = ["f", "F", "é", "É", "z", "Z", "9", "ñ", "Ñ"]
    for c in firsts:
        upper[c] = c.upper()
    words = ["oo", "ar baz", "'s", "/doc", "-x", ":w", "R:Webster"]
    return {"pfxns": pfxns, "canon": canon, "upper": upper, "firsts": firsts, "words": words, "ns": chosen}


def rand_title(rng, u, ns, write: bool):
    first = rng.choice(u["firsts"])
    atoms = [first]
    for _ in range(rng.randint(1, 2)):
        w = rng.choice(u["words"])
        for j, part in enumerate(w.split(" ")):
            if j:
                atoms.append("SP" if write or rng.random() < 0.6 else "US")
            atoms.append(part)
    if ns not in (0, None):
        can = u["canon"][str(ns)]
        if write:
            if rng.random() < 0.5:
                atoms = [can] + atoms
        else:
            r = rng.random()
            if r < 0.3:
                atoms = [can] + atoms
            elif r < 0.7:
                opts = [p for p, n in u["pfxns"].items() if n == ns]
                atoms = [rng.choice(opts)] + atoms
    return atoms


def record_traces(rng, u, ntraces, length):
    """Run random histories on the real store; return the event list."""
    events = []
    with Scratch("c10v-") as d:
        for tid in range(ntraces):
            path = d / f"t{tid}" / "p.db"
            path.parent.mkdir()
            ctx = new_ctx(path)
            events.append({"op": "reset", "tid": tid})
            written: list = []
            try:
                for _ in range(length):
                    r = rng.random()
                    ns = rng.choice([0, 10, 10, 828, 100, 14, 110])
                    if r < 0.3 or not written:
                        t = rand_title(rng, u, ns, True)
                        if written and rng.random() < 0.4:
                            t, ns = rng.choice(written)  # overwrite
                        red = None
                        if written and rng.random() < 0.25:
                            cands = [w for w in written if w[1] == ns]
                            if cands:
                                rt = rng.choice(cands)[0]
                                red = rt if ns == 0 or rt[0] == u["canon"][str(ns)] else [u["canon"][str(ns)]] + rt
                        body = f"B{rng.randint(0, 9)}" if red is None else None
                        model = rng.choice(["wikitext", "Scribunto", "json"])
                        ctx.add_page(conc(t), ns, body=body, redirect_to=conc(red) if red else None, model=model)
                        written.append((t, ns))
                        events.append({"op": "add", "tid": tid, "title": t, "ns": ns, "redirect": red or ["-"], "body": body or "", "model": model})
                    elif r < 0.36:
                        ctx.db_conn.commit()
                        events.append({"op": "commit", "tid": tid})
                    else:
                        # look up something related to a written page, or random
                        if written and rng.random() < 0.8:
                            wt, wns = rng.choice(written)
                            base = [a for a in wt if a not in u["pfxns"]]
                            ns = wns if rng.random() < 0.85 else rng.choice([None, 0, 10])
                            t = list(base)
                            if rng.random() < 0.4:
                                t[0] = t[0].lower() if rng.random() < 0.7 else t[0].upper()
                            t = ["US" if a == "SP" and rng.random() < 0.4 else a for a in t]
                            if ns not in (0, None):
                                rr = rng.random()
                                opts = [p for p, n in u["pfxns"].items() if n == ns]
                                if rr < 0.6:
                                    t = [rng.choice(opts)] + t
                            elif ns is None and wns != 0 and rng.random() < 0.7:
                                t = [u["canon"][str(wns)]] + t
                        else:
                            ns = rng.choice([None, 0, 10, 828, 100])
                            t = rand_title(rng, u, ns, False)
                        kind = rng.choice(["get", "get", "resolve", "exists", "body", "reopen_get", "count", "all"])
                        if kind in ("count", "all"):
                            has_ns = rng.random() < 0.7
                            nsl = sorted(set(rng.choice([0, 10, 828, 100, 14, 110]) for _ in range(rng.randint(1, 3)))) if has_ns else []
                            redirects = rng.random() < 0.6
                            has_model = rng.random() < 0.4
                            model = rng.choice(["wikitext", "Scribunto", "json"]) if has_model else ""
                            ev = {"op": kind, "tid": tid, "hasNs": has_ns, "nsl": nsl, "redirects": redirects, "hasModel": has_model, "model": model}
                            kw = dict(namespace_ids=nsl if has_ns else None, include_redirects=redirects, model=model if has_model else None)
                            if kind == "count":
                                ev["res"] = {"n": ctx.saved_page_nums(**kw)}
                            else:
                                ev["res"] = {"rows": [abs_page(p, u) for p in ctx.get_all_pages(**kw)]}
                            events.append(ev)
                            continue
                        nr = rng.random() < 0.3
                        ev = {"op": kind, "tid": tid, "title": t, "ns": NONS if ns is None else ns, "nr": nr}
                        ts = conc(t)
                        if kind == "get":
                            ev["res"] = abs_page(ctx.get_page(ts, ns, nr), u)
                        elif kind == "resolve":
                            ev["res"] = abs_page(ctx.get_page_resolve_redirect(ts, ns), u)
                        elif kind == "exists":
                            if ns is None:
                                continue
                            ev["res"] = {"found": bool(ctx.page_exists(ts, ns))}
                        elif kind == "body":
                            b = ctx.get_page_body(ts, ns)
                            ev["res"] = {"found": b is not None, "body": b or ""}
                        else:
                            c2 = new_ctx(path)
                            try:
                                ev["res"] = abs_page(c2.get_page(ts, ns, nr), u)
                            finally:
                                c2.db_conn.close()
                        events.append(ev)
            finally:
                ctx.db_conn.close()
    return events


def tokenize(s, u):
    """Concrete title -> atoms (inverse of conc for the generator's alphabet)."""
    atoms = []
    for p in sorted(u["pfxns"], key=len, reverse=True):
        if s.startswith(p):
            atoms.append(p)
            s = s[len(p):]
            break
    if s:
        atoms.append(s[0])
        rest = s[1:]
        cur = ""
        for ch in rest:
            if ch in " _":
                if cur:
                    atoms.append(cur)
                    cur = ""
                atoms.append("SP" if ch == " " else "US")
            else:
                cur += ch
        if cur:
            atoms.append(cur)
    return atoms


def retok(atoms, u):
    return tokenize(conc(atoms), u)


def abs_page(p, u):
    if p is None:
        return {"found": False, "title": [], "ns": 0, "redirect": ["-"], "body": "", "model": ""}
    return {
        "found": True,
        "title": tokenize(p.title, u),
        "ns": p.namespace_id,
        "redirect": tokenize(p.redirect_to, u) if p.redirect_to is not None else ["-"],
        "body": p.body or "",
        "model": p.model or "",
    }


def normalise_events(events, u):
    """Canonical tokenisation of every title in the trace (word atoms are split at
    blanks the same way on both sides)."""
    for e in events:
        if "title" in e:
            e["title"] = retok(e["title"], u)
        if e.get("op") == "add" and e["redirect"] != ["-"]:
            e["redirect"] = retok(e["redirect"], u)
    return events


def validate_trace(o: Outcome, events, u, name="Trace_PageStore"):
    with Scratch("c10t-") as d:
        tf = d / "trace.json"
        tf.write_text(json.dumps({"pfxns": u["pfxns"], "canon": u["canon"], "upper": u["upper"], "events": events}))
        cfg = "SPECIFICATION TSpec\nINVARIANT Verdict\nINVARIANT Coherent\nPOSTCONDITION Accepted\nCHECK_DEADLOCK FALSE\n"
        r = tlc("Trace_PageStore", "trace.cfg", cfg_text=cfg, workers=1, env={"TRACE_FILE": str(tf)}, timeout=1800)
    o.add_tlc(name, r)
    v = r.tagged("VERDICT")
    if not v:
        raise common.TLCError("trace validation printed no verdict")
    v = v[0]
    if v["consumed"] != len(events):
        raise common.TLCError(f"trace consumed {v['consumed']} of {len(events)} events")
    return v["bad"]


def run_v(o: Outcome, ntraces, length):
    rng = random.Random(common.seed() * 7919 + 10)
    u = wide_universe(rng)
    events = normalise_events(record_traces(rng, u, ntraces, length), u)
    bad = validate_trace(o, events, u)
    o.traces += ntraces
    o.evaluations += len(events)
    o.extra["trace_events"] = len(events)
    for e in events:
        if e["op"] not in ("reset", "commit"):
            o.shape(("ev", e["op"], common.json_key(e.get("title")), e.get("ns")))
    seen = set()
    for b in bad:
        ev = events[b["i"] - 1]
        if b["tid"] in seen:
            continue
        seen.add(b["tid"])
        # cut out the offending trace up to the failing event for the replay
        start = max(i for i in range(b["i"]) if events[i]["op"] == "reset")
        o.violation(
            {"kind": "V", "universe": {k: u[k] for k in ("pfxns", "canon", "upper")}, "events": events[start : b["i"]]},
            (f"{ev['op']}({conc(ev['title'])!r}, ns={ev['ns']}) returned {ev['res']!r}; specification: {b['expected']!r}" if "title" in ev else
             f"{ev['op']}(namespaces={ev.get('nsl')}, redirects={ev.get('redirects')}, model={ev.get('model')!r}) returned {str(ev['res'])[:300]}; specification: {b['expected']!r}"),
            cls="V:" + ev["op"],
        )
    if events:
        o.sample({"recorded_trace_prefix": events[1:5]})


# ---------------------------------------------------------------------------

def run(tier: str) -> int:
    o = Outcome(PID, tier)
    o.rule = (
        "G: every add/redirect/commit history up to MaxLen over the bounded title universe is one case "
        "(distinct by history), replayed eager+lazy and through a new context, comparing the full lookup table; "
        "V: random histories, distinct by (op,title,ns) of each event. A case is non-trivial when it contains a write."
    )
    o.assumptions = [
        "titles are added with spaces (never underscores) and with the canonical prefix or none, as dumps do",
        "TLC 1.8 + CommunityModules Json/IOUtils; SQLite as shipped with /venv python",
    ]
    thorough = tier == "thorough"
    # ---- M
    r = tlc("MC_PageStore", "MC_PageStore_norm_T.cfg" if thorough else "MC_PageStore_norm.cfg", workers=16, timeout=1800)
    o.add_tlc("MC_norm", r)
    r = tlc("MC_PageStore", "MC_PageStore_memo_T.cfg" if thorough else "MC_PageStore_memo.cfg", workers=16, timeout=1800, coverage=True)
    o.add_tlc("MC_memo", r)
    cov = r.coverage_actions()
    o.extra["action_coverage"] = {k: v[1] for k, v in cov.items()}
    r = tlc("MC_PageStore", "Demo_PageStore_memo_asis.cfg", workers=4, check=False)
    o.extra["demo_asis_memo_violates_invariant"] = bool(r.invariant_violated)
    if not r.invariant_violated:
        raise common.TLCError("Demo config no longer shows the never-invalidated-memo counterexample (vacuity guard)")
    # ---- G exhaustive
    r = tlc("Gen_PageStore", "Gen_PageStore_T.cfg" if thorough else "Gen_PageStore_Q.cfg", workers=1, timeout=3000)
    o.add_tlc("Gen", r)
    args, tables = load_gen(r)
    hists = [json.loads(k) for k in tables]
    maxlen = max(len(h) for h in hists)
    work = [(h, "lazy") for h in hists if h] + [(h, "eager") for h in hists if len(h) == maxlen]
    run_replay(o, "exhaustive", args, tables, work)
    o.exhaustive = True
    o.sample({"history": hists[len(hists) // 2], "n_lookups_per_probe": len(args)})
    # ---- G simulate (longer behaviours)
    num = 12 if thorough else 2
    depth = 8
    r = tlc(
        "Gen_PageStore", "Sim_PageStore.cfg", workers=1, timeout=3000,
        extra=["-simulate", f"num={num}", "-depth", str(depth), "-seed", str(common.seed() + 1)],
    )
    m = re.search(r"The number of states generated: (\d+)", r.out)
    r.generated = r.distinct = int(m.group(1)) if m else 0
    o.add_tlc("Sim", r)
    sargs = r.tagged("ARGS")[0]
    stables = {common.json_key([]): tables[common.json_key([])]} if False else {}
    empty_tab = None
    maximal = []
    for c in r.tagged("SIM"):
        h = c["hist"]
        maximal.append(h)
        for k in range(1, len(h) + 1):
            stables.setdefault(common.json_key(h[:k]), {"cur": c["steps"][k - 1], "com": None})
        stables[common.json_key(h)]["com"] = c["com"]
    stables[common.json_key([])] = {"cur": {"results": [NOTFOUND], "get": [1] * len(sargs), "res": [1] * len(sargs)}, "com": {"same": True}}
    work = [(h, "eager") for h in maximal] + [(h, "lazy") for h in maximal[::2]]
    run_replay(o, "simulate", sargs, stables, work)
    if maximal:
        o.sample({"simulated_history": maximal[0]})
    # ---- V
    run_v(o, 300 if thorough else 40, 40)
    # the repository's own test-suite as a trace source (harness/suitetrace.py)
    import suitetrace
    common.with_engine(o, "suite", lambda: suitetrace.extend(o, tier, PID))
    if tier == "thorough":  # inductive invariants of the design (Apalache; harness/apalache.py)
        import apalache
        common.with_engine(o, "inductive", lambda: apalache.extend(o, tier, PID))
    return o.finish()


def replay(path: str) -> int:
    v = json.loads(Path(path).read_text())
    if v.get("case", {}).get("engine") == "suite":
        import suitetrace
        return suitetrace.replay(path)
    case = v["case"]
    o = Outcome(PID, "quick")
    if case["kind"] == "V":
        u = case["universe"]
        common.use_repo()
        with Scratch("c10r-") as d:
            ctx = new_ctx(d / "p.db")
            for e in case["events"][:-1]:
                if e["op"] == "add":
                    ctx.add_page(conc(e["title"]), e["ns"], body=e["body"] or None, redirect_to=conc_red(e["redirect"]), model=e["model"])
                elif e["op"] == "commit":
                    ctx.db_conn.commit()
                elif e["op"] in ("get",):
                    ctx.get_page(conc(e["title"]), None if e["ns"] == NONS else e["ns"], e["nr"])
                elif e["op"] in ("resolve", "body"):
                    ctx.get_page_resolve_redirect(conc(e["title"]), None if e["ns"] == NONS else e["ns"])
                elif e["op"] == "exists":
                    ctx.page_exists(conc(e["title"]), e["ns"])
            e = case["events"][-1]
            print("replaying last event", e)
            ns = None if e["ns"] == NONS else e["ns"]
            if e["op"] == "get":
                print("now:", ctx.get_page(conc(e["title"]), ns, e["nr"]))
            elif e["op"] in ("resolve", "body"):
                print("now:", ctx.get_page_resolve_redirect(conc(e["title"]), ns))
            print("spec/why:", v["why"])
        return 1
    # G: re-run the single history with a freshly generated table
    r = tlc("Gen_PageStore", "Gen_PageStore_T.cfg" if case.get("gen") != "simulate" else "Sim_PageStore.cfg", workers=1, timeout=3000) if False else None
    print(json.dumps(v, indent=1)[:3000])
    common.use_repo()
    with Scratch("c10r-") as d:
        ctx = new_ctx(d / "p.db")
        b = case["first_bad"]
        for op in case["hist"]:
            apply_op(ctx, op)
        if b["call"]:
            fn = getattr(ctx, b["call"][0])
            print("re-executed (lazy schedule):", b["call"], "->", fn(*b["call"][1:]))
    return 1


def selftest() -> int:
    """Binding demo: corrupt one recorded result and show TLC rejects the trace."""
    o = Outcome(PID, "quick")
    rng = random.Random(1)
    u = wide_universe(rng)
    ev = normalise_events(record_traces(rng, u, 3, 30), u)
    ok = validate_trace(o, ev, u)
    k = next(i for i, e in enumerate(ev) if e["op"] == "get" and e["res"]["found"])
    ev[k]["res"]["body"] = "CORRUPTED"
    bad = validate_trace(o, ev, u)
    print("unmodified trace: bad =", len(ok), "; corrupted trace: bad =", len(bad), bad[:1])
    return 0 if (not ok and bad) else 1
